/-
  C19 — Workflow definition: paths and names mean the same wherever gwf is run.
-/
import GwfModel.Workflow
import GwfProps.C03
import Std.Data.String.ToNat
namespace Gwf.C19
open Gwf Gwf.Wfl

/-- generated-table obligation: the pattern and the matching function in `is_valid_name` are the ones
    this model implements (a `$`-anchored `re.match` would accept a trailing newline) -/
theorem nameRegex_spec : Generated.nameRegex = "[a-zA-Z_][a-zA-Z0-9._]*" ∧ Generated.nameRegexFunc = "fullmatch" := by
  decide

/-- **names must be identifier-like**: accepted iff non-empty, first character a letter or `_`,
    every further character a letter, digit, `_` or `.` -/
theorem validName_iff (s : String) :
    validName s = true ↔ ∃ c rest, s.toList = c :: rest ∧ isAlpha_ c = true ∧ ∀ d ∈ rest, isNameRest d = true := by
  simp only [validName]
  cases h : s.toList with
  | nil => simp [validNameL]
  | cons c rest =>
    simp only [validNameL, Bool.and_eq_true, List.all_eq_true]
    constructor
    · rintro ⟨a, b⟩; exact ⟨c, rest, rfl, a, b⟩
    · rintro ⟨c', rest', he, a, b⟩
      simp only [List.cons.injEq] at he
      obtain ⟨rfl, rfl⟩ := he
      exact ⟨a, b⟩

/-- in particular a trailing newline, an empty name, a leading digit or dot are rejected -/
theorem trailing_newline_rejected (s : String) : validName (s ++ "\n") = false := by
  simp only [validName, String.toList_append]
  cases h : s.toList with
  | nil => decide
  | cons c rest =>
    simp only [List.cons_append, validNameL, Bool.and_eq_false_iff]
    right
    simp only [List.all_eq_false]
    exact ⟨'\n', by simp, by decide⟩

example : validName "" = false := by decide
example : validName "9lives" = false := by decide
example : validName ".hidden" = false := by decide
example : validName "a.b_C9" = true := by decide
example : validName "naïve" = false := by decide

/-- **paths must be non-empty and free of control characters** (both the C0 and the C1 block) -/
theorem validPath_iff (s : String) :
    validPath s = true ↔ s.toList ≠ [] ∧ ∀ c ∈ s.toList, ¬ (c.toNat ≤ 31 ∨ (127 ≤ c.toNat ∧ c.toNat ≤ 159)) := by
  simp only [validPath, Bool.and_eq_true, Bool.not_eq_true', List.isEmpty_eq_false_iff, List.any_eq_false, isCc,
    Bool.or_eq_true, decide_eq_true_eq, Bool.and_eq_true]

example : validPath "" = false := by decide
example : validPath "a\tb" = false := by decide
example : validPath "a\u0085b" = false := by decide
example : validPath "dir with space/ü.txt" = true := by decide

/-- **a target made from a template or by map lives in the template's working directory if it names
    one, otherwise in the workflow's — never in "." (the invoking directory)** -/
theorem targetWd_cases (t : Option String) (w : String) :
    targetWd t w = (match t with | some x => if x = "" then w else x | none => w) := by
  cases t with
  | none => rfl
  | some x => simp [targetWd, String.isEmpty_iff]

/-- **relative paths denote files relative to the (absolute) working directory, independently of
    the directory gwf is invoked from** (C03.normPath_cwd_irrelevant, restated) -/
theorem paths_cwd_independent (cwd cwd' wd p : List Char) (hwd : Path.isabs wd = true) :
    Path.normPath cwd wd p = Path.normPath cwd' wd p :=
  C03.normPath_cwd_irrelevant cwd cwd' wd p hwd

/-- a name that is already present is rejected -/
theorem duplicate_name_rejected (names : List String) (n : String) (h : n ∈ names) :
    addTarget names n = .error "exists" := by
  simp [addTarget, h]

theorem addTarget_ok (names : List String) (n : String) (h : n ∉ names) :
    addTarget names n = .ok (names ++ [n]) := by
  simp [addTarget, h]

/-- adding a batch of names succeeds iff they are pairwise distinct and new — so two items of one
    `map` call that are given the same name are rejected too -/
theorem addAll_ok_iff (names new : List String) :
    (∃ r, addAll names new = .ok r) ↔ new.Nodup ∧ ∀ n ∈ new, n ∉ names := by
  induction new generalizing names with
  | nil => simp [addAll]
  | cons n rest ih =>
    simp only [addAll]
    by_cases hn : n ∈ names
    · simp only [duplicate_name_rejected names n hn]
      constructor
      · rintro ⟨r, hr⟩; simp at hr
      · rintro ⟨_, h2⟩; exact absurd hn (h2 n (by simp))
    · rw [addTarget_ok names n hn]
      simp only []
      rw [ih (names ++ [n])]
      constructor
      · rintro ⟨h1, h2⟩
        have hnr : n ∉ rest := fun hm => h2 n hm (by simp)
        refine ⟨List.nodup_cons.2 ⟨hnr, h1⟩, ?_⟩
        intro x hx
        rcases List.mem_cons.1 hx with rfl | hx'
        · exact hn
        · exact fun hxn => h2 x hx' (by simp [hxn])
      · rintro ⟨hnd, h3⟩
        obtain ⟨hnr, h2⟩ := List.nodup_cons.1 hnd
        refine ⟨h2, fun x hx hmem => ?_⟩
        rcases List.mem_append.1 hmem with h | h
        · exact h3 x (List.mem_cons_of_mem _ hx) h
        · have : x = n := by simpa using h
          subst this; exact hnr hx

/-- **map's default and string naming give distinct names for distinct items** -/
theorem map_names_distinct (base : String) (i j : Nat) (h : mapName base i = mapName base j) : i = j := by
  simp only [mapName, String.append_right_inj] at h
  exact Nat.repr_inj.1 h

theorem findUp_root (has : List String → Bool) (root : List String) (hroot : has root = true) :
    ∀ (rev : List String) (fuel : Nat), rev.length ≤ fuel →
      (∀ pre, pre ≠ [] → (∃ suf, rev.reverse = pre ++ suf) → has (root ++ pre) = false) →
      findUp has fuel (root ++ rev.reverse) = some root := by
  intro rev
  induction rev with
  | nil =>
    intro fuel _ _
    cases fuel <;> simp [findUp, hroot]
  | cons x r ih =>
    intro fuel hlen hno
    have hrev : (x :: r).reverse = r.reverse ++ [x] := by simp
    have hnot : has (root ++ (x :: r).reverse) = false := hno (x :: r).reverse (by simp) ⟨[], by simp⟩
    cases fuel with
    | zero => simp at hlen
    | succ fuel =>
      simp only [findUp, hnot, Bool.false_eq_true, if_false]
      cases hr : root ++ (x :: r).reverse with
      | nil => simp at hr
      | cons a as =>
        simp only
        have : (a :: as).dropLast = root ++ r.reverse := by
          rw [← hr, hrev, ← List.append_assoc, List.dropLast_concat]
        rw [this]
        apply ih fuel (by simp at hlen; omega)
        intro pre hpre ⟨suf, hs⟩
        exact hno pre hpre ⟨suf ++ [x], by rw [hrev, hs]; simp⟩

/-- **invoking gwf from the project root or from any nested directory that has no workflow file of
    its own finds the same workflow file, hence the same project directory and state directory** -/
theorem find_from_subdir (has : List String → Bool) (root ext : List String) (hroot : has root = true)
    (hno : ∀ pre, pre ≠ [] → (∃ suf, ext = pre ++ suf) → has (root ++ pre) = false) :
    findWorkflow has (root ++ ext) = some root := by
  simp only [findWorkflow]
  have := findUp_root has root hroot ext.reverse (root ++ ext).length (by simp) (by simpa using hno)
  simpa using this

end Gwf.C19
