/-
  C16 — touch makes the selected cone look completed without changing file contents.
-/
import GwfProps.Lemmas.TouchLemmas
import GwfProps.Lemmas.TouchOrder
import GwfProps.C01
import GwfProps.C18
import GwfProps.Lemmas.WorldGraph
namespace Gwf.C16
open Gwf


theorem touchOne_fields (w : World) (wf : List WT) (t : Nat) :
    (w.touchOne wf t).dir = w.dir ∧ (w.touchOne wf t).clock = w.clock + 1 ∧
    (w.touchOne wf t).tracked = w.tracked ∧ (w.touchOne wf t).jobs = w.jobs ∧
    (w.touchOne wf t).hashing = w.hashing ∧
    (w.touchOne wf t).files = setAll (outsF w.dir wf t) (w.clock + 1) w.files := by
  simp only [World.touchOne, outsF]
  cases wtOf wf t <;> simp [setAll]

/-- the files after touching the targets in `order` are exactly the clock-stamped sequence -/
theorem touch_files_eq (wf : List WT) : ∀ (order : List Nat) (w : World),
    (order.foldl (fun w t => w.touchOne wf t) w).files = stampSeq (outsF w.dir wf) order w.clock w.files ∧
    (order.foldl (fun w t => w.touchOne wf t) w).tracked = w.tracked ∧
    (order.foldl (fun w t => w.touchOne wf t) w).jobs = w.jobs
  | [], w => ⟨rfl, rfl, rfl⟩
  | t :: rest, w => by
    obtain ⟨h1, h2, h3, h4, _, h6⟩ := touchOne_fields w wf t
    have ih := touch_files_eq wf rest (w.touchOne wf t)
    simp only [List.foldl_cons, stampSeq]
    rw [ih.1, ih.2.1, ih.2.2, h1, h2, h3, h4, h6]
    exact ⟨rfl, rfl, rfl⟩

/-- touch visits the cone in post-order: every dependency of a touched target is touched before it,
    every requested target is touched, no target twice -/
theorem touch_postorder (deps : Nat → List Nat) (rank : Nat → Nat) (hr : ∀ t d, d ∈ deps t → rank d < rank t)
    (fuel : Nat) (hf : ∀ t, rank t < fuel) (eps : List Nat) :
    let order := eps.foldl (fun a e => touchVisit deps fuel a e) []
    (∀ p t r, order = p ++ t :: r → ∀ d ∈ deps t, d ∈ p) ∧ order.Nodup ∧ (∀ e ∈ eps, e ∈ order) := by
  have h := tv_fold deps (touchVisit deps fuel) eps (fun d _ => touchVisit_spec deps rank hr fuel d (hf d)) [] (by simp [POrd])
  obtain ⟨h1, h2, _⟩ := h
  refine ⟨fun p t r hl => pord_split _ p r t h1 hl, ?_, h2⟩
  have := POrd.nodup h1
  exact nodup_of_reverse.1 this

/-- **after touch every touched target that declares outputs is up to date**: all outputs exist and
    no input is newer than any output — provided (as validation guarantees) no file has two producers
    and every input of a touched target is an output of a target touched EARLIER or an existing file
    nobody produces that is not dated in the future -/
theorem touch_makes_uptodate (w : World) (wf : List WT) (order : List Nat)
    (hnodup : order.Nodup)
    (hdisj : ∀ a ∈ order, ∀ b ∈ order, a ≠ b → ∀ q, q ∈ outsF w.dir wf a → q ∉ outsF w.dir wf b)
    (hpost : ∀ p r t, order = p ++ t :: r → ∀ i ∈ insF w.dir wf t,
        producedBy (outsF w.dir wf) p i ∨
        (¬ producedBy (outsF w.dir wf) order i ∧ ∃ m, alook i w.files = some m ∧ m ≤ w.clock))
    (t : Nat) (ht : t ∈ order) (hout : outsF w.dir wf t ≠ []) :
    let w' := order.foldl (fun w t => w.touchOne wf t) w
    shouldRun (fun p => alook p w'.files) false (insF w.dir wf t) (outsF w.dir wf t) = some false := by
  intro w'
  have hfiles : w'.files = stampSeq (outsF w.dir wf) order w.clock w.files := (touch_files_eq wf order w).1
  obtain ⟨s, ho, hi⟩ := stampSeq_uptodate (outsF w.dir wf) (insF w.dir wf) w.clock w.files order hdisj hnodup
    [] order w.clock w.files (by simp) (Nat.le_refl _) (by rintro q ⟨u, hu, _⟩; simp at hu) (fun q _ => rfl) hpost t ht
  have hin : ∀ i ∈ insF w.dir wf t, ((fun p => alook p w'.files) i).isSome := by
    intro i hi'
    obtain ⟨m, hm, _⟩ := hi i hi'
    simp only [hfiles, hm, Option.isSome_some]
  rw [C01.shouldRun_false_iff _ false _ _ hin]
  refine ⟨rfl, hout, ?_, ?_⟩
  · intro o ho'
    simp only [hfiles, ho o ho', Option.isSome_some]
  · intro i hi' o ho' ti to hti hto
    obtain ⟨m, hm, hms⟩ := hi i hi'
    simp only [hfiles] at hti hto
    rw [hm] at hti; rw [ho o ho'] at hto
    simp only [Option.some.injEq] at hti hto
    omega

/-- **end to end** (no hypothesis about the graph left): on a workflow that validation accepts, with no
    file dated after "now", `gwf touch` leaves EVERY touched target that declares outputs up to date —
    all outputs present, no input newer than any output.  Composition of validation (C04: one producer
    per file, sources exist, a rank), the dependency relation (C03.deps_iff), the post-order of the
    visit (touch_postorder) and the stamping lemma (touch_makes_uptodate). -/
theorem touch_completes (w : World) (wf : List WT) (g : Graph String)
    (hg : (w.proj wf none).graph = .ok g)
    (hid : ∀ a ∈ wf, ∀ b ∈ wf, a.id = b.id → a = b)
    (hnow : ∀ p m, alook p w.files = some m → m ≤ w.clock)
    (eps : List Nat) (a : WT) (ha : a ∈ wf)
    (ht : a.id ∈ eps.foldl (fun acc e => touchVisit g.depsOf (g.ids.length + 1) acc e) [])
    (hout : a.outsAbs w.dir ≠ []) :
    let order := eps.foldl (fun acc e => touchVisit g.depsOf (g.ids.length + 1) acc e) []
    let w' := order.foldl (fun w t => w.touchOne wf t) w
    shouldRun (fun p => alook p w'.files) false (a.insAbs w.dir) (a.outsAbs w.dir) = some false := by
  intro order w'
  have hg' := world_graph w wf none g hg
  have hidT := wfTgts_ids w.dir wf hid
  obtain ⟨rank, hr, hf⟩ := C04.graph_rank (wfTgts w.dir wf) _ hidT g hg'
  obtain ⟨hpo, hnodup, _⟩ := touch_postorder g.depsOf rank hr (g.ids.length + 1) hf eps
  obtain ⟨hdisj, hpost⟩ := stamp_hyps w wf g hg hid hnow order
    (fun p t r hsplit d hd => Or.inl (hpo p t r hsplit d hd))
  have hout' : outsF w.dir wf a.id ≠ [] := by rw [(outsF_of w.dir wf hid a ha).1]; exact hout
  have := touch_makes_uptodate w wf order hnodup hdisj hpost a.id ht hout'
  rw [(outsF_of w.dir wf hid a ha).1, (outsF_of w.dir wf hid a ha).2] at this
  exact this

theorem touchOne_specChanged_self (w : World) (wf : List WT) (a : WT) (hw : wtOf wf a.id = some a) :
    (w.touchOne wf a.id).specChanged a = false := by
  have hh : (w.touchOne wf a.id).hashing = w.hashing := (touchOne_fields w wf a.id).2.2.2.2.1
  simp only [World.specChanged, hh, C18.touchOne_records w wf a.id a hw a.name]
  cases w.hashing <;> simp

theorem touchOne_specChanged_other (w : World) (wf : List WT) (a : WT) (t : Nat)
    (hother : ∀ b, wtOf wf t = some b → b.name ≠ a.name) :
    (w.touchOne wf t).specChanged a = w.specChanged a := by
  have hh : (w.touchOne wf t).hashing = w.hashing := (touchOne_fields w wf t).2.2.2.2.1
  cases hw : wtOf wf t with
  | none => simp [World.specChanged, World.touchOne, hw]
  | some b =>
    have hne : a.name ≠ b.name := fun e => hother b hw e.symm
    simp only [World.specChanged, hh, C18.touchOne_records w wf t b hw a.name, hne, and_false, if_false]

/-- after touching the targets of `order`, a touched target is never "spec changed": with hashing on
    its record is its current spec, with hashing off nothing is; an untouched target keeps its verdict -/
theorem touched_spec_current (wf : List WT)
    (hid : ∀ a ∈ wf, ∀ b ∈ wf, a.id = b.id → a = b)
    (hname : ∀ a ∈ wf, ∀ b ∈ wf, a.name = b.name → a = b) (a : WT) (ha : a ∈ wf) :
    ∀ (order : List Nat) (w : World), (a.id ∈ order ∨ w.specChanged a = false) →
      (order.foldl (fun w t => w.touchOne wf t) w).specChanged a = false
  | [], w, h => by
    rcases h with h | h
    · simp at h
    · simpa using h
  | t :: rest, w, h => by
    simp only [List.foldl_cons]
    apply touched_spec_current wf hid hname a ha rest (w.touchOne wf t)
    by_cases hta : t = a.id
    · right
      subst hta
      exact touchOne_specChanged_self w wf a (wtOf_mem wf hid a ha)
    · rcases h with h | h
      · left
        simp only [List.mem_cons] at h
        rcases h with h | h
        · exact absurd h.symm hta
        · exact h
      · right
        rw [touchOne_specChanged_other w wf a t]
        · exact h
        · intro b hb e
          obtain ⟨hbm, hbid⟩ := wtOf_some_mem hb
          have := hname b hbm a ha e
          subst this
          exact hta hbid.symm

/-- **what `gwf status` then computes** (with `decideT`: completed unless the backend holds a live,
    failed or cancelled job, or a dependency is not complete): after `gwf touch` every touched target
    that declares outputs is NOT stale in the workflow the scheduling pass works on -/
theorem touch_not_stale (w : World) (wf : List WT) (g : Graph String)
    (hg : (w.proj wf none).graph = .ok g)
    (hid : ∀ a ∈ wf, ∀ b ∈ wf, a.id = b.id → a = b)
    (hname : ∀ a ∈ wf, ∀ b ∈ wf, a.name = b.name → a = b)
    (hnow : ∀ p m, alook p w.files = some m → m ≤ w.clock)
    (eps : List Nat) (a : WT) (ha : a ∈ wf)
    (ht : a.id ∈ eps.foldl (fun acc e => touchVisit g.depsOf (g.ids.length + 1) acc e) [])
    (hout : a.outsAbs w.dir ≠ []) (g' : Graph String) :
    let order := eps.foldl (fun acc e => touchVisit g.depsOf (g.ids.length + 1) acc e) []
    let w' := order.foldl (fun w t => w.touchOne wf t) w
    ((w'.proj wf none).wf g').stale a.id = false := by
  intro order w'
  have hdir : w'.dir = w.dir := by
    have : ∀ (l : List Nat) (w0 : World), (l.foldl (fun w t => w.touchOne wf t) w0).dir = w0.dir := by
      intro l
      induction l with
      | nil => intro _; rfl
      | cons t rest ih => intro w0; simp only [List.foldl_cons]; rw [ih, (touchOne_fields w0 wf t).1]
    exact this order w
  have hup := touch_completes w wf g hg hid hnow eps a ha ht hout
  have hspec := touched_spec_current wf hid hname a ha order w (Or.inl ht)
  apply not_stale_of_uptodate w' wf g' none hid a ha hspec
  rw [hdir]
  exact hup

/-- touch changes only the time stamps of declared outputs of the touched targets: every other file
    keeps its stamp (contents are not part of the state touch can write), and tracked jobs and the
    cluster are untouched -/
theorem touch_frame (w : World) (wf : List WT) (order : List Nat) (q : String)
    (hq : ¬ producedBy (outsF w.dir wf) order q) :
    let w' := order.foldl (fun w t => w.touchOne wf t) w
    alook q w'.files = alook q w.files ∧ w'.tracked = w.tracked ∧ w'.jobs = w.jobs := by
  intro w'
  obtain ⟨h1, h2, h3⟩ := touch_files_eq wf order w
  exact ⟨by rw [h1]; exact stampSeq_untouched _ _ _ _ _ hq, h2, h3⟩

/-- with spec hashing on, touching a target records its current spec (see C18.touchOne_records) -/
theorem touch_records_spec (w : World) (wf : List WT) (t : Nat) (wt : WT) (hwt : wtOf wf t = some wt) (h : w.hashing = true) :
    alook wt.name (w.touchOne wf t).hashes = some wt.spec := by
  rw [C18.touchOne_records w wf t wt hwt wt.name]; simp [h]

/-- a touched target with a live, failed or cancelled job is still reported by that job's state:
    touch only makes the FILE-based decision say "completed" -/
theorem backend_state_still_wins (sub : List Nat) (stale : Bool) :
    (decideT .submitted sub stale).1 = .submitted ∧ (decideT .running sub stale).1 = .running ∧
    (decideT .failed sub stale).1 = .failed ∧ (decideT .cancelled sub stale).1 = .cancelled := by
  simp [decideT]

end Gwf.C16
