/-
  C07 — Prerequisites reach each scheduler intact, so no job starts on unfinished inputs.
-/
import GwfProps.Lemmas.SchedulerLemmas
import GwfProps.Lemmas.LsfLemmas
import GwfProps.C05
namespace Gwf.C07
open Gwf Gwf.Sch

/-- **Slurm: the scheduler reads back exactly the ids gwf names** (afterok list) -/
theorem read_render_slurm (ids : List (List Char)) (hne : ids ≠ []) (hwf : ∀ i ∈ ids, wellFormedId i = true) :
    readDeps .slurm (renderDeps .slurm ids) = some ids := by
  have he : ids.isEmpty = false := by cases ids <;> simp_all
  simp only [renderDeps, he, Bool.false_eq_true, if_false, readDeps, dropPrefixC_append, Option.map_some]
  rw [split_intercalate ':' ids hne (fun i hi => wf_not_mem i ':' (hwf i hi) (Or.inl rfl))]

/-- **SGE: -hold_jid list** -/
theorem read_render_sge (ids : List (List Char)) (hne : ids ≠ []) (hwf : ∀ i ∈ ids, wellFormedId i = true) :
    readDeps .sge (renderDeps .sge ids) = some ids := by
  have he : ids.isEmpty = false := by cases ids <;> simp_all
  simp only [renderDeps, he, Bool.false_eq_true, if_false, readDeps, if_true]
  rw [split_intercalate ',' ids hne (fun i hi => wf_not_mem i ',' (hwf i hi) (Or.inr (Or.inl rfl)))]

/-- **local pool: the task ids themselves** -/
theorem read_render_local (ids : List (List Char)) : readDeps .localPool (renderDeps .localPool ids) = some ids := by
  cases ids with
  | nil => simp [renderDeps, readDeps]
  | cons a rest => simp [renderDeps, readDeps]

/-- no prerequisite, no flag at all — on every backend -/
theorem render_nil (b : Backend) : renderDeps b [] = [] ∧ readDeps b [] = some [] := by
  cases b <;> simp [renderDeps, readDeps]

/-- **LSF: `-w "done(a) && done(b) && …"`** — for every number of prerequisites -/
theorem read_render_lsf (ids : List (List Char)) (hne : ids ≠ []) (hwf : ∀ i ∈ ids, wellFormedId i = true) :
    readDeps .lsf (renderDeps .lsf ids) = some ids := by
  have he : ids.isEmpty = false := by cases ids <;> simp_all
  have hfun : (fun i => "done(".toList ++ i ++ [')']) = wrapDone := rfl
  simp only [renderDeps, he, Bool.false_eq_true, if_false, readDeps, if_true, hfun]
  apply readDone_render ids _ hne
  · have := intercalate_length_ge (ids.map wrapDone) " && ".toList
      (by intro x hx; obtain ⟨i, _, rfl⟩ := List.mem_map.1 hx; simp [wrapDone])
    simpa using this
  · exact fun i hi => wf_not_mem i ')' (hwf i hi) (Or.inr (Or.inr (Or.inr (Or.inl rfl))))

/-- LSF done() conjunctions, kernel-checked instances (one, two and three prerequisites) -/
example : readDeps .lsf (renderDeps .lsf ["101".toList]) = some ["101".toList] := by decide
example : readDeps .lsf (renderDeps .lsf ["101".toList, "7".toList]) = some ["101".toList, "7".toList] := by decide
example : readDeps .lsf (renderDeps .lsf ["1".toList, "22".toList, "333".toList]) = some ["1".toList, "22".toList, "333".toList] := by decide

theorem strip_digits_nl (ds : List Char) (hne : ds ≠ []) (hd : ∀ c ∈ ds, isWsChar c = false) :
    strip (ds ++ ['\n']) = ds := by
  have h1 : ∀ (l : List Char), (∀ c ∈ l, isWsChar c = false) → l ≠ [] → l.dropWhile isWsChar = l := by
    intro l hl hn
    cases l with
    | nil => exact absurd rfl hn
    | cons c cs => simp [List.dropWhile, hl c (by simp)]
  simp only [strip]
  cases ds with
  | nil => exact absurd rfl hne
  | cons c cs =>
    have hc := hd c (by simp)
    have : ((c :: cs) ++ ['\n']).dropWhile isWsChar = (c :: cs) ++ ['\n'] := by simp [List.dropWhile, hc]
    rw [this]
    have hrev : ((c :: cs) ++ ['\n']).reverse = '\n' :: (c :: cs).reverse := by simp
    rw [hrev]
    have : ('\n' :: (c :: cs).reverse).dropWhile isWsChar = (c :: cs).reverse := by
      have hws : isWsChar '\n' = true := by decide
      simp only [List.dropWhile, hws]
      apply h1
      · intro x hx; exact hd x (List.mem_reverse.1 hx)
      · simp
    rw [this]; simp

theorem digit_ne (c x : Char) (h : isDigit c = true) (hx : isDigit x = false) : c ≠ x := by
  intro e; subst e; rw [h] at hx; simp at hx

theorem digit_not_ws (c : Char) (h : isDigit c = true) : isWsChar c = false := by
  have e1 := digit_ne c ' ' h (by decide)
  have e2 := digit_ne c '\n' h (by decide)
  have e3 := digit_ne c '\t' h (by decide)
  have e4 := digit_ne c '\r' h (by decide)
  have e5 := digit_ne c '\x0b' h (by decide)
  have e6 := digit_ne c '\x0c' h (by decide)
  simp [isWsChar, e1, e2, e3, e4, e5, e6]

/-- **the id gwf stores is the id the scheduler printed** (Slurm `--parsable`, SGE `-terse`:
    digits and a newline) — without the newline, and well-formed -/
theorem parseId_slurm_sge (ds : List Char) (hne : ds ≠ []) (hd : ∀ c ∈ ds, isDigit c = true) :
    parseId .slurm (ds ++ ['\n']) = some ds ∧ parseId .sge (ds ++ ['\n']) = some ds ∧ wellFormedId ds = true := by
  have hws : ∀ c ∈ ds, isWsChar c = false := fun c hc => digit_not_ws c (hd c hc)
  refine ⟨by simp [parseId, strip_digits_nl ds hne hws], by simp [parseId, strip_digits_nl ds hne hws], ?_⟩
  simp only [wellFormedId, Bool.and_eq_true, Bool.not_eq_true', List.isEmpty_eq_false_iff, List.all_eq_true]
  refine ⟨hne, fun c hc => ?_⟩
  have h := hd c hc
  have e1 := digit_ne c ':' h (by decide)
  have e2 := digit_ne c ',' h (by decide)
  have e3 := digit_ne c '(' h (by decide)
  have e4 := digit_ne c ')' h (by decide)
  have e5 := digit_ne c '&' h (by decide)
  simp [e1, e2, e3, e4, e5, hws c hc]

theorem strip_line (c d : Char) (mid : List Char) (hc : isWsChar c = false) (hd : isWsChar d = false) :
    strip (c :: mid ++ [d] ++ ['\n']) = c :: mid ++ [d] := by
  simp only [strip]
  have h1 : (c :: mid ++ [d] ++ ['\n']).dropWhile isWsChar = c :: mid ++ [d] ++ ['\n'] := by
    simp [List.dropWhile, hc]
  rw [h1]
  have h2 : (c :: mid ++ [d] ++ ['\n']).reverse = '\n' :: d :: (c :: mid).reverse := by simp
  rw [h2]
  have hws : isWsChar '\n' = true := by decide
  simp [List.dropWhile, hws, hd]

/-- **LSF: the id gwf stores is the number in `Job <n> is submitted …`** whatever follows it -/
theorem parseId_lsf (ds tail : List Char) (d : Char) (hne : ds ≠ []) (hd : ∀ c ∈ ds, isDigit c = true)
    (hlast : isWsChar d = false) :
    parseId .lsf ("Job <".toList ++ ds ++ '>' :: tail ++ [d] ++ ['\n']) = some ds := by
  have hJ : isWsChar 'J' = false := by decide
  have e : "Job <".toList ++ ds ++ '>' :: tail ++ [d] ++ ['\n']
      = 'J' :: ("ob <".toList ++ ds ++ '>' :: tail) ++ [d] ++ ['\n'] := by simp
  rw [parseId, e, strip_line 'J' d _ hJ hlast]
  have e2 : 'J' :: ("ob <".toList ++ ds ++ '>' :: tail) ++ [d]
      = 'J' :: 'o' :: 'b' :: ' ' :: '<' :: (ds ++ '>' :: (tail ++ [d])) := by simp
  rw [e2]
  have h := takeWhile_stop isDigit '>' (tail ++ [d]) (by decide) ds hd
  simp only [lsfId, h.1, h.2]
  cases ds with
  | nil => exact absurd rfl hne
  | cons a b => simp

example : parseId .lsf "Job <4711> is submitted to default queue <normal>.\n".toList = some "4711".toList := by decide
example : parseId .slurm "123\n".toList = some "123".toList := by decide
example : parseId .sge "123\n".toList = some "123".toList := by decide

/-! ### the recorded id is the one later named as prerequisite -/

/-- a target reported pending/running/failed/cancelled/completed by the backend is tracked: gwf
    knows the job id it will name as prerequisite -/
theorem in_flight_is_tracked (w : World) (name : String) (h : w.bstat name ≠ .unknown) :
    ∃ jid, alook name w.tracked = some jid := by
  simp only [World.bstat] at h
  cases ht : alook name w.tracked with
  | none => simp [ht] at h
  | some jid => exact ⟨jid, rfl⟩

/-- after an accepted submission the target is tracked under the id just returned, so a dependent
    submitted later in the same run (or in a later invocation) names exactly that id -/
theorem submitted_is_tracked (w : World) (wf : List WT) (t : Nat) (deps : List Nat) :
    alook (nameOf wf t) (w.submit wf t deps).tracked = some (toString w.nextId) :=
  (C05.submit_effect w wf t deps).2.2.1

/-- the prerequisite ids handed to the scheduler are exactly the tracked ids of the named dependencies -/
theorem prereq_ids_exact (w : World) (wf : List WT) (t : Nat) (deps : List Nat)
    (hall : ∀ d ∈ deps, ∃ jid, alook (nameOf wf d) w.tracked = some jid) :
    ∃ j ∈ (w.submit wf t deps).jobs, j.id = toString w.nextId ∧
      j.deps.length = deps.length ∧ ∀ jid ∈ j.deps, ∃ d ∈ deps, alook (nameOf wf d) w.tracked = some jid := by
  refine ⟨⟨toString w.nextId, .pending, deps.filterMap (fun d => alook (nameOf wf d) w.tracked), nameOf wf t⟩,
    by simp [World.submit], rfl, ?_, ?_⟩
  · simp only
    induction deps with
    | nil => rfl
    | cons d rest ih =>
      obtain ⟨jid, hj⟩ := hall d (by simp)
      simp only [List.filterMap_cons, hj, List.length_cons]
      rw [ih (fun d' hd' => hall d' (by simp [hd']))]
  · intro jid hj
    simp only [List.mem_filterMap] at hj
    obtain ⟨d, hd, hl⟩ := hj
    exact ⟨d, hd, hl⟩

/-! ### what any scheduler obeying the documented dependency semantics can do -/

inductive CReach (k : DepKind) : Cluster → Prop
  | init : CReach k { kind := k }
  | step {c c' : Cluster} {l : CLabel} : CReach k c → clStep c l = some c' → CReach k c'

def finalSt (s : JobSt) : Bool := s == .completed || s == .failed || s == .cancelled

structure CInv (c : Cluster) : Prop where
  started_deps : ∀ (j : Nat) (job : CJob), c.jobs[j]? = some job → job.started = true → ∀ d ∈ job.deps, c.depSatisfied d = true
  deps_known : ∀ (j : Nat) (job : CJob), c.jobs[j]? = some job → ∀ d ∈ job.deps, d < c.jobs.length
  pending_not_started : ∀ (j : Nat) (job : CJob), c.jobs[j]? = some job → job.st = .pending → job.started = false

theorem upd_get_same (c : Cluster) (j : Nat) (f : CJob → CJob) (job : CJob) (h : c.jobs[j]? = some job) :
    (c.upd j f).jobs[j]? = some (f job) := by
  have hlt : j < c.jobs.length := by
    rcases Nat.lt_or_ge j c.jobs.length with hl | hl
    · exact hl
    · rw [List.getElem?_eq_none hl] at h; simp at h
  have hjob : c.jobs[j] = job := by
    have := List.getElem?_eq_getElem hlt
    rw [this] at h; exact Option.some.inj h
  simp [Cluster.upd, h, List.getElem?_set, hlt, hjob]

theorem upd_get_other (c : Cluster) (j k : Nat) (f : CJob → CJob) (hne : k ≠ j) :
    (c.upd j f).jobs[k]? = c.jobs[k]? := by
  simp only [Cluster.upd]
  cases c.jobs[j]? with
  | none => rfl
  | some job => simp [List.getElem?_set_ne (Ne.symm hne)]

theorem upd_kind (c : Cluster) (j : Nat) (f : CJob → CJob) : (c.upd j f).kind = c.kind ∧ (c.upd j f).jobs.length = c.jobs.length := by
  simp only [Cluster.upd]
  cases c.jobs[j]? <;> simp

/-- a satisfied prerequisite stays satisfied when some job changes state, provided final states are
    never left -/
theorem depSatisfied_upd (c : Cluster) (j : Nat) (f : CJob → CJob) (job : CJob) (hj : c.jobs[j]? = some job)
    (hf : finalSt job.st = true → (f job).st = job.st) (d : Nat) (h : c.depSatisfied d = true) :
    (c.upd j f).depSatisfied d = true := by
  simp only [Cluster.depSatisfied, Cluster.st?, (upd_kind c j f).1] at h ⊢
  by_cases hd : d = j
  · subst hd
    rw [upd_get_same c d f job hj]
    rw [hj] at h
    simp only [Option.map_some] at h ⊢
    have : finalSt job.st = true := by
      cases hs : job.st <;> simp_all [finalSt]
    rw [hf this]; exact h
  · rw [upd_get_other c j d f hd]; exact h

theorem clStep_inv (c c' : Cluster) (l : CLabel) (hi : CInv c) (hs : clStep c l = some c') : CInv c' ∧ c'.kind = c.kind := by
  cases l with
  | submit deps =>
    simp only [clStep] at hs
    split at hs
    · rename_i hg
      simp only [Option.some.injEq] at hs; subst hs
      simp only [List.all_eq_true, decide_eq_true_eq] at hg
      refine ⟨⟨?_, ?_, ?_⟩, rfl⟩
      · intro j job hj hst d hd
        by_cases hlt : j < c.jobs.length
        · rw [List.getElem?_append_left hlt] at hj
          have := hi.started_deps j job hj hst d hd
          have hdl := hi.deps_known j job hj d hd
          simp only [Cluster.depSatisfied, Cluster.st?] at this ⊢
          rw [List.getElem?_append_left hdl]; exact this
        · rw [List.getElem?_append_right (Nat.le_of_not_lt hlt)] at hj
          cases hk : j - c.jobs.length with
          | zero => simp [hk] at hj; subst hj; simp at hst
          | succ k => simp [hk] at hj
      · intro j job hj d hd
        simp only [List.length_append, List.length_cons, List.length_nil]
        by_cases hlt : j < c.jobs.length
        · rw [List.getElem?_append_left hlt] at hj
          have := hi.deps_known j job hj d hd; omega
        · rw [List.getElem?_append_right (Nat.le_of_not_lt hlt)] at hj
          cases hk : j - c.jobs.length with
          | zero => simp [hk] at hj; subst hj; have := hg d hd; omega
          | succ k => simp [hk] at hj
      · intro j job hj hp
        by_cases hlt : j < c.jobs.length
        · rw [List.getElem?_append_left hlt] at hj; exact hi.pending_not_started j job hj hp
        · rw [List.getElem?_append_right (Nat.le_of_not_lt hlt)] at hj
          cases hk : j - c.jobs.length with
          | zero => simp [hk] at hj; subst hj; rfl
          | succ k => simp [hk] at hj
    · simp at hs
  | start j =>
    simp only [clStep] at hs
    cases hj : c.jobs[j]? with
    | none => simp [hj] at hs
    | some job =>
      simp only [hj] at hs
      split at hs
      · rename_i hg
        simp only [Bool.and_eq_true, beq_iff_eq, List.all_eq_true] at hg
        simp only [Option.some.injEq] at hs; subst hs
        have hstab : ∀ d, c.depSatisfied d = true → (c.upd j fun x => { x with st := .running, started := true }).depSatisfied d = true :=
          depSatisfied_upd c j _ job hj (by intro hf; simp [finalSt, hg.1] at hf)
        refine ⟨⟨?_, ?_, ?_⟩, (upd_kind c j _).1⟩
        · intro k jb hk hst d hd
          by_cases hkj : k = j
          · subst hkj
            rw [upd_get_same c k _ job hj] at hk
            simp only [Option.some.injEq] at hk; subst hk
            exact hstab d (hg.2 d hd)
          · rw [upd_get_other c j k _ hkj] at hk
            exact hstab d (hi.started_deps k jb hk hst d hd)
        · intro k jb hk d hd
          rw [(upd_kind c j _).2]
          by_cases hkj : k = j
          · subst hkj
            rw [upd_get_same c k _ job hj] at hk
            simp only [Option.some.injEq] at hk; subst hk
            exact hi.deps_known k job hj d hd
          · rw [upd_get_other c j k _ hkj] at hk
            exact hi.deps_known k jb hk d hd
        · intro k jb hk hp
          by_cases hkj : k = j
          · subst hkj
            rw [upd_get_same c k _ job hj] at hk
            simp only [Option.some.injEq] at hk; subst hk
            simp at hp
          · rw [upd_get_other c j k _ hkj] at hk
            exact hi.pending_not_started k jb hk hp
      · simp at hs
  | finish j ok =>
    simp only [clStep] at hs
    cases hj : c.jobs[j]? with
    | none => simp [hj] at hs
    | some job =>
      simp only [hj] at hs
      split at hs
      · rename_i hg
        simp only [beq_iff_eq] at hg
        simp only [Option.some.injEq] at hs; subst hs
        have hstab : ∀ d, c.depSatisfied d = true → (c.upd j fun x => { x with st := if ok then .completed else .failed }).depSatisfied d = true :=
          depSatisfied_upd c j _ job hj (by intro hf; simp [finalSt, hg] at hf)
        refine ⟨⟨?_, ?_, ?_⟩, (upd_kind c j _).1⟩
        · intro k jb hk hst d hd
          by_cases hkj : k = j
          · subst hkj
            rw [upd_get_same c k _ job hj] at hk
            simp only [Option.some.injEq] at hk; subst hk
            exact hstab d (hi.started_deps k job hj hst d hd)
          · rw [upd_get_other c j k _ hkj] at hk
            exact hstab d (hi.started_deps k jb hk hst d hd)
        · intro k jb hk d hd
          rw [(upd_kind c j _).2]
          by_cases hkj : k = j
          · subst hkj
            rw [upd_get_same c k _ job hj] at hk
            simp only [Option.some.injEq] at hk; subst hk
            exact hi.deps_known k job hj d hd
          · rw [upd_get_other c j k _ hkj] at hk
            exact hi.deps_known k jb hk d hd
        · intro k jb hk hp
          by_cases hkj : k = j
          · subst hkj
            rw [upd_get_same c k _ job hj] at hk
            simp only [Option.some.injEq] at hk; subst hk
            cases ok <;> simp at hp
          · rw [upd_get_other c j k _ hkj] at hk
            exact hi.pending_not_started k jb hk hp
      · simp at hs
  | cancel j =>
    simp only [clStep] at hs
    cases hj : c.jobs[j]? with
    | none => simp [hj] at hs; subst hs; exact ⟨hi, rfl⟩
    | some job =>
      simp only [hj] at hs
      split at hs
      · rename_i hg
        simp only [Bool.or_eq_true, beq_iff_eq] at hg
        simp only [Option.some.injEq] at hs; subst hs
        have hstab : ∀ d, c.depSatisfied d = true → (c.upd j fun x => { x with st := .cancelled }).depSatisfied d = true :=
          depSatisfied_upd c j _ job hj (by intro hf; rcases hg with h | h <;> simp [finalSt, h] at hf)
        refine ⟨⟨?_, ?_, ?_⟩, (upd_kind c j _).1⟩
        · intro k jb hk hst d hd
          by_cases hkj : k = j
          · subst hkj
            rw [upd_get_same c k _ job hj] at hk
            simp only [Option.some.injEq] at hk; subst hk
            exact hstab d (hi.started_deps k job hj hst d hd)
          · rw [upd_get_other c j k _ hkj] at hk
            exact hstab d (hi.started_deps k jb hk hst d hd)
        · intro k jb hk d hd
          rw [(upd_kind c j _).2]
          by_cases hkj : k = j
          · subst hkj
            rw [upd_get_same c k _ job hj] at hk
            simp only [Option.some.injEq] at hk; subst hk
            exact hi.deps_known k job hj d hd
          · rw [upd_get_other c j k _ hkj] at hk
            exact hi.deps_known k jb hk d hd
        · intro k jb hk hp
          by_cases hkj : k = j
          · subst hkj
            rw [upd_get_same c k _ job hj] at hk
            simp only [Option.some.injEq] at hk; subst hk
            simp at hp
          · rw [upd_get_other c j k _ hkj] at hk
            exact hi.pending_not_started k jb hk hp
      · simp only [Option.some.injEq] at hs; subst hs; exact ⟨hi, rfl⟩

theorem creach_inv {k : DepKind} {c : Cluster} (h : CReach k c) : CInv c ∧ c.kind = k := by
  induction h with
  | init => exact ⟨⟨by intro j job hj; simp at hj, by intro j job hj; simp at hj, by intro j job hj; simp at hj⟩, rfl⟩
  | step _ hs ih =>
    have := clStep_inv _ _ _ ih.1 hs
    exact ⟨this.1, by rw [this.2, ih.2]⟩

/-- **under any legal behaviour of a scheduler with afterok / done() semantics (Slurm, LSF, local pool)
    a job that was ever started has only prerequisites that COMPLETED — so it never starts before they
    finished, and never at all if one of them failed or was cancelled** -/
theorem no_early_start_afterok (c : Cluster) (h : CReach .afterok c) (j : Nat) (job : CJob)
    (hj : c.jobs[j]? = some job) (hst : job.started = true) (d : Nat) (hd : d ∈ job.deps) :
    c.st? d = some .completed := by
  obtain ⟨hi, hk⟩ := creach_inv h
  have hsat := hi.started_deps j job hj hst d hd
  have hlt := hi.deps_known j job hj d hd
  simp only [Cluster.depSatisfied, hk] at hsat
  cases hs : c.st? d with
  | none =>
    simp only [Cluster.st?] at hs
    rw [List.getElem?_eq_getElem hlt] at hs; simp at hs
  | some s => rw [hs] at hsat; cases s <;> simp_all

/-- **with hold semantics (SGE -hold_jid) a started job's prerequisites have all left the queue** -/
theorem no_early_start_hold (c : Cluster) (h : CReach .hold c) (j : Nat) (job : CJob)
    (hj : c.jobs[j]? = some job) (hst : job.started = true) (d : Nat) (hd : d ∈ job.deps) :
    ∃ s, c.st? d = some s ∧ finalSt s = true := by
  obtain ⟨hi, hk⟩ := creach_inv h
  have hsat := hi.started_deps j job hj hst d hd
  have hlt := hi.deps_known j job hj d hd
  simp only [Cluster.depSatisfied, hk] at hsat
  cases hs : c.st? d with
  | none =>
    simp only [Cluster.st?] at hs
    rw [List.getElem?_eq_getElem hlt] at hs; simp at hs
  | some s => rw [hs] at hsat; exact ⟨s, rfl, by cases s <;> simp_all [finalSt]⟩

end Gwf.C07
