/-
  C08 — A target's reported state is the scheduler's state of its own latest job.
-/
import GwfModel.States
namespace Gwf.C08
open Gwf Gwf.St

/-- **every documented Slurm queue code is shown in the category the property names** (the table is
    regenerated from SLURM_SHORT_STATES on every run) -/
theorem slurm_short_classified : ∀ p ∈ slurmDocumented, accepts p.2 (slurmShort p.1) = true := by decide

/-- **every documented sacct state name likewise** (through SLURM_LONG_STATES, then the short table) -/
theorem slurm_long_classified : ∀ p ∈ slurmLongDocumented, ∃ b, slurmLong p.1 = some b ∧ accepts p.2 b = true := by decide

/-- sacct's decorated form "CANCELLED by 1234" is read as CANCELLED -/
theorem cancelled_by_uid : slurmLong "CANCELLED by 1234" = some .cancelled := by decide

theorem lsf_classified : ∀ p ∈ lsfDocumented, ∃ b, lsfState p.1 = some b ∧ accepts p.2 b = true := by decide

theorem sge_classified : ∀ p ∈ sgeDocumented, accepts p.2 (sgeState p.1) = true := by decide

theorem local_classified : ∀ p ∈ localDocumented, ∃ b, localState p.1 = some b ∧ accepts p.2 b = true := by decide

/-- **the live queue takes precedence over the accounting database** -/
theorem squeue_wins (c : String) (acct : Option String) (accounting : Bool) :
    slurmJob (some c) acct accounting = some (slurmShort c) := rfl

/-- **with accounting disabled the database plays no role**: whatever it contains, the result is
    the same (in the code the sacct query is not even issued; see the correspondence) -/
theorem accounting_off_ignores_db (q : Option String) (a a' : Option String) :
    slurmJob q a false = slurmJob q a' false := by
  cases q <;> rfl

/-- a job neither in the queue nor in the database is unknown -/
theorem no_record_unknown (accounting : Bool) : slurmJob none none accounting = some .unknown := by
  cases accounting <;> rfl

/-- **success or no record falls back to the file-based decision**: COMPLETED and UNKNOWN are
    treated alike by the scheduling pass -/
theorem success_or_no_record_file_based (sub : List Nat) (stale : Bool) :
    decideT .completed sub stale = decideT .unknown sub stale := rfl

/-- queued → submitted, executing → running, failure → failed, cancellation → cancelled, shown as such
    whatever the files look like -/
theorem shown_is_backend_state (stale : Bool) :
    shown .submitted stale = .submitted ∧ shown .running stale = .running ∧
    shown .failed stale = .failed ∧ shown .cancelled stale = .cancelled := by
  simp [shown, decideT]

/-- **the state derives from the tracked job and from no other job**: two clusters that agree on the
    job with the tracked id give the same state, whatever other jobs (of this or other users) exist -/
theorem own_job_only (w w' : World) (name : String) (ht : w.tracked = w'.tracked) (hb : w.backend = w'.backend)
    (hj : ∀ jid, alook name w.tracked = some jid → w.job? jid = w'.job? jid) :
    w.bstat name = w'.bstat name := by
  simp only [World.bstat, ← ht, ← hb]
  cases h : alook name w.tracked with
  | none => rfl
  | some jid => simp only []; rw [hj jid h]

/-- an untracked target, or one whose id the scheduler no longer knows, is UNKNOWN -/
theorem untracked_unknown (w : World) (name : String) (h : alook name w.tracked = none) : w.bstat name = .unknown := by
  simp [World.bstat, h]

theorem batches_flatten {α} (n : Nat) (hn : 0 < n) : ∀ (fuel : Nat) (l : List α), l.length ≤ fuel →
    (batches n fuel l).flatten = l
  | 0, l, h => by
    have : l = [] := by cases l <;> simp_all
    subst this; simp [batches]
  | fuel+1, [], _ => by simp [batches]
  | fuel+1, x :: xs, h => by
    simp only [batches, List.flatten_cons]
    rw [batches_flatten n hn fuel ((x :: xs).drop n) (by simp only [List.length_drop, List.length_cons] at h ⊢; omega)]
    exact List.take_append_drop n (x :: xs)

/-- **asking the accounting database in batches loses nothing**: the batches partition the tracked
    ids, in order, each of at most `n` ids — for any number of tracked jobs -/
theorem batched_eq_unbatched {α} (n : Nat) (hn : 0 < n) (ids : List α) :
    (batches n ids.length ids).flatten = ids ∧ ∀ b ∈ batches n ids.length ids, b.length ≤ n := by
  refine ⟨batches_flatten n hn ids.length ids (Nat.le_refl _), ?_⟩
  have : ∀ (fuel : Nat) (l : List α), ∀ b ∈ batches n fuel l, b.length ≤ n := by
    intro fuel
    induction fuel with
    | zero => intro l b hb; simp [batches] at hb
    | succ fuel ih =>
      intro l b hb
      cases l with
      | nil => simp [batches] at hb
      | cons x xs =>
        simp only [batches, List.mem_cons] at hb
        rcases hb with rfl | hb
        · simp only [List.length_take]; omega
        · exact ih _ b hb
  exact this _ _

/-- the batch size in the source is positive -/
theorem sacctBatchSize_pos : 0 < Generated.sacctBatchSize := by decide

end Gwf.C08
