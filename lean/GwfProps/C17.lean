/-
  C17 — cancel hits exactly the selected targets' jobs; one failure stops nothing else.
-/
import GwfProps.Lemmas.WorldLemmas
import GwfProps.Lemmas.SchedLemmas
namespace Gwf.C17
open Gwf

/-- the targets `gwf cancel [patterns]` works on -/
def selected (wf : List WT) (patterns : List String) : List WT :=
  if patterns.isEmpty then wf else wf.filter (fun t => patterns.any (fun p => Glob.globMatch p t.name))

/-- **exactly one cancel request per selected target, aimed at that target's most recent (tracked)
    job, and none for any other target** -/
theorem cancel_exact (w : World) (wf : List WT) (patterns : List String) (g : Graph String)
    (hg : (w.proj wf none).graph = .ok g) :
    w.cancelCmds wf patterns = .ok ((selected wf patterns).map (fun t => (t.name, alook t.name w.tracked))) := by
  simp only [World.cancelCmds, hg, selected]

/-- a target that was never submitted has no tracked job: it yields no scheduler command
    (it is reported, `none`), and does not stop the remaining ones: the list is a `map` over all
    selected targets, whatever happens to any single request -/
theorem untracked_yields_no_command (w : World) (t : WT) (h : alook t.name w.tracked = none) :
    (fun t : WT => (t.name, alook t.name w.tracked)) t = (t.name, none) := by
  simp [h]

theorem cancelJob_other (w : World) (jid : String) (j : Job) (hj : j ∈ w.jobs) (hne : j.id ≠ jid) :
    j ∈ (w.cancelJob jid).jobs := by
  simp only [World.cancelJob, List.mem_map]
  refine ⟨j, hj, ?_⟩
  have : (j.id == jid) = false := by simpa using hne
  simp [this]

/-- carrying out a cancel leaves no job with that id pending or running -/
theorem cancelJob_not_in_flight (w : World) (jid : String) (j : Job) (hj : j ∈ (w.cancelJob jid).jobs)
    (hid : j.id = jid) : j.st ≠ .pending ∧ j.st ≠ .running := by
  simp only [World.cancelJob, List.mem_map] at hj
  obtain ⟨j0, _, rfl⟩ := hj
  by_cases hc : (j0.id == jid && (j0.st == .pending || j0.st == .running)) = true
  · simp [hc]
  · simp only [hc, Bool.false_eq_true, if_false] at hid ⊢
    simp only [Bool.and_eq_true, Bool.or_eq_true, beq_iff_eq, not_and, not_or] at hc
    have := hc hid
    exact this

/-- **once the scheduler has carried out the cancellation, the target is not reported submitted or
    running** -/
theorem after_cancel_not_in_flight (w : World) (name jid : String) (ht : alook name w.tracked = some jid) :
    (w.cancelJob jid).bstat name ≠ .submitted ∧ (w.cancelJob jid).bstat name ≠ .running := by
  simp only [World.bstat, World.cancelJob, ht, World.job?]
  cases hf : (w.jobs.map (fun j => if j.id == jid && (j.st == .pending || j.st == .running) then { j with st := JobSt.cancelled } else j)).find? (fun j => j.id == jid) with
  | none => simp
  | some j =>
    have hmem := List.mem_of_find?_eq_some hf
    have hid : j.id = jid := by simpa using List.find?_some hf
    have := cancelJob_not_in_flight w jid j (by simpa [World.cancelJob] using hmem) hid
    simp only
    cases hs : j.st <;> cases hb : w.backend <;> simp_all [JobSt.toBOn]

/-- …and the next run is free to submit it again: a target whose job is cancelled (or failed) is
    submitted by the scheduling pass whatever its files look like -/
theorem cancelled_is_resubmitted (sub : List Nat) (stale : Bool) :
    (decideT .cancelled sub stale).2 = true ∧ (decideT .failed sub stale).2 = true := by
  simp [decideT]

/-- cancel changes nothing but job states: files, tracked ids, hashes are untouched -/
theorem cancel_frame (w : World) (jid : String) :
    (w.cancelJob jid).files = w.files ∧ (w.cancelJob jid).tracked = w.tracked ∧ (w.cancelJob jid).hashes = w.hashes := by
  simp [World.cancelJob]

end Gwf.C17
