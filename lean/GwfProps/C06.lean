/-
  C06 — Convergence: a successful run leaves everything complete; re-run is a no-op;
  after a perturbation exactly the affected targets and their transitive dependents re-run.
-/
import GwfProps.C02
import GwfProps.C16
import GwfProps.Lemmas.DrainLemmas
namespace Gwf.C06
open Gwf

/-- when no target has a live, failed or cancelled job, a target is submitted iff it is stale itself
    or one of its direct dependencies is submitted: the submitted set is exactly the closure of the
    stale targets under "depends on" -/
theorem submits_is_stale_closure (w : Wf) (σ : Nat → Status) (hσ : IsStatusMap w σ)
    (hb : ∀ t, w.bstat t = .unknown ∨ w.bstat t = .completed) (t : Nat) :
    submits w σ t = true ↔ w.stale t = true ∨ ∃ d ∈ w.deps t, submits w σ d = true := by
  have hst : ∀ d, σ d ≠ .completed ↔ submits w σ d = true := by
    intro d
    rw [C02.status_iff_submits w σ hσ d]
    have := hσ d
    rcases hb d with h | h <;> rw [h] at this <;> simp only [decideT] at this <;>
      (by_cases he : (subOf w σ d).isEmpty = true <;> cases hs : w.stale d <;> simp_all)
  rw [C02.submits_iff]
  constructor
  · rintro (h | ⟨_, _, h | ⟨d, hd, hne⟩⟩)
    · rcases hb t with h' | h' <;> rcases h with h | h <;> simp_all
    · exact Or.inl h
    · exact Or.inr ⟨d, hd, (hst d).1 hne⟩
  · rintro (h | ⟨d, hd, hs⟩)
    · right
      refine ⟨?_, ?_, Or.inl h⟩ <;> rcases hb t with h' | h' <;> simp [h']
    · right
      refine ⟨?_, ?_, Or.inr ⟨d, hd, (hst d).2 hs⟩⟩ <;> rcases hb t with h' | h' <;> simp [h']

/-- **convergence**: after a run from a state without pending/running jobs in which every submitted
    job completed, if the files of every target that declares outputs are up to date (`hfiles`, which
    holds because each job stamps its outputs after all its prerequisites: TouchLemmas.stampSeq_uptodate),
    then every target that declares outputs is reported completed, and the next run submits exactly
    the targets that declare no outputs -/
theorem converges (w' : Wf) (σ' : Nat → Status) (hσ' : IsStatusMap w' σ') (rank : Nat → Nat)
    (hr : ∀ t d, d ∈ w'.deps t → rank d < rank t) (hasOut : Nat → Bool)
    (hb : ∀ t, w'.bstat t = .unknown ∨ w'.bstat t = .completed)
    (hdepOut : ∀ t, ∀ d ∈ w'.deps t, hasOut d = true)
    (hfiles : ∀ t, hasOut t = true → w'.stale t = false)
    (hnoOut : ∀ t, hasOut t = false → w'.stale t = true) :
    ∀ t, (hasOut t = true → σ' t = .completed ∧ submits w' σ' t = false) ∧
         (hasOut t = false → submits w' σ' t = true) := by
  suffices h : ∀ n t, rank t < n → (hasOut t = true → submits w' σ' t = false) by
    intro t
    have hsub : hasOut t = true → submits w' σ' t = false := h (rank t + 1) t (by omega)
    refine ⟨fun ho => ⟨?_, hsub ho⟩, fun ho => ?_⟩
    · have : ¬ (σ' t = .shouldrun ∨ σ' t = .failed ∨ σ' t = .cancelled) :=
        mt (C02.status_iff_submits w' σ' hσ' t).2 (by simp [hsub ho])
      have hs := hσ' t
      rcases hb t with h' | h' <;> rw [h'] at hs <;> simp only [decideT] at hs <;>
        (by_cases he : (subOf w' σ' t).isEmpty = true <;> cases hst : w'.stale t <;> simp_all)
    · exact (submits_is_stale_closure w' σ' hσ' hb t).2 (Or.inl (hnoOut t ho))
  intro n
  induction n with
  | zero => intro t h; omega
  | succ n ih =>
    intro t ht ho
    cases hs : submits w' σ' t with
    | false => rfl
    | true =>
      rcases (submits_is_stale_closure w' σ' hσ' hb t).1 hs with h | ⟨d, hd, hsd⟩
      · rw [hfiles t ho] at h; simp at h
      · have := ih d (by have := hr t d hd; omega) (hdepOut t d hd)
        rw [this] at hsd; simp at hsd

/-- **exact re-run after a perturbation**: from a state with no live/failed/cancelled jobs the next
    run submits a target iff it is (transitively, along dependencies) downstream of a stale target -/
theorem rerun_exact (w : Wf) (σ : Nat → Status) (hσ : IsStatusMap w σ) (rank : Nat → Nat)
    (hr : ∀ t d, d ∈ w.deps t → rank d < rank t)
    (hb : ∀ t, w.bstat t = .unknown ∨ w.bstat t = .completed) (t : Nat) :
    submits w σ t = true ↔ ∃ s, Reach w t s ∧ w.stale s = true := by
  constructor
  · suffices h : ∀ n t, rank t < n → submits w σ t = true → ∃ s, Reach w t s ∧ w.stale s = true from
      h (rank t + 1) t (by omega)
    intro n
    induction n with
    | zero => intro t h; omega
    | succ n ih =>
      intro t ht hs
      rcases (submits_is_stale_closure w σ hσ hb t).1 hs with h | ⟨d, hd, hsd⟩
      · exact ⟨t, Reach.refl t, h⟩
      · obtain ⟨s, hreach, hst⟩ := ih d (by have := hr t d hd; omega) hsd
        exact ⟨s, Reach.trans (Reach.step (Reach.refl t) hd) hreach, hst⟩
  · rintro ⟨s, hreach, hst⟩
    have hup : ∀ x, Reach w t x → submits w σ x = true → submits w σ t = true := by
      intro x hx
      induction hx with
      | refl => exact fun h => h
      | step _ hd ih => exact fun h => ih ((submits_is_stale_closure w σ hσ hb _).2 (Or.inr ⟨_, hd, h⟩))
    exact hup s hreach ((submits_is_stale_closure w σ hσ hb s).2 (Or.inl hst))

/-- **the drained files are up to date** (this discharges `hfiles` of `converges`): let the cluster
    finish the jobs of the targets in `order` successfully, one after the other, in ANY order in which
    every input of a target is an output of a target finished EARLIER or an existing file that none of
    them produces and that is not dated after the start (the order every scheduler's prerequisite
    semantics enforces: C07.no_early_start_afterok / _hold).  Then every drained target that declares outputs has
    all outputs present and no input newer than any output: the file-based decision says "not stale" -/
theorem drain_uptodate (w : World) (wf : List WT) (order : List Nat)
    (htracked : ∀ t ∈ order, TrackedJob w wf t)
    (hnodup : order.Nodup)
    (hdisj : ∀ a ∈ order, ∀ b ∈ order, a ≠ b → ∀ q, q ∈ C16.outsF w.dir wf a → q ∉ C16.outsF w.dir wf b)
    (hlegal : ∀ p r t, order = p ++ t :: r → ∀ i ∈ C16.insF w.dir wf t,
        producedBy (C16.outsF w.dir wf) p i ∨
        (¬ producedBy (C16.outsF w.dir wf) order i ∧ ∃ m, alook i w.files = some m ∧ m ≤ w.clock))
    (t : Nat) (ht : t ∈ order) (hout : C16.outsF w.dir wf t ≠ []) :
    let w' := order.foldl (fun w t => w.finishT wf t) w
    shouldRun (fun p => alook p w'.files) false (C16.insF w.dir wf t) (C16.outsF w.dir wf t) = some false := by
  intro w'
  have hfiles : w'.files = stampSeq (C16.outsF w.dir wf) order w.clock w.files := (drain_files_eq wf order w htracked).1
  obtain ⟨s, ho, hi⟩ := stampSeq_uptodate (C16.outsF w.dir wf) (C16.insF w.dir wf) w.clock w.files order hdisj hnodup
    [] order w.clock w.files (by simp) (Nat.le_refl _) (by rintro q ⟨u, hu, _⟩; simp at hu) (fun q _ => rfl) hlegal t ht
  have hin : ∀ i ∈ C16.insF w.dir wf t, ((fun p => alook p w'.files) i).isSome := by
    intro i hi'
    obtain ⟨m, hm, _⟩ := hi i hi'
    simp only [hfiles, hm, Option.isSome_some]
  rw [C01.shouldRun_false_iff _ false _ _ hin]
  refine ⟨rfl, hout, ?_, ?_⟩
  · intro o ho'
    simp only [hfiles, ho o ho', Option.isSome_some]
  · intro i hi' o ho' ti to hti hto
    obtain ⟨m, hm, hms⟩ := hi i hi'
    simp only [hfiles] at hti hto
    rw [hm] at hti; rw [ho o ho'] at hto
    simp only [Option.some.injEq] at hti hto
    omega

/-- **end to end**: on a workflow that validation accepts, with no file dated after "now": let the
    cluster finish successfully the tracked jobs of the targets in `order`, in any order in which a
    target finishes after those of its dependencies that are in `order` too (what afterok / -hold_jid /
    done() enforce: C07), the other dependencies' outputs being present (they were complete). Then
    EVERY drained target that declares outputs is up to date — so `hfiles` of `converges` holds and
    status reports it completed, the re-run submits nothing that has outputs. -/
theorem drain_completes (w : World) (wf : List WT) (g : Graph String)
    (hg : (w.proj wf none).graph = .ok g)
    (hid : ∀ a ∈ wf, ∀ b ∈ wf, a.id = b.id → a = b)
    (hnow : ∀ p m, alook p w.files = some m → m ≤ w.clock)
    (order : List Nat) (hnodup : order.Nodup)
    (htracked : ∀ t ∈ order, TrackedJob w wf t)
    (hlegal : ∀ p t r, order = p ++ t :: r → ∀ d ∈ g.depsOf t, d ∈ order → d ∈ p)
    (hdone : ∀ t ∈ order, ∀ d ∈ g.depsOf t, d ∉ order → ∀ q ∈ C16.outsF w.dir wf d, ∃ m, alook q w.files = some m)
    (a : WT) (ha : a ∈ wf) (ht : a.id ∈ order) (hout : a.outsAbs w.dir ≠ []) :
    let w' := order.foldl (fun w t => w.finishT wf t) w
    shouldRun (fun p => alook p w'.files) false (a.insAbs w.dir) (a.outsAbs w.dir) = some false := by
  intro w'
  obtain ⟨hdisj, hpost⟩ := stamp_hyps w wf g hg hid hnow order (by
    intro p t r hsplit d hd
    by_cases hdo : d ∈ order
    · exact Or.inl (hlegal p t r hsplit d hd hdo)
    · exact Or.inr ⟨hdo, hdone t (by rw [hsplit]; simp) d hd hdo⟩)
  have hout' : C16.outsF w.dir wf a.id ≠ [] := by rw [(outsF_of w.dir wf hid a ha).1]; exact hout
  have := drain_uptodate w wf order htracked hnodup hdisj hpost a.id ht hout'
  rw [(outsF_of w.dir wf hid a ha).1, (outsF_of w.dir wf hid a ha).2] at this
  exact this

/-- **what the next `gwf status` / `gwf run` computes**: after the drain, every drained target that
    declares outputs and whose spec was recorded at submission (C18.submit_records) is NOT stale in the
    workflow the scheduling pass works on — the premise `hfiles` of `converges`, now a theorem -/
theorem drain_not_stale (w : World) (wf : List WT) (g : Graph String)
    (hg : (w.proj wf none).graph = .ok g)
    (hid : ∀ a ∈ wf, ∀ b ∈ wf, a.id = b.id → a = b)
    (hnow : ∀ p m, alook p w.files = some m → m ≤ w.clock)
    (order : List Nat) (hnodup : order.Nodup)
    (htracked : ∀ t ∈ order, TrackedJob w wf t)
    (hlegal : ∀ p t r, order = p ++ t :: r → ∀ d ∈ g.depsOf t, d ∈ order → d ∈ p)
    (hdone : ∀ t ∈ order, ∀ d ∈ g.depsOf t, d ∉ order → ∀ q ∈ C16.outsF w.dir wf d, ∃ m, alook q w.files = some m)
    (a : WT) (ha : a ∈ wf) (ht : a.id ∈ order) (hout : a.outsAbs w.dir ≠ [])
    (hspec : w.specChanged a = false) (g' : Graph String) :
    let w' := order.foldl (fun w t => w.finishT wf t) w
    ((w'.proj wf none).wf g').stale a.id = false := by
  intro w'
  have hup := drain_completes w wf g hg hid hnow order hnodup htracked hlegal hdone a ha ht hout
  have hdir : w'.dir = w.dir := by
    have : ∀ (l : List Nat) (w0 : World), (∀ t ∈ l, TrackedJob w0 wf t) →
        (l.foldl (fun w t => w.finishT wf t) w0).dir = w0.dir := by
      intro l
      induction l with
      | nil => intro _ _; rfl
      | cons t rest ih =>
        intro w0 h
        simp only [List.foldl_cons]
        have ht0 := h t (by simp)
        rw [ih _ (fun u hu => trackedJob_preserved w0 wf t u ht0 (h u (by simp [hu]))), (finishT_fields w0 wf t ht0).1]
    exact this order w htracked
  have hspec' : w'.specChanged a = false := by
    have h1 : w'.hashes = w.hashes := (drain_hashes wf order w).1
    have h2 : w'.hashing = w.hashing := (drain_hashes wf order w).2
    simp only [World.specChanged, h1, h2]
    simpa [World.specChanged] using hspec
  apply not_stale_of_uptodate w' wf g' none hid a ha hspec'
  rw [hdir]
  exact hup

/-- draining changes no file that is not a declared output of a drained target and never the tracked
    map: a target that was not submitted (it was complete) keeps exactly the files it was judged on -/
theorem drain_frame (w : World) (wf : List WT) (order : List Nat)
    (htracked : ∀ t ∈ order, TrackedJob w wf t) (q : String)
    (hq : ¬ producedBy (C16.outsF w.dir wf) order q) :
    let w' := order.foldl (fun w t => w.finishT wf t) w
    alook q w'.files = alook q w.files ∧ w'.tracked = w.tracked := by
  intro w'
  obtain ⟨h1, h2⟩ := drain_files_eq wf order w htracked
  exact ⟨by rw [h1]; exact stampSeq_untouched _ _ _ _ _ hq, h2⟩

/-- non-vacuity: a two-target chain A → B, both submitted, drained in the legal order [A, B] -/
example :
    let wf : List WT := [⟨"A", 0, .leaf "src", .leaf "mid", .list [], "a"⟩, ⟨"B", 1, .leaf "mid", .leaf "out", .list [], "b"⟩]
    let w : World := { dir := "/p", files := [("/p/src", 3)], tracked := [("A", "10"), ("B", "11")], hashes := [],
                       jobs := [⟨"10", .pending, [], "A"⟩, ⟨"11", .pending, ["10"], "B"⟩], nextId := 12, clock := 5, hashing := false }
    let w' := [0, 1].foldl (fun w t => w.finishT wf t) w
    alook "/p/mid" w'.files = some 6 ∧ alook "/p/out" w'.files = some 7 ∧ alook "/p/src" w'.files = some 3 := by
  decide

end Gwf.C06
