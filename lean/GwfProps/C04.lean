/-
  C04 — Validation accepts exactly well-formed workflows and names the defect otherwise.
-/
import GwfProps.Lemmas.BuildLemmas
namespace Gwf.C04
open Gwf

variable {α : Type} [DecidableEq α]

def depsList (ts : List (Tgt α)) (prov : List (α × Nat)) : List (Nat × List Nat) :=
  ts.map (fun t => (t.id, (depsOf prov t).1))

def unresolvedList (ts : List (Tgt α)) (prov : List (α × Nat)) : List α :=
  (ts.map (fun t => (t.id, depsOf prov t))).foldl
    (fun acc p => p.2.2.foldl (fun a x => if x ∈ a then a else a ++ [x]) acc) []

/-- `from_targets` in its phases -/
theorem buildGraph_phases (ts : List (Tgt α)) (ex : α → Bool) :
    buildGraph ts ex =
      match buildProvides ts [] with
      | none => .error .multi
      | some prov =>
        if (unresolvedList ts prov).any (fun p => !ex p) then .error .unresolved
        else match checkCycles (depFn (depsList ts prov)) ((ts.map (·.id)).length + 1) (ts.map (·.id)) with
          | none => .error .cycle
          | some _ => .ok { ids := ts.map (·.id), provides := prov, deps := depsList ts prov,
                            unresolved := unresolvedList ts prov } := by
  unfold buildGraph depsList unresolvedList
  cases buildProvides ts [] with
  | none => rfl
  | some prov => simp only [List.map_map, Function.comp_def]; rfl

theorem mem_depFn_map (ts : List (Tgt α)) (f : Tgt α → List Nat) (x d : Nat)
    (h : d ∈ depFn (ts.map (fun t => (t.id, f t))) x) : ∃ b ∈ ts, b.id = x ∧ d ∈ f b := by
  induction ts with
  | nil => simp [depFn, alook] at h
  | cons t rest ih =>
    simp only [List.map_cons, depFn, alook] at h
    split at h
    · rename_i heq
      exact ⟨t, by simp, heq, by simpa using h⟩
    · obtain ⟨b, hb, h1, h2⟩ := ih h
      exact ⟨b, List.mem_cons_of_mem _ hb, h1, h2⟩

theorem mem_unresolvedList (ts : List (Tgt α)) (prov : List (α × Nat)) (q : α) :
    q ∈ unresolvedList ts prov ↔ ∃ t ∈ ts, q ∈ t.ins ∧ alook q prov = none := by
  simp only [unresolvedList, mem_unresolvedAll, List.not_mem_nil, false_or, List.mem_map]
  constructor
  · rintro ⟨e, ⟨t, ht, rfl⟩, hq⟩
    exact ⟨t, ht, (mem_unresolvedOf prov t q).1 hq⟩
  · rintro ⟨t, ht, hq⟩
    exact ⟨_, ⟨t, ht, rfl⟩, (mem_unresolvedOf prov t q).2 hq⟩

section
variable (ts : List (Tgt α)) (ex : α → Bool) (hid : ∀ t ∈ ts, ∀ u ∈ ts, t.id = u.id → t = u)
include hid

/-- the edge relation the cycle check runs on is the shared-path relation -/
theorem edge_iff (prov : List (α × Nat)) (hp : buildProvides ts [] = some prov) (x d : Nat) :
    d ∈ depFn (depsList ts prov) x ↔ ∃ B ∈ ts, B.id = x ∧ ∃ A ∈ ts, A.id = d ∧ ∃ p ∈ B.ins, p ∈ A.outs := by
  constructor
  · intro h
    obtain ⟨b, hb, hbx, hd⟩ := mem_depFn_map ts _ x d h
    obtain ⟨p, hpi, hl⟩ := (mem_depsOf prov b d).1 hd
    obtain ⟨A, hA, hAd, hpA⟩ := (provides_iff ts prov hp hid p d).1 hl
    exact ⟨b, hb, hbx, A, hA, hAd, p, hpi, hpA⟩
  · rintro ⟨B, hB, hBx, A, hA, hAd, p, hpi, hpA⟩
    subst hBx
    unfold depsList
    rw [depFn_map ts _ hid B hB, mem_depsOf]
    exact ⟨p, hpi, (provides_iff ts prov hp hid p d).2 ⟨A, hA, hAd, hpA⟩⟩

theorem sources_iff (prov : List (α × Nat)) (hp : buildProvides ts [] = some prov) :
    (unresolvedList ts prov).any (fun p => !ex p) = false ↔ SourcesExist ts ex := by
  simp only [List.any_eq_false, Bool.not_eq_true', Bool.not_eq_false', SourcesExist]
  constructor
  · intro h t ht p hpi hno
    have hnone : alook p prov = none := by
      cases hl : alook p prov with
      | none => rfl
      | some a =>
        obtain ⟨A, hA, _, hpA⟩ := (provides_iff ts prov hp hid p a).1 hl
        exact absurd hpA (hno A hA)
    have := h p ((mem_unresolvedList ts prov p).2 ⟨t, ht, hpi, hnone⟩)
    simpa using this
  · intro h q hq
    obtain ⟨t, ht, hqi, hnone⟩ := (mem_unresolvedList ts prov q).1 hq
    have := h t ht q hqi (by
      intro A hA hqA
      have := (provides_iff ts prov hp hid q A.id).2 ⟨A, hA, rfl, hqA⟩
      rw [hnone] at this; simp at this)
    simp [this]

theorem cycles_iff (prov : List (α × Nat)) (hp : buildProvides ts [] = some prov) :
    (checkCycles (depFn (depsList ts prov)) ((ts.map (·.id)).length + 1) (ts.map (·.id))).isSome ↔ AcyclicTs ts := by
  constructor
  · intro h
    cases hc : checkCycles (depFn (depsList ts prov)) ((ts.map (·.id)).length + 1) (ts.map (·.id)) with
    | none => rw [hc] at h; simp at h
    | some fin =>
      refine ⟨rk fin, ?_⟩
      intro B hB A hA hshare
      have hedge := (edge_iff ts hid prov hp B.id A.id).2 ⟨B, hB, rfl, A, hA, rfl, hshare⟩
      exact checkCycles_sound _ _ _ fin hc B.id (List.mem_map.2 ⟨B, hB, rfl⟩) A.id hedge
  · rintro ⟨rank, hr⟩
    apply checkCycles_complete_fuel (depFn (depsList ts prov)) rank (ts.map (·.id))
    · intro t d hd
      obtain ⟨B, hB, hBt, A, hA, hAd, hshare⟩ := (edge_iff ts hid prov hp t d).1 hd
      subst hBt; subst hAd
      exact hr B hB A hA hshare
    · intro t d hd
      obtain ⟨_, _, _, A, hA, hAd, _⟩ := (edge_iff ts hid prov hp t d).1 hd
      exact List.mem_map.2 ⟨A, hA, hAd⟩

/-- **Building the graph succeeds iff no file has two producers, every unproduced input exists,
    and the dependency relation has no cycle (self-loops included).** -/
theorem build_ok_iff :
    (∃ g, buildGraph ts ex = .ok g) ↔ NoDupProducer ts ∧ SourcesExist ts ex ∧ AcyclicTs ts := by
  rw [buildGraph_phases]
  cases hp : buildProvides ts [] with
  | none =>
    simp only
    constructor
    · rintro ⟨g, hg⟩; simp at hg
    · rintro ⟨h, _⟩
      have := (buildProvides_isSome_iff ts).2 h
      rw [hp] at this; simp at this
  | some prov =>
    simp only
    have hnd : NoDupProducer ts := (buildProvides_isSome_iff ts).1 (by simp [hp])
    have hsrc := sources_iff ts ex hid prov hp
    have hcyc := cycles_iff ts hid prov hp
    cases hu : (unresolvedList ts prov).any (fun p => !ex p) with
    | true =>
      simp only [if_true]
      constructor
      · rintro ⟨g, hg⟩; simp at hg
      · rintro ⟨_, h, _⟩
        have := hsrc.2 h; rw [hu] at this; simp at this
    | false =>
      simp only [Bool.false_eq_true, if_false]
      cases hc : checkCycles (depFn (depsList ts prov)) ((ts.map (·.id)).length + 1) (ts.map (·.id)) with
      | none =>
        simp only
        constructor
        · rintro ⟨g, hg⟩; simp at hg
        · rintro ⟨_, _, h⟩
          have := hcyc.2 h; rw [hc] at this; simp at this
      | some fin =>
        simp only
        constructor
        · intro _
          exact ⟨hnd, hsrc.1 hu, hcyc.1 (by rw [hc]; rfl)⟩
        · intro _; exact ⟨_, rfl⟩

/-- **the error names a defect that actually applies** -/
theorem error_kind_applies (e : GErr) (h : buildGraph ts ex = .error e) :
    match e with
    | .multi => ¬ NoDupProducer ts
    | .unresolved => NoDupProducer ts ∧ ¬ SourcesExist ts ex
    | .cycle => NoDupProducer ts ∧ SourcesExist ts ex ∧ ¬ AcyclicTs ts := by
  rw [buildGraph_phases] at h
  cases hp : buildProvides ts [] with
  | none =>
    rw [hp] at h; simp only [Except.error.injEq] at h; subst h
    intro hn
    have := (buildProvides_isSome_iff ts).2 hn
    rw [hp] at this; simp at this
  | some prov =>
    rw [hp] at h; simp only at h
    have hnd : NoDupProducer ts := (buildProvides_isSome_iff ts).1 (by simp [hp])
    have hsrc := sources_iff ts ex hid prov hp
    have hcyc := cycles_iff ts hid prov hp
    cases hu : (unresolvedList ts prov).any (fun p => !ex p) with
    | true =>
      rw [hu] at h; simp only [if_true, Except.error.injEq] at h; subst h
      refine ⟨hnd, fun hs => ?_⟩
      have := hsrc.2 hs; rw [hu] at this; simp at this
    | false =>
      rw [hu] at h; simp only [Bool.false_eq_true, if_false] at h
      cases hc : checkCycles (depFn (depsList ts prov)) ((ts.map (·.id)).length + 1) (ts.map (·.id)) with
      | none =>
        rw [hc] at h; simp only [Except.error.injEq] at h; subst h
        refine ⟨hnd, hsrc.1 hu, fun ha => ?_⟩
        have := hcyc.2 ha; rw [hc] at this; simp at this
      | some fin => rw [hc] at h; simp at h

/-- a target consuming its own output is a cycle: never accepted -/
theorem self_loop_rejected (t : Tgt α) (ht : t ∈ ts) (p : α) (hi : p ∈ t.ins) (ho : p ∈ t.outs) :
    ¬ ∃ g, buildGraph ts ex = .ok g := by
  intro h
  obtain ⟨_, _, rank, hr⟩ := (build_ok_iff ts ex hid).1 h
  have := hr t ht t ht ⟨p, hi, ho⟩
  omega

/-- on success there is a rank function that decreases along every dependency edge and is smaller
    than the fuel the scheduling pass is given — so the C02 theorems apply to every validated
    workflow with the fuel the model actually uses, at any size and depth -/
theorem graph_rank (g : Graph α) (h : buildGraph ts ex = .ok g) :
    ∃ rank : Nat → Nat, (∀ t d, d ∈ g.depsOf t → rank d < rank t) ∧ ∀ t, rank t < g.ids.length + 1 := by
  rw [buildGraph_phases] at h
  cases hp : buildProvides ts [] with
  | none => rw [hp] at h; simp at h
  | some prov =>
    rw [hp] at h; simp only at h
    split at h
    · simp at h
    · cases hc : checkCycles (depFn (depsList ts prov)) ((ts.map (·.id)).length + 1) (ts.map (·.id)) with
      | none => rw [hc] at h; simp at h
      | some fin =>
        rw [hc] at h; simp only [Except.ok.injEq] at h; subst h
        have hids : ∀ t d, t ∈ ts.map (·.id) → d ∈ depFn (depsList ts prov) t → d ∈ ts.map (·.id) := by
          intro t d _ hd
          obtain ⟨_, _, _, A, hA, hAd, _⟩ := (edge_iff ts hid prov hp t d).1 hd
          exact List.mem_map.2 ⟨A, hA, hAd⟩
        obtain ⟨r1, r2⟩ := checkCycles_rank (depFn (depsList ts prov)) (ts.map (·.id)) hids _ fin hc
        refine ⟨rk fin, ?_, r2⟩
        intro t d hd
        simp only [Graph.depsOf] at hd
        obtain ⟨B, hB, hBt, _⟩ := (edge_iff ts hid prov hp t d).1 hd
        exact r1 t (List.mem_map.2 ⟨B, hB, hBt⟩) d hd

end

/-! non-vacuity: a 3-cycle not reachable from the first target is rejected as `cycle`; a chain is accepted -/
def exCyc : List (Tgt String) :=
  [⟨0, [], ["a"]⟩, ⟨1, ["z"], ["x"]⟩, ⟨2, ["x"], ["y"]⟩, ⟨3, ["y"], ["z"]⟩]
example : (match buildGraph exCyc (fun _ => true) with | .error e => e.name | .ok _ => "ok") = "cycle" := by decide
def exOk : List (Tgt String) := [⟨1, ["a"], ["b"]⟩, ⟨0, ["src"], ["a"]⟩]
example : (match buildGraph exOk (fun p => p == "src") with | .error e => e.name | .ok g => toString g.endpoints) = "[1]" := by decide
example : (match buildGraph exOk (fun _ => false) with | .error e => e.name | .ok _ => "ok") = "unresolved" := by decide

end Gwf.C04
