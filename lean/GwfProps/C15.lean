/-
  C15 — clean deletes only unprotected declared outputs of the selected targets.
-/
import GwfProps.Lemmas.WorldLemmas
import GwfProps.C03
namespace Gwf.C15
open Gwf

theorem cleanOne_dir (w : World) (t : WT) : (w.cleanOne t).dir = w.dir := rfl
theorem cleanOne_hashing (w : World) (t : WT) : (w.cleanOne t).hashing = w.hashing := rfl

theorem fold_dir (ms : List WT) (w : World) : (ms.foldl World.cleanOne w).dir = w.dir := by
  induction ms generalizing w with
  | nil => rfl
  | cons t ts ih => simp only [List.foldl_cons]; rw [ih, cleanOne_dir]

theorem fold_hashing (ms : List WT) (w : World) : (ms.foldl World.cleanOne w).hashing = w.hashing := by
  induction ms generalizing w with
  | nil => rfl
  | cons t ts ih => simp only [List.foldl_cons]; rw [ih, cleanOne_hashing]

/-- what is left of a file after cleaning the targets `ms` -/
theorem files_after (ms : List WT) (w : World) (q : String) :
    alook q (ms.foldl World.cleanOne w).files =
      if ∃ t ∈ ms, q ∈ t.outsAbs w.dir ∧ q ∉ t.protAbs w.dir then none else alook q w.files := by
  induction ms generalizing w with
  | nil => simp
  | cons t ts ih =>
    simp only [List.foldl_cons]
    rw [ih, cleanOne_dir]
    have hone : alook q (w.cleanOne t).files =
        if q ∈ t.outsAbs w.dir ∧ q ∉ t.protAbs w.dir then none else alook q w.files := by
      simp only [World.cleanOne]; exact alook_fold_erase _ _ _ _
    by_cases h1 : ∃ u ∈ ts, q ∈ u.outsAbs w.dir ∧ q ∉ u.protAbs w.dir
    · have : ∃ u ∈ t :: ts, q ∈ u.outsAbs w.dir ∧ q ∉ u.protAbs w.dir := by
        obtain ⟨u, hu, h⟩ := h1; exact ⟨u, List.mem_cons_of_mem _ hu, h⟩
      simp [h1, this]
    · simp only [h1, if_false, hone]
      by_cases h2 : q ∈ t.outsAbs w.dir ∧ q ∉ t.protAbs w.dir
      · have : ∃ u ∈ t :: ts, q ∈ u.outsAbs w.dir ∧ q ∉ u.protAbs w.dir := ⟨t, by simp, h2⟩
        rw [if_pos h2, if_pos this]
      · have : ¬ ∃ u ∈ t :: ts, q ∈ u.outsAbs w.dir ∧ q ∉ u.protAbs w.dir := by
          rintro ⟨u, hu, h⟩
          simp only [List.mem_cons] at hu
          rcases hu with e | e
          · subst e; exact h2 h
          · exact h1 ⟨u, e, h⟩
        rw [if_neg h2, if_neg this]

/-- the spec-hash records after cleaning the targets `ms` -/
theorem hashes_after (ms : List WT) (w : World) (n : String) :
    alook n (ms.foldl World.cleanOne w).hashes =
      if w.hashing = true ∧ ∃ t ∈ ms, t.name = n then none else alook n w.hashes := by
  induction ms generalizing w with
  | nil => simp
  | cons t ts ih =>
    simp only [List.foldl_cons]
    rw [ih, cleanOne_hashing]
    cases hh : w.hashing with
    | false => simp [World.cleanOne, hh]
    | true =>
      simp only [true_and]
      by_cases h1 : ∃ u ∈ ts, u.name = n
      · have : ∃ u ∈ t :: ts, u.name = n := by obtain ⟨u, hu, h⟩ := h1; exact ⟨u, List.mem_cons_of_mem _ hu, h⟩
        simp [h1, this]
      · simp only [h1, if_false]
        by_cases h2 : t.name = n
        · have : ∃ u ∈ t :: ts, u.name = n := ⟨t, by simp, h2⟩
          subst h2
          simp [this, World.cleanOne, hh, alook_aerase_same]
        · have : ¬ ∃ u ∈ t :: ts, u.name = n := by
            rintro ⟨u, hu, h⟩
            simp only [List.mem_cons] at hu
            rcases hu with e | e
            · subst e; exact h2 h
            · exact h1 ⟨u, e, h⟩
          rw [if_neg this]
          simp only [World.cleanOne, hh, if_true]
          exact alook_aerase_other _ _ _ (Ne.symm h2)

section
variable (w w' : World) (wf : List WT) (patterns : List String) (all : Bool) (g : Graph String)
  (hg : (w.proj wf none).graph = .ok g) (hc : w.clean wf patterns all = .ok w')
include hg hc

theorem clean_eq : w' = (World.cleanMatches wf g patterns all).foldl World.cleanOne w := by
  simp only [World.clean, hg, Except.ok.injEq] at hc
  exact hc.symm

/-- **a file disappears only if it is a declared output of a selected target that does not protect
    it; every such existing file does disappear; every other file is untouched** (sources, logs, state
    files, unrelated files — anything that is not such an output) -/
theorem clean_deletes_exactly (q : String) :
    alook q w'.files =
      if ∃ t ∈ World.cleanMatches wf g patterns all, q ∈ t.outsAbs w.dir ∧ q ∉ t.protAbs w.dir
      then none else alook q w.files := by
  rw [clean_eq w w' wf patterns all g hg hc]; exact files_after _ _ _

/-- a file that no target of the workflow declares as output — a source input, a log, a state file,
    any unrelated file — is never removed or altered by clean -/
theorem undeclared_files_untouched (q : String) (hq : ∀ t ∈ wf, q ∉ t.outsAbs w.dir) :
    alook q w'.files = alook q w.files := by
  rw [clean_deletes_exactly w w' wf patterns all g hg hc q]
  have : ¬ ∃ t ∈ World.cleanMatches wf g patterns all, q ∈ t.outsAbs w.dir ∧ q ∉ t.protAbs w.dir := by
    rintro ⟨t, ht, ho, _⟩
    have hwf : t ∈ wf := by
      simp only [World.cleanMatches] at ht
      cases all <;> (try simp only [Bool.false_eq_true, if_false, if_true, List.mem_filter] at ht)
      all_goals (split at ht <;> simp_all [List.mem_filter])
    exact hq t hwf ho
  rw [if_neg this]

/-- without `--all` the outputs of endpoint targets are kept: endpoints are not among the cleaned targets -/
theorem endpoints_kept_without_all (hall : all = false) (t : WT) (ht : t ∈ World.cleanMatches wf g patterns all) :
    t.id ∉ g.endpoints := by
  subst hall
  simp only [World.cleanMatches] at ht
  simp only [Bool.false_eq_true, if_false, List.mem_filter, Bool.not_eq_true', List.contains_iff_mem,
    List.elem_eq_mem, decide_eq_false_iff_not] at ht
  exact ht.2

/-- only targets of the workflow matching the patterns (all targets when none are given) are cleaned -/
theorem cleaned_targets_selected (t : WT) (ht : t ∈ World.cleanMatches wf g patterns all) :
    t ∈ wf ∧ (patterns = [] ∨ ∃ p ∈ patterns, Glob.globMatch p t.name = true) := by
  simp only [World.cleanMatches] at ht
  have hby : t ∈ (if patterns.isEmpty then wf else wf.filter (fun t => patterns.any (fun p => Glob.globMatch p t.name))) := by
    cases all <;> simp_all [List.mem_filter]
  by_cases hp : patterns = []
  · subst hp; simp at hby; exact ⟨hby, Or.inl rfl⟩
  · have : patterns.isEmpty = false := by cases patterns <;> simp_all
    simp only [this, Bool.false_eq_true, if_false, List.mem_filter, List.any_eq_true] at hby
    exact ⟨hby.1, Or.inr hby.2⟩

/-- the spec hashes of the cleaned targets are forgotten, all other records are kept
    (and nothing changes while hashing is disabled) -/
theorem hashes_forgotten (n : String) :
    alook n w'.hashes =
      if w.hashing = true ∧ ∃ t ∈ World.cleanMatches wf g patterns all, t.name = n then none else alook n w.hashes := by
  rw [clean_eq w w' wf patterns all g hg hc]; exact hashes_after _ _ _

/-- clean never touches the tracked jobs, the cluster or the configuration -/
theorem clean_frame : w'.tracked = w.tracked ∧ w'.jobs = w.jobs ∧ w'.hashing = w.hashing ∧ w'.dir = w.dir := by
  rw [clean_eq w w' wf patterns all g hg hc]
  have : ∀ (ms : List WT) (w : World), (ms.foldl World.cleanOne w).tracked = w.tracked ∧ (ms.foldl World.cleanOne w).jobs = w.jobs := by
    intro ms
    induction ms with
    | nil => intro w; exact ⟨rfl, rfl⟩
    | cons t ts ih => intro w; simp only [List.foldl_cons]; exact ih (w.cleanOne t)
  exact ⟨(this _ w).1, (this _ w).2, fold_hashing _ _, fold_dir _ _⟩

end

/-- protection is by FILE, not by spelling: the protect set and the outputs are both normalised
    against the target's working directory before they are compared -/
theorem protect_spelling_irrelevant (dir : String) (t : WT) (q : String) :
    q ∈ t.protAbs dir ↔ ∃ p ∈ t.prot.flatten, normS dir dir p = q := by
  simp [WT.protAbs, List.mem_map]

example : normS "/w" "/w" "./out" = normS "/w" "/w" "/w/z/../out" := by decide

end Gwf.C15
