/-
  C12 — Local pool never runs more tasks at once than the configured number of cores;
  conversely a free core is never left idle while a ready task waits.
-/
import GwfProps.Lemmas.PoolGlobal
import GwfProps.Lemmas.CycleLemmas
namespace Gwf.C12
open Gwf Gwf.Pool

/-- in every reachable state at most `c` cores are handed out -/
theorem cores_bounded (c : Nat) (s : Pool) (h : Reachable c s) : s.holders.length ≤ c := by
  obtain ⟨hi, hc⟩ := reachable_ginv h
  rw [← hc]; exact hi.inv.cores

/-- a task whose process is alive holds a core -/
theorem alive_holds_core (c : Nat) (s : Pool) (h : Reachable c s) (tid : Nat) (t : Task)
    (ht : s.task? tid = some t) (ha : t.alive = true) : tid ∈ s.holders := by
  obtain ⟨hi, _⟩ := reachable_ginv h
  have := ((hi.inv.tasks tid t ht).alive_held ha).1
  simpa [Pool.holds] using this

/-- **at every moment, whatever happened before (failures, skipped dependents, time-outs,
    cancellations at any point, later submissions), at most `c` task processes are alive** -/
theorem alive_le_cores (c : Nat) (s : Pool) (h : Reachable c s) : s.aliveTids.length ≤ c := by
  have hsub : ∀ x ∈ s.aliveTids, x ∈ s.holders := by
    intro x hx
    simp only [Pool.aliveTids, List.mem_filter, List.mem_range] at hx
    cases ht : s.tasks[x]? with
    | none => simp [ht] at hx
    | some t =>
      simp only [ht] at hx
      exact alive_holds_core c s h x t ht hx.2
  have hnd : s.aliveTids.Nodup := by
    simp only [Pool.aliveTids]
    exact List.Nodup.sublist List.filter_sublist List.nodup_range
  have := nodup_subset_length_le s.aliveTids s.holders hnd hsub
  have := cores_bounded c s h
  omega

/-- a core is only ever released by the task that holds it (no phantom permits), and only once its
    process is gone -/
theorem release_guard (s s' : Pool) (tid : Nat) (hs : step s (.rel tid) = some s') :
    tid ∈ s.holders ∧ ∃ t, s.task? tid = some t ∧ t.alive = false := by
  obtain ⟨t, t', h, ht, hst, _⟩ := step_target s s' (.rel tid) tid rfl hs
  simp only [stepTask] at hst
  split at hst
  · rename_i hg
    simp only [Bool.and_eq_true, Bool.not_eq_true', bne_iff_ne, ne_eq] at hg
    exact ⟨by simpa [Pool.holds] using hg.1.1.1, t, ht, hg.1.1.2⟩
  · simp at hst

/-- **work conservation**: when nothing inside the pool can move and a core is free, no task that
    is ready to run (dependencies complete, not cancelled) is waiting for a core -/
theorem work_conserving (s : Pool) (hq : s.quiescent = true) (hfree : s.holders.length < s.maxCores)
    (tid : Nat) (t : Task) (ht : s.task? tid = some t) : t.wantsCore = false := by
  have hlt : tid < s.tasks.length := by
    simp only [Pool.task?] at ht
    rcases Nat.lt_or_ge tid s.tasks.length with hl | hl
    · exact hl
    · rw [List.getElem?_eq_none hl] at ht; simp at ht
  simp only [Pool.quiescent, List.all_eq_true, List.mem_range] at hq
  have := hq tid hlt
  simp only [Pool.task?] at ht
  simp only [ht] at this
  cases hp : t.phase <;> simp_all [Task.wantsCore, Pool.parked]
  omega

/-! non-vacuity: a concrete history on one core in which a dependency fails, its dependent is
    skipped, a third task is cancelled while waiting for the core, and a fourth then runs -/
def exTrace : List Label :=
  [.enq [] none, .set 0 .submitted, .acqReq 0, .acq 0, .set 0 .running, .spawn 0,
   .enq [0] none, .enq [] none, .acqReq 2, .enq [] none, .acqReq 3,
   .cancelReq 2, .set 2 .cancelled, .taskDone 2 false,
   .exit 0 1, .set 0 .failed, .rel 0, .acq 3, .set 3 .running, .taskDone 0 false, .spawn 3,
   .set 1 .failed, .taskDone 1 false]

example : (run (init 1) exTrace).isSome = true := by decide
example : ((run (init 1) exTrace).map (fun s => (s.aliveTids, s.holders))) = some ([3], [3]) := by decide
example : (run (init 1) (exTrace ++ [.acq 1])).isSome = false := by decide

end Gwf.C12
