/-
  C02 — Submission plan: stale cone only, once each, deps first, exact prerequisites.
  Property theorems only; lemmas live in GwfProps/Lemmas.
-/
import GwfProps.Lemmas.SchedTop
import GwfProps.C04
import GwfModel.Project
import GwfProps.Lemmas.GlobLemmas
namespace Gwf.C02
open Gwf

/-- generated-table obligation: `SUBMITTED_STATES` = every status except COMPLETED -/
theorem submittedStates_spec (s : Status) : inSubmitted s = true ↔ s ≠ .completed := by
  cases s <;> decide

/-- in the property's words: a target is handed to `submit` iff its last job failed or was cancelled,
    or it is not pending/running and is itself stale or has a direct dependency that is not complete -/
theorem submits_iff (w : Wf) (σ : Nat → Status) (t : Nat) :
    submits w σ t = true ↔
      (w.bstat t = .failed ∨ w.bstat t = .cancelled) ∨
      (w.bstat t ≠ .submitted ∧ w.bstat t ≠ .running ∧
        (w.stale t = true ∨ ∃ d ∈ w.deps t, σ d ≠ .completed)) := by
  have hne : (subOf w σ t).isEmpty = false ↔ ∃ d ∈ w.deps t, σ d ≠ .completed := by
    simp only [subOf, List.isEmpty_eq_false_iff_exists_mem, List.mem_filter]
    constructor
    · rintro ⟨d, hd, hs⟩; exact ⟨d, hd, (submittedStates_spec _).1 hs⟩
    · rintro ⟨d, hd, hs⟩; exact ⟨d, ⟨hd, (submittedStates_spec _).2 hs⟩⟩
  unfold submits decideT
  cases hb : w.bstat t <;> simp
  all_goals
    cases hs : w.stale t <;> cases he : (subOf w σ t).isEmpty <;> simp_all

/-- the prerequisites named are exactly the direct dependencies that are not complete -/
theorem subOf_eq (w : Wf) (σ : Nat → Status) (t : Nat) :
    subOf w σ t = (w.deps t).filter (fun d => decide (σ d ≠ .completed)) := by
  simp only [subOf]
  apply List.filter_congr
  intro d _
  cases h : σ d <;> simp [inSubmitted_spec]

/-- a target's reported status is shouldrun/failed/cancelled exactly when it is submitted -/
theorem status_iff_submits (w : Wf) (σ : Nat → Status) (hσ : IsStatusMap w σ) (t : Nat) :
    submits w σ t = true ↔ (σ t = .shouldrun ∨ σ t = .failed ∨ σ t = .cancelled) := by
  rw [hσ t]; unfold submits decideT
  cases w.bstat t <;> cases w.stale t <;> by_cases h : subOf w σ t = [] <;> simp [h]

/-! ### the property, for every validated workflow, backend history, file state and selection -/

section
variable (w : Wf) (σ : Nat → Status) (hσ : IsStatusMap w σ) (rank : Nat → Nat)
  (hr : ∀ t d, d ∈ w.deps t → rank d < rank t) (fuel : Nat) (hf : ∀ t, rank t < fuel) (eps : List Nat)
include hσ hr hf

/-- the status computed for a target is the declarative one, on exactly the cone -/
theorem status_correct (t : Nat) :
    (InCone w eps t → alook t (schedule w fuel eps).cache = some (σ t)) ∧
    (¬ InCone w eps t → alook t (schedule w fuel eps).cache = none) := by
  obtain ⟨hinv, hcone⟩ := schedule_refines w σ hσ rank hr fuel hf eps
  exact ⟨fun h => alook_of_mem_keys_ok hinv ((hcone t).2 h),
         fun h => alook_none_of_not_mem t _ (fun hm => h ((hcone t).1 hm))⟩

/-- a target is submitted iff it lies in the cone and (see `submits_iff`) needs to run;
    nothing outside the cone is touched -/
theorem submitted_iff (t : Nat) :
    t ∈ (schedule w fuel eps).chron.map Prod.fst ↔ InCone w eps t ∧ submits w σ t = true := by
  obtain ⟨hinv, hcone⟩ := schedule_refines w σ hσ rank hr fuel hf eps
  simp only [SState.chron, List.map_reverse, List.mem_reverse]
  rw [hinv.log_eq, expectedLog_keys, List.mem_filter, hcone t]

/-- a pending or running target is never submitted again -/
theorem never_resubmits_in_flight (t : Nat) (h : w.bstat t = .submitted ∨ w.bstat t = .running) :
    t ∉ (schedule w fuel eps).chron.map Prod.fst := by
  intro hm
  have := ((submitted_iff w σ hσ rank hr fuel hf eps t).1 hm).2
  rw [submits_iff] at this
  rcases h with h | h <;> simp [h] at this

/-- each target is submitted at most once -/
theorem submitted_once : ((schedule w fuel eps).chron.map Prod.fst).Nodup := by
  obtain ⟨hinv, _⟩ := schedule_refines w σ hσ rank hr fuel hf eps
  simp only [SState.chron, List.map_reverse]
  rw [nodup_reverse', hinv.log_eq, expectedLog_keys]
  exact List.Nodup.sublist List.filter_sublist (PostOrd.nodup hinv.post)

/-- its submission names exactly its direct dependencies that are not complete -/
theorem prereqs_exact (t : Nat) (ds : List Nat) (h : (t, ds) ∈ (schedule w fuel eps).chron) :
    ds = (w.deps t).filter (fun d => decide (σ d ≠ .completed)) := by
  obtain ⟨hinv, _⟩ := schedule_refines w σ hσ rank hr fuel hf eps
  simp only [SState.chron, List.mem_reverse] at h
  rw [hinv.log_eq] at h
  rw [← subOf_eq]
  exact ((mem_expectedLog w σ _ t ds).1 h).2.2

/-- every named prerequisite is either in flight at the backend or submitted in this same run -/
theorem prereq_in_flight_or_submitted (t : Nat) (ds : List Nat) (h : (t, ds) ∈ (schedule w fuel eps).chron)
    (d : Nat) (hd : d ∈ ds) :
    (w.bstat d = .submitted ∨ w.bstat d = .running) ∨ submits w σ d = true := by
  have := prereqs_exact w σ hσ rank hr fuel hf eps t ds h
  subst this
  simp only [List.mem_filter, decide_eq_true_eq] at hd
  have hs := hσ d
  by_cases hsub : submits w σ d = true
  · exact Or.inr hsub
  · left
    have hnot := mt (status_iff_submits w σ hσ d).2 hsub
    have h3 : σ d = .submitted ∨ σ d = .running := by
      have hd2 := hd.2
      cases h : σ d <;> simp_all
    rw [hs] at h3
    unfold decideT at h3
    cases hb : w.bstat d <;> rw [hb] at h3 <;> simp at h3 ⊢
    all_goals (cases hst : w.stale d <;> by_cases he : subOf w σ d = [] <;> simp [he, hst] at h3)

/-- dependencies first: a prerequisite that is submitted in this run is submitted earlier -/
theorem deps_first (l1 l2 : List (Nat × List Nat)) (t : Nat) (ds : List Nat)
    (h : (schedule w fuel eps).chron = l1 ++ (t, ds) :: l2) (d : Nat) (hd : d ∈ ds)
    (hsub : submits w σ d = true) : d ∈ l1.map Prod.fst := by
  obtain ⟨hinv, _⟩ := schedule_refines w σ hσ rank hr fuel hf eps
  have hmem : (t, ds) ∈ (schedule w fuel eps).chron := by rw [h]; simp
  have hds := prereqs_exact w σ hσ rank hr fuel hf eps t ds hmem
  have hdt : d ∈ w.deps t := by rw [hds] at hd; exact (List.mem_filter.1 hd).1
  have hlog : (schedule w fuel eps).log = l2.reverse ++ (t, ds) :: l1.reverse := by
    have := congrArg List.reverse h
    simpa [SState.chron] using this
  rw [hinv.log_eq] at hlog
  have := expectedLog_order w σ _ hinv.post _ _ t ds hlog d hdt hsub
  simpa using this

/-- the status of a target does not depend on which endpoints were requested -/
theorem status_independent_of_endpoints (eps' : List Nat) (t : Nat)
    (h1 : InCone w eps t) (h2 : InCone w eps' t) :
    alook t (schedule w fuel eps).cache = alook t (schedule w fuel eps').cache := by
  rw [(status_correct w σ hσ rank hr fuel hf eps t).1 h1, (status_correct w σ hσ rank hr fuel hf eps' t).1 h2]

end

/-- on a DAG the declarative status map exists and is unique, so the statements above are not vacuous -/
theorem statusMap_exists_unique (w : Wf) (h : Acyclic w) :
    ∃ σ, IsStatusMap w σ ∧ ∀ σ', IsStatusMap w σ' → ∀ t, σ' t = σ t := by
  obtain ⟨σ, hσ⟩ := statusMap_exists w h
  exact ⟨σ, hσ, fun σ' h' t => statusMap_unique w h σ' σ h' hσ t⟩

/-- **composition with validation**: for every project whose graph construction succeeds (any size,
    any depth), the scheduling pass of the model runs with enough fuel and on an acyclic relation —
    i.e. the hypotheses `hr`, `hf` of the theorems above hold with the fuel the model really uses,
    and the declarative status map exists and is unique -/
theorem validated_project (p : Proj) (g : Graph String) (hg : p.graph = .ok g)
    (hid : ∀ t ∈ p.tgts, ∀ u ∈ p.tgts, t.id = u.id → t = u) :
    (∃ rank : Nat → Nat, (∀ t d, d ∈ (p.wf g).deps t → rank d < rank t) ∧ ∀ t, rank t < g.ids.length + 1)
    ∧ ∃ σ, IsStatusMap (p.wf g) σ ∧ ∀ σ', IsStatusMap (p.wf g) σ' → ∀ t, σ' t = σ t := by
  obtain ⟨rank, h1, h2⟩ := C04.graph_rank p.tgts _ hid g hg
  exact ⟨⟨rank, h1, h2⟩, statusMap_exists_unique (p.wf g) ⟨rank, h1⟩⟩

/-! ### the requested targets: name patterns -/

/-- a target is selected iff it exists and at least one of the patterns matches its name
    (so several patterns select the union, and a pattern that matches nothing selects nothing) -/
theorem mem_select (patterns names : List String) (n : String) :
    n ∈ Glob.select patterns names ↔ n ∈ names ∧ ∃ p ∈ patterns, Glob.globMatch p n = true := by
  simp [Glob.select, List.mem_filter, List.any_eq_true]

/-- a pattern without `*`, `?`, `[` selects exactly the target of that name -/
theorem glob_literal (p name : String) (h : ∀ c ∈ p.toList, Glob.isMeta c = false) :
    Glob.globMatch p name = decide (p = name) := by
  simp only [Glob.globMatch]
  rw [Glob.gmatch_literal p.toList name.toList _ (by simp [String.length]; omega) h]
  by_cases e : p = name
  · simp [e]
  · have : p.toList ≠ name.toList := fun h' => e (String.ext h')
    simp [e, this]

/-- `*` selects every target -/
theorem glob_star (name : String) : Glob.globMatch "*" name = true := by
  simp only [Glob.globMatch]
  exact Glob.gmatch_star name.toList _ (by simp [String.length])

example : Glob.select ["A*", "?2"] ["A1", "B2", "C3", "A"] = ["A1", "B2", "A"] := by decide
example : Glob.select ["[!A]*"] ["A1", "B2"] = ["B2"] := by decide

/-! ### non-vacuity: a concrete diamond with an in-flight, a failed and a stale target -/

def exW : Wf :=
  { deps := fun t => match t with | 1 => [0] | 2 => [0] | 3 => [1, 2] | _ => [],
    bstat := fun t => match t with | 1 => .running | 2 => .failed | _ => .unknown,
    stale := fun t => t == 0 }

example : (schedule exW 5 [3]).chron = [(0, []), (2, [0]), (3, [1, 2])] := by decide
example : Acyclic exW := ⟨id, by intro t d h; simp only [exW] at h; split at h <;> simp_all <;> omega⟩

end Gwf.C02
