/-
  C11 — Local pool: a task starts only after all its dependencies completed successfully.
-/
import GwfProps.Lemmas.PoolGlobal
namespace Gwf.C11
open Gwf Gwf.Pool

/-- the scheduler may start a task's process only in a state where every dependency is a finished
    task in state COMPLETED -/
theorem spawn_enabled_only_after_deps (s s' : Pool) (tid : Nat) (hs : step s (.spawn tid) = some s') :
    ∃ t, s.task? tid = some t ∧ ∀ d ∈ t.deps, s.depOk d = true := by
  obtain ⟨t, t', h, ht, hst, _⟩ := step_target s s' (.spawn tid) tid rfl hs
  refine ⟨t, ht, ?_⟩
  simp only [stepTask] at hst
  split at hst
  · rename_i hg
    simp only [Bool.and_eq_true, List.all_eq_true] at hg
    exact hg.2
  · split at hst
    · rename_i hg
      simp only [Bool.and_eq_true, List.all_eq_true] at hg
      exact hg.2
    · simp at hst

/-- **in every reachable state: a task for which a process was started has only dependencies that
    finished, are COMPLETED, and whose process ran and exited with status 0** -/
theorem started_after_deps_completed (c : Nat) (s : Pool) (h : Reachable c s) (tid : Nat) (t : Task)
    (ht : s.task? tid = some t) (hsp : t.spawned = true) (d : Nat) (hd : d ∈ t.deps) :
    ∃ td, s.task? d = some td ∧ td.phase = .done ∧ td.st = .completed ∧ td.spawned = true ∧ td.exitCode = some 0 := by
  obtain ⟨hi, _⟩ := reachable_ginv h
  have hall := (hi.inv.tasks tid t ht).spawned_deps hsp
  have hok := (List.all_eq_true.1 hall) d hd
  simp only [Pool.depOk] at hok
  cases htd : s.task? d with
  | none => simp [htd] at hok
  | some td =>
    simp only [htd, Bool.and_eq_true, beq_iff_eq] at hok
    have hc := (hi.inv.tasks d td htd).completed_ran hok.2
    exact ⟨td, rfl, hok.1, hok.2, hc.1, hc.2.1⟩

/-- a dependency that completed stays completed: no later event (any exit, time-out, cancel request
    at any point, late submission) changes a finished task -/
theorem completed_dep_stable (c : Nat) (s s' : Pool) (l : Label) (h : Reachable c s) (hs : step s l = some s')
    (d : Nat) (hd : s.depOk d = true) : s'.depOk d = true := by
  obtain ⟨hi, _⟩ := reachable_ginv h
  cases hl : l.tid? with
  | none =>
    cases l <;> simp only [Label.tid?, reduceCtorEq] at hl <;> simp only [step, Option.some.injEq] at hs <;> subst hs
    case enq deps limit =>
      simp only [Pool.depOk] at hd ⊢
      cases htd : s.task? d with
      | none => simp [htd] at hd
      | some td => rw [task?_append_old s _ d td htd]; simpa [htd] using hd
    all_goals exact hd
  | some tid =>
    obtain ⟨t, t', h', ht, hst, rfl⟩ := step_target s s' l tid hl hs
    exact depOk_set s tid t t' _ ht
      (fun hdn => (stepTask_done s tid t t' _ h' l (hi.inv.tasks tid t ht) rfl hdn hst).1) d hd

/-- **if a dependency ended in any non-completed final state (failed, killed for exceeding its time
    limit, cancelled), the dependent has not been started in any reachable state — so it never is —
    and is not COMPLETED** -/
theorem failed_dep_blocks (c : Nat) (s : Pool) (h : Reachable c s) (tid : Nat) (t : Task)
    (ht : s.task? tid = some t) (d : Nat) (hd : d ∈ t.deps) (td : Task) (htd : s.task? d = some td)
    (hdone : td.phase = .done) (hbad : td.st ≠ .completed) : t.spawned = false ∧ t.st ≠ .completed := by
  obtain ⟨hi, _⟩ := reachable_ginv h
  have hns : t.spawned = false := by
    cases hsp : t.spawned with
    | false => rfl
    | true =>
      obtain ⟨td', htd', _, hc, _⟩ := started_after_deps_completed c s h tid t ht hsp d hd
      rw [htd] at htd'; simp only [Option.some.injEq] at htd'; subst htd'
      exact absurd hc hbad
  refine ⟨hns, fun hc => ?_⟩
  have := ((hi.inv.tasks tid t ht).completed_ran hc).1
  rw [hns] at this; simp at this

/-- **the dependent of a failed / killed / cancelled task ends in that same non-completed state**:
    a task whose recorded cause is "a dependency did not complete" carries the state of a finished
    dependency, and that state is not COMPLETED -/
theorem dependent_inherits_state (c : Nat) (s : Pool) (h : Reachable c s) (tid : Nat) (t : Task)
    (ht : s.task? tid = some t) (x : LStatus) (hh : t.hist = .depBad x) :
    t.st = x ∧ x ≠ .completed ∧ t.spawned = false ∧
      ∃ d ∈ t.deps, ∃ td, s.task? d = some td ∧ td.phase = .done ∧ td.st = x := by
  obtain ⟨hi, _⟩ := reachable_ginv h
  have hti := hi.inv.tasks tid t ht
  obtain ⟨a, b, cc⟩ := hti.depBad_dep x hh
  refine ⟨hti.depBad_st x hh, b, a, ?_⟩
  obtain ⟨d, hd, hd2⟩ := List.any_eq_true.1 cc
  refine ⟨d, hd, ?_⟩
  simp only [Pool.depIs] at hd2
  cases htd : s.task? d with
  | none => simp [htd] at hd2
  | some td =>
    simp only [htd, Bool.and_eq_true, beq_iff_eq] at hd2
    exact ⟨td, rfl, hd2.1, hd2.2⟩

/-! non-vacuity -/
def exTrace : List Label :=
  [.enq [] none, .acqReq 0, .acq 0, .set 0 .running, .spawn 0, .enq [0] none, .exit 0 3, .set 0 .failed, .rel 0,
   .taskDone 0 false, .set 1 .failed, .taskDone 1 false]

example : ((run (init 2) exTrace).map (fun s => s.tasks.map (fun t => (t.st, t.spawned)))) =
    some [(.failed, true), (.failed, false)] := by decide
-- the dependent of the failed task can never be started:
example : (run (init 2) (exTrace.take 10 ++ [.acqReq 1])).isSome = false := by decide

end Gwf.C11
