/-
  C03 — Dependency graph is exactly the relation induced by shared file paths.
-/
import GwfProps.Lemmas.GraphLemmas
import GwfModel.Path
namespace Gwf.C03
open Gwf

variable {α : Type} [DecidableEq α]

/-- what a successful build returns, unfolded -/
theorem buildGraph_ok (ts : List (Tgt α)) (ex : α → Bool) (g : Graph α) (h : buildGraph ts ex = .ok g) :
    buildProvides ts [] = some g.provides ∧ g.ids = ts.map (·.id) ∧
    g.deps = ts.map (fun t => (t.id, (depsOf g.provides t).1)) := by
  unfold buildGraph at h
  split at h
  · simp at h
  · rename_i prov hprov
    simp only at h
    split at h
    · simp at h
    · split at h
      · simp at h
      · simp only [Except.ok.injEq] at h
        subst h
        simp [hprov, List.map_map, Function.comp_def]

section
variable (ts : List (Tgt α)) (ex : α → Bool) (g : Graph α) (h : buildGraph ts ex = .ok g)
  (hid : ∀ t ∈ ts, ∀ u ∈ ts, t.id = u.id → t = u)
include h hid

/-- **B depends on A iff some (normalised) input path of B equals an output path of A** -/
theorem deps_iff (b : Tgt α) (hb : b ∈ ts) (a : Nat) :
    a ∈ g.depsOf b.id ↔ ∃ A ∈ ts, A.id = a ∧ ∃ p ∈ b.ins, p ∈ A.outs := by
  obtain ⟨h1, _, h3⟩ := buildGraph_ok ts ex g h
  simp only [Graph.depsOf]
  rw [h3, depFn_map ts _ hid b hb, mem_depsOf]
  constructor
  · rintro ⟨p, hp, hl⟩
    obtain ⟨A, hA, hAid, hpA⟩ := (provides_iff ts g.provides h1 hid p a).1 hl
    exact ⟨A, hA, hAid, p, hp, hpA⟩
  · rintro ⟨A, hA, hAid, p, hp, hpA⟩
    exact ⟨p, hp, (provides_iff ts g.provides h1 hid p a).2 ⟨A, hA, hAid, hpA⟩⟩

/-- every output maps to its single producer -/
theorem provides_functional (p : α) (a : Nat) :
    alook p g.provides = some a ↔ ∃ A ∈ ts, A.id = a ∧ p ∈ A.outs :=
  provides_iff ts g.provides (buildGraph_ok ts ex g h).1 hid p a

/-- different files never connect: no dependency without a shared path -/
theorem no_shared_path_no_edge (b : Tgt α) (hb : b ∈ ts) (A : Tgt α) (hA : A ∈ ts)
    (hdis : ∀ p ∈ b.ins, p ∉ A.outs) : A.id ∉ g.depsOf b.id := by
  intro hmem
  obtain ⟨A', hA', hid', p, hp, hpA⟩ := (deps_iff ts ex g h hid b hb A.id).1 hmem
  have := hid A' hA' A hA hid'
  subst this
  exact hdis p hp hpA

end

/-- the dependents relation is the exact inverse of the dependency relation -/
theorem dependents_inverse (g : Graph α) (hk : (akeys g.deps).Nodup) (t d : Nat) (ht : t ∈ akeys g.deps) :
    t ∈ g.dependentsOf d ↔ d ∈ g.depsOf t := by
  simp only [Graph.dependentsOf, Graph.depsOf]
  have hfold : ∀ (l : List (Nat × List Nat)) (acc : List Nat),
      t ∈ l.foldl (fun acc p => sinsert p.1 acc) acc ↔ t ∈ acc ∨ t ∈ akeys l := by
    intro l
    induction l with
    | nil => intro acc; simp [akeys]
    | cons p rest ih =>
      intro acc
      simp only [List.foldl_cons, ih, mem_sinsert, akeys, List.map_cons, List.mem_cons]
      constructor
      · rintro ((h | h) | h) <;> simp [h]
      · rintro (h | h | h) <;> simp [h]
  rw [hfold]
  simp only [List.not_mem_nil, false_or, akeys, List.mem_map, List.mem_filter, decide_eq_true_eq]
  constructor
  · rintro ⟨⟨k, ds⟩, ⟨hm, hd⟩, hk'⟩
    simp only at hk' hd
    subst hk'
    have := alook_of_mem_nodup' g.deps k ds hk hm
    simp [depFn, this, hd]
  · intro hd
    obtain ⟨⟨k, ds⟩, hm, hk'⟩ := List.mem_map.1 ht
    simp only at hk'
    subst hk'
    have := alook_of_mem_nodup' g.deps k ds hk hm
    simp only [depFn, this, Option.getD_some] at hd
    exact ⟨(k, ds), ⟨hm, hd⟩, rfl⟩
where
  alook_of_mem_nodup' : ∀ (m : List (Nat × List Nat)) (k : Nat) (v : List Nat),
      (akeys m).Nodup → (k, v) ∈ m → alook k m = some v
    | [], _, _, _, h => by simp at h
    | (k', v') :: rest, k, v, hn, h => by
      simp only [akeys, List.map_cons, List.nodup_cons] at hn
      simp only [List.mem_cons, Prod.mk.injEq] at h
      simp only [alook]
      rcases h with ⟨h1, h2⟩ | h
      · subst h1; subst h2; simp
      · split
        · rename_i hk; subst hk
          exact absurd (List.mem_map.2 ⟨(k', v), h, rfl⟩) hn.1
        · exact alook_of_mem_nodup' rest k v hn.2 h

/-- endpoints are exactly the targets nothing depends on -/
theorem endpoints_iff (g : Graph α) (t : Nat) :
    t ∈ g.endpoints ↔ t ∈ g.ids ∧ ∀ p ∈ g.deps, t ∉ p.2 := by
  simp only [Graph.endpoints]
  have hfold : ∀ (l : List Nat) (acc : List Nat),
      t ∈ l.foldl (fun acc x => sinsert x acc) acc ↔ t ∈ acc ∨ t ∈ l := by
    intro l
    induction l with
    | nil => intro acc; simp
    | cons p rest ih =>
      intro acc
      simp only [List.foldl_cons, ih, mem_sinsert, List.mem_cons]
      constructor
      · rintro ((h | h) | h) <;> simp [h]
      · rintro (h | h | h) <;> simp [h]
  rw [hfold]
  simp [List.mem_filter]

/-! ### path spellings -/
open Path

/-- with an absolute working directory the normalised path does not depend on the process cwd -/
theorem normPath_cwd_irrelevant (cwd cwd' wd p : List Char) (hwd : isabs wd = true) :
    normPath cwd wd p = normPath cwd' wd p := by
  have : isabs (join wd p) = true := by
    unfold join
    split
    · assumption
    · cases wd with
      | nil => simp [isabs] at hwd
      | cons c cs =>
        simp only [isabs, List.head?_cons, Option.some.injEq, decide_eq_true_eq] at hwd
        subst hwd
        split <;> simp [isabs]
  simp [normPath, abspath, this]

/-- non-vacuity / the listed spellings: relative, './x', 'd/../x', absolute and absolute-unnormalised
    spellings of one file all normalise to the same path; a different file does not -/
example : normPath "/c".toList "/w".toList "x".toList = "/w/x".toList := by decide
example : normPath "/c".toList "/w".toList "./x".toList = "/w/x".toList := by decide
example : normPath "/c".toList "/w".toList "d/../x".toList = "/w/x".toList := by decide
example : normPath "/c".toList "/w".toList "/w/x".toList = "/w/x".toList := by decide
example : normPath "/c".toList "/w".toList "/w/./q/../x".toList = "/w/x".toList := by decide
example : normPath "/c".toList "/w/sub".toList "../x".toList = "/w/x".toList := by decide
example : normPath "/c".toList "/w".toList "y".toList ≠ "/w/x".toList := by decide

end Gwf.C03
