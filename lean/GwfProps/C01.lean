/-
  C01 — Up-to-date decision follows make semantics on files, timestamps and spec.
-/
import GwfProps.Lemmas.ShouldRun
import GwfProps.Lemmas.SchedTop
import GwfModel.Shape
namespace Gwf.C01
open Gwf

variable {α : Type}

/-- `should_run` never raises when every declared input exists -/
theorem shouldRun_total (fs : α → Option Nat) (sc : Bool) (ins outs : List α)
    (hin : ∀ i ∈ ins, (fs i).isSome) : ∃ b, shouldRun fs sc ins outs = some b := by
  unfold shouldRun
  split; · exact ⟨_, rfl⟩
  split; · exact ⟨_, rfl⟩
  rename_i hout
  have h1 := (stamps_isSome_iff fs ins).2 hin
  cases hs : stamps fs ins with
  | none => rw [hs] at h1; simp at h1
  | some its =>
    simp only
    split; · exact ⟨_, rfl⟩
    have h2 : (stamps fs outs).isSome := (stamps_isSome_iff fs outs).2 (by
      intro o ho
      simp only [List.any_eq_true, not_exists, not_and] at hout
      have := hout o ho
      cases h : fs o <;> simp_all)
    cases hs2 : stamps fs outs with
    | none => rw [hs2] at h2; simp at h2
    | some ots => exact ⟨_, rfl⟩

/-- **make semantics**: with all inputs present, the target is up to date exactly when its spec is
    unchanged, it declares at least one output, every output exists, and no input is strictly newer
    than any output (equivalently: than its oldest output); ties are up to date. -/
theorem shouldRun_false_iff (fs : α → Option Nat) (sc : Bool) (ins outs : List α)
    (hin : ∀ i ∈ ins, (fs i).isSome) :
    shouldRun fs sc ins outs = some false ↔
      sc = false ∧ outs ≠ [] ∧ (∀ o ∈ outs, (fs o).isSome) ∧
      (∀ i ∈ ins, ∀ o ∈ outs, ∀ ti to, fs i = some ti → fs o = some to → ti ≤ to) := by
  unfold shouldRun
  cases sc with
  | true => simp
  | false =>
    simp only [Bool.false_eq_true, if_false, true_and]
    by_cases hmiss : outs.any (fun o => (fs o).isNone) = true
    · simp only [hmiss, if_true]
      simp only [List.any_eq_true] at hmiss
      obtain ⟨o, ho, hn⟩ := hmiss
      constructor
      · intro h; simp at h
      · rintro ⟨_, hall, _⟩
        have := hall o ho
        cases h : fs o <;> simp_all
    · simp only [hmiss]
      have hall : ∀ o ∈ outs, (fs o).isSome := by
        intro o ho
        simp only [List.any_eq_true, not_exists, not_and] at hmiss
        have := hmiss o ho
        cases h : fs o <;> simp_all
      have h1 := (stamps_isSome_iff fs ins).2 hin
      have h2 := (stamps_isSome_iff fs outs).2 hall
      cases hs : stamps fs ins with
      | none => rw [hs] at h1; simp at h1
      | some its =>
        cases hs2 : stamps fs outs with
        | none => rw [hs2] at h2; simp at h2
        | some ots =>
          simp only [Bool.false_eq_true, if_false]
          by_cases hemp : outs = []
          · subst hemp; simp
          · have : outs.isEmpty = false := by cases outs <;> simp_all
            simp only [this, Bool.false_eq_true, if_false, Option.some.injEq]
            have hn := newerThan_iff its ots
            have m1 := mem_stamps fs ins its hs
            have m2 := mem_stamps fs outs ots hs2
            constructor
            · intro hf
              refine ⟨hemp, hall, ?_⟩
              intro i hi o ho ti to hti hto
              by_cases hlt : to < ti
              · have : newerThan (maxTs its) (minTs ots) = true :=
                  hn.2 ⟨ti, (m1 ti).2 ⟨i, hi, hti⟩, to, (m2 to).2 ⟨o, ho, hto⟩, hlt⟩
                rw [hf] at this; simp at this
              · omega
            · rintro ⟨_, _, hle⟩
              cases hnt : newerThan (maxTs its) (minTs ots) with
              | false => rfl
              | true =>
                obtain ⟨ti, hti, to, hto, hlt⟩ := hn.1 hnt
                obtain ⟨i, hi, hfi⟩ := (m1 ti).1 hti
                obtain ⟨o, ho, hfo⟩ := (m2 to).1 hto
                have := hle i hi o ho ti to hfi hfo
                omega

/-- in every other case (inputs present) the decision is "should run" -/
theorem shouldRun_true_otherwise (fs : α → Option Nat) (sc : Bool) (ins outs : List α)
    (hin : ∀ i ∈ ins, (fs i).isSome)
    (h : ¬ (sc = false ∧ outs ≠ [] ∧ (∀ o ∈ outs, (fs o).isSome) ∧
      (∀ i ∈ ins, ∀ o ∈ outs, ∀ ti to, fs i = some ti → fs o = some to → ti ≤ to))) :
    shouldRun fs sc ins outs = some true := by
  obtain ⟨b, hb⟩ := shouldRun_total fs sc ins outs hin
  cases b with
  | true => exact hb
  | false => exact absurd ((shouldRun_false_iff fs sc ins outs hin).1 hb) h

/-- the decision depends only on the SET of declared paths: any two declarations whose flattened
    inputs resp. outputs have the same members decide alike -/
theorem shouldRun_set_irrelevant (fs : α → Option Nat) (sc : Bool) (ins ins' outs outs' : List α)
    (hi : ∀ p, p ∈ ins ↔ p ∈ ins') (ho : ∀ p, p ∈ outs ↔ p ∈ outs')
    (hin : ∀ i ∈ ins, (fs i).isSome) :
    shouldRun fs sc ins outs = shouldRun fs sc ins' outs' := by
  have hin' : ∀ i ∈ ins', (fs i).isSome := fun i h => hin i ((hi i).2 h)
  obtain ⟨b, hb⟩ := shouldRun_total fs sc ins outs hin
  obtain ⟨b', hb'⟩ := shouldRun_total fs sc ins' outs' hin'
  have e : (sc = false ∧ outs ≠ [] ∧ (∀ o ∈ outs, (fs o).isSome) ∧
      (∀ i ∈ ins, ∀ o ∈ outs, ∀ ti to, fs i = some ti → fs o = some to → ti ≤ to)) ↔
      (sc = false ∧ outs' ≠ [] ∧ (∀ o ∈ outs', (fs o).isSome) ∧
      (∀ i ∈ ins', ∀ o ∈ outs', ∀ ti to, fs i = some ti → fs o = some to → ti ≤ to)) := by
    have hne : outs ≠ [] ↔ outs' ≠ [] := by
      constructor
      · intro h h'; subst h'
        cases outs with
        | nil => exact h rfl
        | cons x xs => have := (ho x).1 (by simp); simp at this
      · intro h h'; subst h'
        cases outs' with
        | nil => exact h rfl
        | cons x xs => have := (ho x).2 (by simp); simp at this
    constructor
    · rintro ⟨a, b, c, d⟩
      exact ⟨a, hne.1 b, fun o h => c o ((ho o).2 h), fun i h1 o h2 => d i ((hi i).2 h1) o ((ho o).2 h2)⟩
    · rintro ⟨a, b, c, d⟩
      exact ⟨a, hne.2 b, fun o h => c o ((ho o).1 h), fun i h1 o h2 => d i ((hi i).1 h1) o ((ho o).1 h2)⟩
  rw [hb, hb']
  cases b <;> cases b' <;> try rfl
  · have := (shouldRun_false_iff fs sc ins outs hin).1 hb
    have := (shouldRun_false_iff fs sc ins' outs' hin').2 (e.1 this)
    rw [hb'] at this; exact this.symm
  · have := (shouldRun_false_iff fs sc ins' outs' hin').1 hb'
    have := (shouldRun_false_iff fs sc ins outs hin).2 (e.2 this)
    rw [hb] at this; exact this

/-- container shape is irrelevant: shapes with the same flattened members decide alike -/
theorem shouldRun_shape_irrelevant (fs : α → Option Nat) (sc : Bool) (i i' o o' : Shape α)
    (hi : ∀ p, p ∈ i.flatten ↔ p ∈ i'.flatten) (ho : ∀ p, p ∈ o.flatten ↔ p ∈ o'.flatten)
    (hin : ∀ p ∈ i.flatten, (fs p).isSome) :
    shouldRun fs sc i.flatten o.flatten = shouldRun fs sc i'.flatten o'.flatten :=
  shouldRun_set_irrelevant fs sc _ _ _ _ hi ho hin

/-- for a target with no pending/running/failed/cancelled job whose dependencies are all complete,
    the reported status is completed exactly when it is not stale, and shouldrun (and submitted by a
    run) otherwise -/
theorem status_file_based (w : Wf) (σ : Nat → Status) (hσ : IsStatusMap w σ) (t : Nat)
    (hb : w.bstat t = .unknown ∨ w.bstat t = .completed)
    (hd : ∀ d ∈ w.deps t, σ d = .completed) :
    (σ t = .completed ↔ w.stale t = false) ∧ (σ t = .shouldrun ↔ w.stale t = true) ∧
    (submits w σ t = true ↔ w.stale t = true) := by
  have hsub : subOf w σ t = [] := by
    simp only [subOf, List.filter_eq_nil_iff]
    intro d hd'
    rw [hd d hd']; decide
  rw [hσ t]; unfold submits decideT
  rw [hsub]
  rcases hb with hb | hb <;> rw [hb] <;> cases w.stale t <;> simp

/-! non-vacuity: an input strictly between two outputs is stale; a tie is up to date;
    an empty-dict output means "no outputs" and always runs -/
def exFs : String → Option Nat
  | "in" => some 5 | "o1" => some 3 | "o2" => some 7 | "tie" => some 5 | _ => none

example : shouldRun exFs false ["in"] ["o1", "o2"] = some true := by decide
example : shouldRun exFs false ["in"] ["tie", "o2"] = some false := by decide
example : shouldRun exFs false ["in"] (Shape.dict [("A", Shape.list [])]).flatten = some true := by decide
example : shouldRun exFs false ["in"] ["o2", "gone"] = some true := by decide
example : shouldRun exFs true ["in"] ["o2"] = some true := by decide

end Gwf.C01
