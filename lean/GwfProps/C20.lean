/-
  C20 — Configuration round-trips, is project-local, and reaches the selected backend.
-/
import GwfModel.Conf
namespace Gwf.C20
open Gwf Gwf.Conf

/-- generated-table obligations: the converter chain and the defaults are what the theorems assume -/
theorem converterOrder_spec : Generated.converterOrder = ["try_int", "try_true", "try_false", "str"] := by decide

theorem defaults_spec : Generated.configDefaults =
    [("verbose", .str "info"), ("clean_logs", .bool true), ("use_spec_hashes", .bool false)] := by decide

/-- **what is stored is what is read back** (in this and, the file being the user map itself, in
    every later invocation) -/
theorem set_get (c : Config) (k v : String) : ((c.set k v).reload).get? k = some (tryConv v) := by
  simp [Config.set, Config.get?, Config.reload, alook_aset_same]

/-- other keys are never disturbed by a set -/
theorem set_frames (c : Config) (k k' v : String) (h : k' ≠ k) : (c.set k v).get? k' = c.get? k' := by
  simp [Config.set, Config.get?, alook_aset_other _ _ _ _ h]

/-- unset removes only that key (which then reads as its default, if it has one) -/
theorem unset_that_key (c : Config) (k : String) : (c.unset k).get? k = alook k defaults := by
  simp [Config.unset, Config.get?, alook_aerase_same]

theorem unset_frames (c : Config) (k k' : String) (h : k' ≠ k) : (c.unset k).get? k' = c.get? k' := by
  simp [Config.unset, Config.get?, alook_aerase_other _ _ _ h]

theorem aerase_absent {β} (k : String) : ∀ (m : List (String × β)), alook k m = none → aerase k m = m
  | [], _ => rfl
  | (k', v) :: rest, h => by
    simp only [alook] at h
    split at h
    · simp at h
    · rename_i hne
      simp only [aerase, hne, if_false]
      rw [aerase_absent k rest h]

/-- unset is harmless for keys that are not set — including keys that only have a default -/
theorem unset_absent_noop (c : Config) (k : String) (h : alook k c.user = none) : c.unset k = c := by
  simp [Config.unset, aerase_absent k c.user h]

/-- **coercion**: integers (Python `int` syntax), then true/yes, then false/no, everything else is
    kept as text — total on all strings -/
theorem tryConv_cases (v : String) :
    tryConv v =
      match pyInt v.toList with
      | some i => .int i
      | none =>
        if v = "true" ∨ v = "yes" then .bool true
        else if v = "false" ∨ v = "no" then .bool false
        else .str v := by
  simp only [tryConv, converterOrder_spec, List.findSome?, applyConv]
  cases h : pyInt v.toList with
  | some i => simp
  | none =>
    simp only [Option.map_none]
    by_cases h1 : v = "true" ∨ v = "yes"
    · rcases h1 with h1 | h1 <;> simp [h1]
    · have : (v == "true" || v == "yes") = false := by simpa using h1
      simp only [this, Bool.false_eq_true, if_false, h1]
      by_cases h2 : v = "false" ∨ v = "no"
      · rcases h2 with h2 | h2 <;> simp [h2]
      · have : (v == "false" || v == "no") = false := by simpa using h2
        simp [this, h2]

theorem text_is_kept (v : String) (h1 : pyInt v.toList = none) (h2 : v ≠ "true") (h3 : v ≠ "yes")
    (h4 : v ≠ "false") (h5 : v ≠ "no") : tryConv v = .str v := by
  rw [tryConv_cases, h1]; simp [h2, h3, h4, h5]

example : tryConv "12" = .int 12 := by decide
example : tryConv " -1_000 " = .int (-1000) := by decide
example : tryConv "1__0" = .str "1__0" := by decide
example : tryConv "0x10" = .str "0x10" := by decide
example : tryConv "yes" = .bool true := by decide
example : tryConv "No" = .str "No" := by decide
example : tryConv "" = .str "" := by decide

theorem dropPrefix?_iff (pre s r : List Char) : dropPrefix? pre s = some r ↔ s = pre ++ r := by
  induction pre generalizing s with
  | nil => simp [dropPrefix?, eq_comm]
  | cons a as ih =>
    cases s with
    | nil => simp [dropPrefix?]
    | cons b bs =>
      simp only [dropPrefix?, List.cons_append, List.cons.injEq]
      by_cases hab : a = b
      · subst hab; simp [ih]
      · simp only [hab, if_false, false_and, iff_false]
        simp [eq_comm, hab]

/-- **the backend.<name>.* settings — and only those — are what `get_namespace` returns**:
    no key that merely shares a prefix (backend.slurmx.foo, backend.slurm itself) leaks in -/
theorem namespace_exact (c : Config) (ns k' : String) (v : CfgVal) :
    (k', v) ∈ c.namespace ns ↔ ∃ k, (k, v) ∈ c.items ∧ k.toList = ns.toList ++ '.' :: k'.toList := by
  simp only [Config.namespace, List.mem_filterMap, Option.map_eq_some_iff]
  constructor
  · rintro ⟨⟨k, v0⟩, hm, rest, hd, he⟩
    simp only [Prod.mk.injEq] at he
    obtain ⟨h1, h2⟩ := he
    subst h2
    refine ⟨k, hm, ?_⟩
    have := (dropPrefix?_iff _ _ _).1 hd
    rw [this, ← h1]; simp
  · rintro ⟨k, hm, hk⟩
    refine ⟨(k, v), hm, k'.toList, ?_, by simp⟩
    exact (dropPrefix?_iff _ _ _).2 (by rw [hk]; simp)

/-- the effective items are the user's entries plus the defaults they do not shadow -/
theorem items_iff (c : Config) (k : String) (v : CfgVal) (hn : (akeys c.user).Nodup) :
    alook k c.items = some v ↔ c.get? k = some v := by
  simp only [Config.items, Config.get?, alook_append]
  cases h : alook k c.user with
  | some u => simp
  | none =>
    simp only
    have : alook k (defaults.filter (fun p => (alook p.1 c.user).isNone)) = alook k defaults := by
      induction defaults with
      | nil => rfl
      | cons p rest ih =>
        obtain ⟨k0, v0⟩ := p
        simp only [List.filter_cons]
        by_cases hk : k0 = k
        · subst hk; simp [h, alook]
        · split
          · simp [alook, hk, ih]
          · simp [alook, hk, ih]
    rw [this]

/-- **precedence**: command-line flag over project configuration over default -/
theorem precedence {α} (flag conf : Option α) (d : α) :
    effective flag conf d = (match flag, conf with | some f, _ => f | none, some c => c | none, none => d) := by
  cases flag <;> cases conf <;> rfl

end Gwf.C20
