/-
  C18 — Spec hashes are recorded exactly on accepted submission, touch and clean.
-/
import GwfProps.C15
import GwfProps.C02
namespace Gwf.C18
open Gwf

/-- with hashing enabled a target is stale-by-spec iff its record differs from its current spec or
    is missing; with hashing disabled never -/
theorem specChanged_iff (w : World) (t : WT) :
    w.specChanged t = true ↔ w.hashing = true ∧ alook t.name w.hashes ≠ some t.spec := by
  simp [World.specChanged]

theorem disabled_ignores_edits (w : World) (t : WT) (h : w.hashing = false) : w.specChanged t = false := by
  simp [World.specChanged, h]

theorem first_use_everything_stale (w : World) (t : WT) (h : w.hashing = true) (hn : w.hashes = []) :
    w.specChanged t = true := by
  simp [World.specChanged, h, hn, alook]

/-- **an accepted submission records exactly that target's current spec** and leaves every other
    record alone; while hashing is disabled nothing is recorded -/
theorem submit_records (w : World) (wf : List WT) (t : Nat) (deps : List Nat) (n : String) :
    alook n (w.submit wf t deps).hashes =
      if w.hashing = true ∧ n = nameOf wf t then some ((wtOf wf t).map (·.spec) |>.getD "") else alook n w.hashes := by
  simp only [World.submit]
  cases hh : w.hashing with
  | false => simp
  | true =>
    by_cases hn : n = nameOf wf t
    · subst hn; simp [alook_aset_same]
    · simp [hn, alook_aset_other _ _ _ _ hn]

theorem submit_hashing (w : World) (wf : List WT) (t : Nat) (deps : List Nat) :
    (w.submit wf t deps).hashing = w.hashing := rfl

/-- a run records the specs of exactly the accepted targets: a target that is not among the accepted
    submissions (not planned, or after the rejected one) keeps its old record -/
theorem run_keeps_others (wf : List WT) (n : String) : ∀ (subs : List (Nat × List Nat)) (w : World),
    (∀ s ∈ subs, nameOf wf s.1 ≠ n) →
    alook n (subs.foldl (fun w s => w.submit wf s.1 s.2) w).hashes = alook n w.hashes
  | [], w, _ => rfl
  | s :: rest, w, h => by
    simp only [List.foldl_cons]
    rw [run_keeps_others wf n rest _ (fun s' hs' => h s' (List.mem_cons_of_mem _ hs'))]
    rw [submit_records]
    have : ¬ (w.hashing = true ∧ n = nameOf wf s.1) := fun hc => h s (by simp) hc.2.symm
    rw [if_neg this]

/-- status and dry-run have no way to change a record: they return no new state (see C05);
    a run while hashing is disabled leaves all records unchanged -/
theorem run_disabled_unchanged (wf : List WT) : ∀ (subs : List (Nat × List Nat)) (w : World), w.hashing = false →
    (subs.foldl (fun w s => w.submit wf s.1 s.2) w).hashes = w.hashes
  | [], _, _ => rfl
  | s :: rest, w, h => by
    simp only [List.foldl_cons]
    rw [run_disabled_unchanged wf rest _ (by rw [submit_hashing]; exact h)]
    simp [World.submit, h]

/-- touching a target records its current spec (hashing on), nothing else -/
theorem touchOne_records (w : World) (wf : List WT) (t : Nat) (wt : WT) (hwt : wtOf wf t = some wt) (n : String) :
    alook n (w.touchOne wf t).hashes = if w.hashing = true ∧ n = wt.name then some wt.spec else alook n w.hashes := by
  simp only [World.touchOne, hwt]
  cases hh : w.hashing with
  | false => simp
  | true =>
    by_cases hn : n = wt.name
    · subst hn; simp [alook_aset_same]
    · simp [hn, alook_aset_other _ _ _ _ hn]

/-- cleaning erases the records of exactly the cleaned targets (see C15.hashes_forgotten) -/
theorem clean_erases (w w' : World) (wf : List WT) (patterns : List String) (all : Bool) (g : Graph String)
    (hg : (w.proj wf none).graph = .ok g) (hc : w.clean wf patterns all = .ok w') (n : String) :
    alook n w'.hashes =
      if w.hashing = true ∧ ∃ t ∈ World.cleanMatches wf g patterns all, t.name = n then none else alook n w.hashes :=
  C15.hashes_forgotten w w' wf patterns all g hg hc n

/-- editing a spec re-runs that target: a stale target without a live job is submitted -/
theorem edited_target_is_submitted (b : BStatus) (hb : b = .unknown ∨ b = .completed) (sub : List Nat) :
    (decideT b sub true).2 = true := by
  rcases hb with h | h <;> subst h <;> cases hsub : sub.isEmpty <;> simp [decideT, hsub]

end Gwf.C18
