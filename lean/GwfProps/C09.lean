/-
  C09 — Interrupted runs neither forget nor duplicate jobs the scheduler accepted.

  Model of an interrupted `gwf run`: the plan is `subs`; the first `k` submissions were accepted AND
  recorded (the tracked-jobs file is rewritten atomically after every accepted submission), then the
  run stops — by a failing scheduler command / exception (the context managers still run: spec
  hashes are saved) or by a hard kill (they do not).  A state file is replaced atomically, so what is
  on disk is always one of the complete maps below.  The window between the scheduler accepting a
  job and gwf having recorded its id is NOT claimed (it is the theorem's exclusion: `k` counts the
  recorded submissions).
-/
import GwfProps.C18
import GwfProps.C07
namespace Gwf.C09
open Gwf

/-- the world after the first `k` submissions of the plan were accepted and recorded -/
def runPrefix (w : World) (wf : List WT) (subs : List (Nat × List Nat)) (k : Nat) : World :=
  (subs.take k).foldl (fun w s => w.submit wf s.1 s.2) w

/-- what is on disk (and in the cluster) after a hard kill at that point: spec hashes were not saved -/
def afterKill (w : World) (wf : List WT) (subs : List (Nat × List Nat)) (k : Nat) : World :=
  { runPrefix w wf subs k with hashes := w.hashes }

/-- after a failing scheduler command or another exception: both state files are saved on the way out -/
def afterException (w : World) (wf : List WT) (subs : List (Nat × List Nat)) (k : Nat) : World :=
  runPrefix w wf subs k

theorem submit_tracked_other (w : World) (wf : List WT) (t : Nat) (deps : List Nat) (n : String) (h : n ≠ nameOf wf t) :
    alook n (w.submit wf t deps).tracked = alook n w.tracked :=
  (C05.submit_effect w wf t deps).2.2.2 n h

theorem fold_tracked_other (wf : List WT) (n : String) : ∀ (subs : List (Nat × List Nat)) (w : World),
    (∀ s ∈ subs, nameOf wf s.1 ≠ n) →
    alook n (subs.foldl (fun w s => w.submit wf s.1 s.2) w).tracked = alook n w.tracked
  | [], _, _ => rfl
  | s :: rest, w, h => by
    simp only [List.foldl_cons]
    rw [fold_tracked_other wf n rest _ (fun s' hs' => h s' (List.mem_cons_of_mem _ hs'))]
    exact submit_tracked_other w wf s.1 s.2 n (fun e => h s (by simp) e.symm)

theorem fold_nextId (wf : List WT) : ∀ (subs : List (Nat × List Nat)) (w : World),
    (subs.foldl (fun w s => w.submit wf s.1 s.2) w).nextId = w.nextId + subs.length
  | [], _ => rfl
  | s :: rest, w => by
    simp only [List.foldl_cons, List.length_cons]
    rw [fold_nextId wf rest]
    simp only [World.submit]; omega

theorem tracked_at (wf : List WT) (w : World) (l : List (Nat × List Nat)) (i : Nat) (hik : i < l.length)
    (hrest : ∀ s ∈ l.drop (i + 1), nameOf wf s.1 ≠ nameOf wf l[i].1) :
    alook (nameOf wf l[i].1) (l.foldl (fun w s => w.submit wf s.1 s.2) w).tracked = some (toString (w.nextId + i)) := by
  have hsplit : l = l.take i ++ l[i] :: l.drop (i + 1) :=
    (List.take_append_drop i l).symm.trans (by rw [List.drop_eq_getElem_cons hik])
  have hfold : l.foldl (fun w s => w.submit wf s.1 s.2) w =
      (l.drop (i + 1)).foldl (fun w s => w.submit wf s.1 s.2)
        (((l.take i).foldl (fun w s => w.submit wf s.1 s.2) w).submit wf l[i].1 l[i].2) := by
    conv => lhs; rw [hsplit]
    rw [List.foldl_append, List.foldl_cons]
  rw [hfold, fold_tracked_other wf _ _ _ hrest, C07.submitted_is_tracked, fold_nextId]
  simp only [List.length_take]
  have : min i l.length = i := by omega
  rw [this]

/-- **no accepted-and-recorded job is forgotten**: the i-th submission of the plan (i < k) is on disk
    under its target's name with the id the scheduler returned — whatever happened afterwards
    (each target is submitted at most once per run: `hnd`, which is C02.submitted_once) -/
theorem no_forgotten_job (w : World) (wf : List WT) (subs : List (Nat × List Nat)) (k i : Nat)
    (hnd : (subs.map (fun s => nameOf wf s.1)).Nodup) (hi : i < k) (hk : k ≤ subs.length) :
    alook (nameOf wf (subs[i]'(by omega)).1) (afterKill w wf subs k).tracked = some (toString (w.nextId + i)) := by
  simp only [afterKill, runPrefix]
  have hik : i < (subs.take k).length := by simp; omega
  have hget : (subs.take k)[i] = subs[i]'(by omega) := by simp
  have hrest : ∀ s ∈ (subs.take k).drop (i + 1), nameOf wf s.1 ≠ nameOf wf (subs.take k)[i].1 := by
    intro s hs heq
    obtain ⟨j, hj, hsj⟩ := List.mem_iff_getElem.1 hs
    simp only [List.length_drop, List.length_take] at hj
    have e1 : ((subs.take k).drop (i + 1))[j] = subs[i + 1 + j]'(by omega) := by simp
    have h1 : i + 1 + j < (subs.map (fun s => nameOf wf s.1)).length := by simp; omega
    have h2 : i < (subs.map (fun s => nameOf wf s.1)).length := by simp; omega
    have heq' : (subs.map (fun s => nameOf wf s.1))[i + 1 + j] = (subs.map (fun s => nameOf wf s.1))[i] := by
      simp only [List.getElem_map]
      rw [← e1, hsj, heq, hget]
    have := (List.getElem_inj (h₀ := h1) (h₁ := h2) hnd).1 heq'
    omega
  have := tracked_at wf w (subs.take k) i hik hrest
  rw [hget] at this
  exact this

/-- a hard kill leaves the recorded spec hashes exactly as they were: a hash is never recorded for
    a submission that was not accepted -/
theorem kill_leaves_hashes (w : World) (wf : List WT) (subs : List (Nat × List Nat)) (k : Nat) :
    (afterKill w wf subs k).hashes = w.hashes := rfl

/-- after an exception the saved hashes differ from the old ones only for targets whose submission
    was accepted (those among the first `k` of the plan) -/
theorem exception_hashes_only_accepted (w : World) (wf : List WT) (subs : List (Nat × List Nat)) (k : Nat) (n : String)
    (hn : ∀ s ∈ subs.take k, nameOf wf s.1 ≠ n) :
    alook n (afterException w wf subs k).hashes = alook n w.hashes :=
  C18.run_keeps_others wf n (subs.take k) w hn

/-- an interrupted run touches no workflow file -/
theorem interrupted_run_files (w : World) (wf : List WT) (subs : List (Nat × List Nat)) (k : Nat) :
    (afterKill w wf subs k).files = w.files := by
  simp only [afterKill, runPrefix]
  generalize subs.take k = l
  induction l generalizing w with
  | nil => rfl
  | cons s rest ih => simp only [List.foldl_cons]; rw [ih]; rfl

/-- **the next invocation does not submit a second job for a target whose recorded job is still
    pending or running**: such a target's backend state is submitted/running (its tracked id names that
    job), and the scheduling pass never submits those (C02.never_resubmits_in_flight) -/
theorem recorded_live_job_is_in_flight (w' : World) (name jid : String) (j : Job)
    (ht : alook name w'.tracked = some jid) (hj : w'.job? jid = some j) (hlive : j.st = .pending ∨ j.st = .running) :
    w'.bstat name = .submitted ∨ w'.bstat name = .running := by
  simp only [World.bstat, ht, hj]
  rcases hlive with h | h <;> simp [h, JobSt.toBOn]

theorem in_flight_not_submitted (sub : List Nat) (stale : Bool) :
    (decideT .submitted sub stale).2 = false ∧ (decideT .running sub stale).2 = false := by
  simp [decideT]

end Gwf.C09
