/-
  C13 — Local pool: every task reaches the final state matching what happened to it.
-/
import GwfProps.Lemmas.PoolGlobal
namespace Gwf.C13
open Gwf Gwf.Pool

/-- **a finished task keeps its state: no label whatsoever changes it** (it is never run again,
    and cancelling it changes nothing) -/
theorem final_stable (c : Nat) (s s' : Pool) (l : Label) (h : Reachable c s) (hs : step s l = some s')
    (tid : Nat) (t : Task) (ht : s.task? tid = some t) (hd : t.phase = .done) : s'.task? tid = some t := by
  obtain ⟨hi, _⟩ := reachable_ginv h
  cases hl : l.tid? with
  | none =>
    cases l <;> simp only [Label.tid?, reduceCtorEq] at hl <;> simp only [step, Option.some.injEq] at hs <;> subst hs
    case enq deps limit => exact task?_append_old s _ tid t ht
    all_goals exact ht
  | some tid' =>
    obtain ⟨t0, t', h', ht0, hst, rfl⟩ := step_target s s' l tid' hl hs
    by_cases he : tid = tid'
    · subst he
      rw [ht] at ht0; simp only [Option.some.injEq] at ht0; subst ht0
      have := (stepTask_done s tid t t' _ h' l (hi.inv.tasks tid t ht) rfl hd hst).1
      subst this
      exact task?_set_same s tid t' t' _ ht
    · rw [task?_set_other s tid' tid t' _ he]; exact ht

/-- cancelling a finished task changes nothing at all -/
theorem cancel_finished_noop (c : Nat) (s : Pool) (h : Reachable c s) (tid : Nat) (t : Task)
    (ht : s.task? tid = some t) (hd : t.phase = .done) : step s (.cancelReq tid) = some s := by
  obtain ⟨hi, _⟩ := reachable_ginv h
  have hf := ((hi.inv.tasks tid t ht).done_final hd).1
  rw [step_eq s (.cancelReq tid) tid rfl, ht]
  have hne : (t.st == .submitted || t.st == .running) = false := by
    cases hst : t.st <;> simp_all [LStatus.final]
  simp only [stepTask, hne]
  have : s.tasks.set tid t = s.tasks := by
    simp only [Pool.task?] at ht
    apply List.ext_getElem?
    intro i
    rw [List.getElem?_set]
    split
    · rename_i he; subst he
      split
      · exact ht.symm
      · rename_i hn; rw [List.getElem?_eq_none (Nat.le_of_not_lt hn)] at ht; simp at ht
    · rfl
  simp [HoldEff.apply, this]

/-- a finished task is in a final state, holds no core and has no process -/
theorem done_is_final (c : Nat) (s : Pool) (h : Reachable c s) (tid : Nat) (t : Task)
    (ht : s.task? tid = some t) (hd : t.phase = .done) :
    (t.st = .completed ∨ t.st = .failed ∨ t.st = .killed ∨ t.st = .cancelled) ∧ tid ∉ s.holders ∧ t.alive = false := by
  obtain ⟨hi, _⟩ := reachable_ginv h
  have hti := hi.inv.tasks tid t ht
  obtain ⟨a, b, cc⟩ := hti.done_final hd
  refine ⟨?_, by simpa [Pool.holds] using b, cc⟩
  have := hti.st_known
  cases hst : t.st <;> simp_all [LStatus.final]

/-- **the state matches what happened** (for every task in every reachable state):
    COMPLETED iff its process ran and exited 0 with logs written, not cancelled, not timed out;
    FAILED only after a non-zero exit, a failure to start the process or to write the logs, a failed
    dependency (or an unknown one); KILLED only after exceeding a time limit (or a killed dependency);
    CANCELLED only after a cancel request for it or a cancelled dependency -/
theorem final_matches (c : Nat) (s : Pool) (h : Reachable c s) (tid : Nat) (t : Task) (ht : s.task? tid = some t) :
    (t.st = .completed ↔ t.hist = .ranExit 0) ∧
    (t.st = .completed → t.spawned = true ∧ t.exitCode = some 0 ∧ t.cancelReq = false) ∧
    (t.st = .failed → (∃ x, t.hist = .ranExit x ∧ x ≠ 0 ∧ t.spawned = true) ∨ (t.hist = .logFailed ∧ t.spawned = true)
        ∨ t.hist = .spawnFailed ∨ t.hist = .depBad .failed ∨ t.hist = .unknownDep) ∧
    (t.st = .killed → (t.hist = .timedOut ∧ t.spawned = true ∧ t.limit ≠ none) ∨ t.hist = .depBad .killed) ∧
    (t.st = .cancelled → t.hist = .cancelled ∨ t.hist = .depBad .cancelled) ∧
    (t.cancelReq = true → t.st = .cancelled) := by
  obtain ⟨hi, _⟩ := reachable_ginv h
  have hti := hi.inv.tasks tid t ht
  refine ⟨⟨fun hc => (hti.completed_ran hc).2.2.1, fun hh => ?_⟩,
    fun hc => ⟨(hti.completed_ran hc).1, (hti.completed_ran hc).2.1, (hti.completed_ran hc).2.2.2⟩,
    hti.failed_hist, hti.killed_hist, hti.cancelled_hist, hti.cancel_st⟩
  rcases hti.ranExit_st 0 hh with ⟨_, h2⟩ | ⟨h1, _⟩
  · exact h2
  · exact absurd rfl h1

/-- a process is started at most once per task: the start label is enabled only for a task that was
    never started, and `spawned` never reverts -/
theorem never_run_again (s s' : Pool) (tid : Nat) (hs : step s (.spawn tid) = some s') :
    (∃ t, s.task? tid = some t ∧ t.spawned = false) ∧ (∃ t', s'.task? tid = some t' ∧ t'.spawned = true) := by
  obtain ⟨t, t', h, ht, hst, rfl⟩ := step_target s s' (.spawn tid) tid rfl hs
  simp only [stepTask] at hst
  split at hst
  · rename_i hg
    simp only [Bool.and_eq_true, Bool.not_eq_true'] at hg
    simp only [Option.some.injEq, Prod.mk.injEq] at hst
    obtain ⟨rfl, rfl⟩ := hst
    exact ⟨⟨t, ht, hg.1.1.2⟩, ⟨_, task?_set_same s tid t _ _ ht, rfl⟩⟩
  · split at hst
    · rename_i hg
      simp only [Bool.and_eq_true, Bool.not_eq_true'] at hg
      simp only [Option.some.injEq, Prod.mk.injEq] at hst
      obtain ⟨rfl, rfl⟩ := hst
      exact ⟨⟨t, ht, hg.1.1.2⟩, ⟨_, task?_set_same s tid t _ _ ht, rfl⟩⟩
    · simp at hst

/-- the core of a task is given back only when its process no longer exists (in particular after the
    kill sequence of a cancelled or timed-out task) -/
theorem no_process_after_release (c : Nat) (s : Pool) (h : Reachable c s) (tid : Nat) (t : Task)
    (ht : s.task? tid = some t) (hnh : tid ∉ s.holders) : t.alive = false := by
  obtain ⟨hi, _⟩ := reachable_ginv h
  cases ha : t.alive with
  | false => rfl
  | true =>
    have := ((hi.inv.tasks tid t ht).alive_held ha).1
    simp [Pool.holds] at this
    exact absurd this hnh

/-- **every accepted task eventually reaches a final state**: when nothing inside the pool can move,
    no process is alive and no kill sequence is pending, every task is finished (with at least one
    core configured and dependencies referring to earlier tasks, as clients produce them) -/
theorem eventually_final (c : Nat) (s : Pool) (h : Reachable c s) (hc : 0 < c) (hq : s.quiescent = true)
    (hna : ∀ tid t, s.task? tid = some t → t.alive = false)
    (hnk : ∀ tid t, s.task? tid = some t → t.phase ≠ .killT ∧ t.phase ≠ .killC)
    (hback : ∀ tid t, s.task? tid = some t → ∀ d ∈ t.deps, d < tid) :
    ∀ tid t, s.task? tid = some t → t.phase = .done := by
  obtain ⟨hi, hmc⟩ := reachable_ginv h
  have hqt : ∀ tid t, s.task? tid = some t → s.parked t = true := by
    intro tid t ht
    have hlt : tid < s.tasks.length := by
      simp only [Pool.task?] at ht
      rcases Nat.lt_or_ge tid s.tasks.length with hl | hl
      · exact hl
      · rw [List.getElem?_eq_none hl] at ht; simp at ht
    simp only [Pool.quiescent, List.all_eq_true, List.mem_range] at hq
    have := hq tid hlt
    simp only [Pool.task?] at ht
    simpa [ht] using this
  -- no task holds a core: a holder would be starting/running/killing/failing/finishing, none of which is parked
  have hnoholder : s.holders = [] := by
    cases hh : s.holders with
    | nil => rfl
    | cons x rest =>
      have hx : x ∈ s.holders := by rw [hh]; simp
      have hxlt := hi.valid x hx
      cases htx : s.task? x with
      | none => simp only [Pool.task?] at htx; rw [List.getElem?_eq_none_iff] at htx; omega
      | some tx =>
        have hheld : s.holds x = true := by simpa [Pool.holds] using hx
        have hph := (hi.inv.tasks x tx htx).held_phase hheld
        have hqx := hqt x tx htx
        have hax := hna x tx htx
        have hkx := hnk x tx htx
        rcases hph with hp | hp | hp | hp | hp | hp <;> simp_all [Pool.parked]
  intro tid
  induction tid using Nat.strongRecOn with
  | _ tid ih =>
    intro t ht
    have hqx := hqt tid t ht
    have hax := hna tid t ht
    have hkx := hnk tid t ht
    have hh0 : s.holders.length = 0 := by rw [hnoholder]; rfl
    cases hp : t.phase with
    | done => rfl
    | waiting =>
      simp only [Pool.parked, hp, Bool.and_eq_true, Bool.not_eq_true', List.any_eq_true, List.all_eq_true,
        decide_eq_true_eq] at hqx
      obtain ⟨⟨_, d, hd, hnd⟩, hknown⟩ := hqx
      have hdlt := hback tid t ht d hd
      have hdk := hknown d hd
      cases htd : s.task? d with
      | none => simp only [Pool.task?] at htd; rw [List.getElem?_eq_none_iff] at htd; omega
      | some td =>
        have := ih d hdlt td htd
        simp [Pool.depDone, htd, this] at hnd
    | waitCore =>
      simp only [Pool.parked, hp, Bool.and_eq_true, decide_eq_true_eq] at hqx
      omega
    | running => simp [Pool.parked, hp, hax] at hqx
    | killT => exact absurd hp hkx.1
    | killC => exact absurd hp hkx.2
    | starting => simp [Pool.parked, hp] at hqx
    | failing => simp [Pool.parked, hp] at hqx
    | finishing => simp [Pool.parked, hp] at hqx
    | closing => simp [Pool.parked, hp] at hqx

/-! non-vacuity: a history with a time-out, a cancel while running and a spawn failure, accepted by the LTS -/
def exTrace : List Label :=
  [.enq [] (some 2), .acqReq 0, .acq 0, .set 0 .running, .spawn 0,
   .enq [] none, .acqReq 1, .acq 1, .set 1 .running, .spawn 1,
   .tick 2, .kill 0, .exit 0 (-9), .cancelReq 1, .set 1 .cancelled, .kill 1, .exit 1 (-9), .tick 1,
   .set 0 .killed, .rel 0, .taskDone 0 false, .set 1 .cancelled, .rel 1, .taskDone 1 false,
   .enq [] none, .acqReq 2, .acq 2, .set 2 .running, .spawnFail 2, .set 2 .failed, .rel 2, .taskDone 2 false]

example : ((run (init 2) exTrace).map (fun s => (s.tasks.map (·.st), s.holders, s.quiescent))) =
    some ([.killed, .cancelled, .failed], [], true) := by decide

end Gwf.C13
