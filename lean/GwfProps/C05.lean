/-
  C05 — status, dry-run and run agree, and the two previews change nothing.
-/
import GwfProps.C02
import GwfModel.World
namespace Gwf.C05
open Gwf

section
variable (w : Wf) (σ : Nat → Status) (hσ : IsStatusMap w σ) (rank : Nat → Nat)
  (hr : ∀ t d, d ∈ w.deps t → rank d < rank t) (fuel : Nat) (hf : ∀ t, rank t < fuel) (eps : List Nat)
include hσ hr hf

/-- **one pass, two readings**: a target is submitted by the scheduling pass iff the very same pass
    reports it as shouldrun, failed or cancelled.  `gwf status` shows the `cache`, `gwf run --dry-run`
    and `gwf run` announce / submit the `chron` of this pass. -/
theorem submitted_iff_shown_needing_run (t : Nat) :
    t ∈ (schedule w fuel eps).chron.map Prod.fst ↔
      ∃ s, alook t (schedule w fuel eps).cache = some s ∧ (s = .shouldrun ∨ s = .failed ∨ s = .cancelled) := by
  rw [C02.submitted_iff w σ hσ rank hr fuel hf eps t]
  constructor
  · rintro ⟨hc, hs⟩
    exact ⟨σ t, (C02.status_correct w σ hσ rank hr fuel hf eps t).1 hc, (C02.status_iff_submits w σ hσ t).1 hs⟩
  · rintro ⟨s, hl, hs⟩
    by_cases hc : InCone w eps t
    · have := (C02.status_correct w σ hσ rank hr fuel hf eps t).1 hc
      rw [this] at hl; simp only [Option.some.injEq] at hl; subst hl
      exact ⟨hc, (C02.status_iff_submits w σ hσ t).2 hs⟩
    · have := (C02.status_correct w σ hσ rank hr fuel hf eps t).2 hc
      rw [this] at hl; simp at hl

/-- submitted / running / completed targets are shown as such and are not submitted -/
theorem shown_in_flight_or_complete_not_submitted (t : Nat) (s : Status)
    (hl : alook t (schedule w fuel eps).cache = some s) (hs : s = .submitted ∨ s = .running ∨ s = .completed) :
    t ∉ (schedule w fuel eps).chron.map Prod.fst := by
  intro hm
  obtain ⟨s', hl', hs'⟩ := (submitted_iff_shown_needing_run w σ hσ rank hr fuel hf eps t).1 hm
  rw [hl] at hl'; simp only [Option.some.injEq] at hl'; subst hl'
  rcases hs with h | h | h <;> rcases hs' with h' | h' | h' <;> simp_all

/-- the status a selection-restricted pass (patterns) shows for a target equals the status the
    full table shows for it: every restricted view is a restriction of ONE table -/
theorem restricted_pass_same_status (eps' : List Nat) (t : Nat) (h1 : InCone w eps t) (h2 : InCone w eps' t) :
    alook t (schedule w fuel eps).cache = alook t (schedule w fuel eps').cache :=
  C02.status_independent_of_endpoints w σ hσ rank hr fuel hf eps eps' t h1 h2

end

/-- dry-run and run are computed from the same plan: `run` submits exactly what `dry-run` announces,
    in the same order (in the model this holds by construction: both read `World.plan`) -/
theorem run_submits_the_plan (w : World) (wf : List WT) (patterns : List String) (subs : List (Nat × List Nat))
    (hp : w.plan wf patterns = .ok subs) :
    w.run wf patterns = .ok (subs.foldl (fun w s => w.submit wf s.1 s.2) w) := by
  simp [World.run, hp]

/-- each accepted submission adds exactly one pending job whose prerequisites are the tracked ids of
    the named dependencies, tracks it under the target's name, and touches no file -/
theorem submit_effect (w : World) (wf : List WT) (t : Nat) (deps : List Nat) :
    let w' := w.submit wf t deps
    w'.files = w.files ∧ w'.jobs.length = w.jobs.length + 1 ∧
    alook (nameOf wf t) w'.tracked = some (toString w.nextId) ∧
    (∀ n, n ≠ nameOf wf t → alook n w'.tracked = alook n w.tracked) := by
  refine ⟨rfl, by simp [World.submit], alook_aset_same _ _ _, fun n hn => alook_aset_other _ _ _ _ hn⟩

/-- every combination of status, name and endpoint filters shows exactly the rows of the one table
    that satisfy all given restrictions -/
theorem filters_restrict (w : World) (wf : List WT) (sts : List Status) (ep : Bool) (patterns : List String)
    (g : Graph String) (rows frows : List (Nat × Status))
    (hg : (w.proj wf none).graph = .ok g) (hrows : w.status wf = .ok rows)
    (hf : w.statusFiltered wf sts ep patterns = .ok frows) (r : Nat × Status) :
    r ∈ frows ↔ r ∈ rows ∧ (sts = [] ∨ r.2 ∈ sts) ∧
      (patterns = [] ∨ ∃ p ∈ patterns, Glob.globMatch p (nameOf wf r.1) = true) ∧
      (ep = false ∨ r.1 ∈ g.endpoints) := by
  simp only [World.statusFiltered, hg, hrows, Except.ok.injEq] at hf
  subst hf
  simp only [List.mem_filter, Bool.and_eq_true, Bool.or_eq_true, List.isEmpty_iff, List.contains_iff_mem,
    List.elem_eq_mem, decide_eq_true_eq, List.any_eq_true, Bool.not_eq_true']
  constructor
  · rintro ⟨h1, ⟨h2, h3⟩, h4⟩
    exact ⟨h1, h2, h3, h4⟩
  · rintro ⟨h1, h2, h3, h4⟩
    exact ⟨h1, ⟨h2, h3⟩, h4⟩

/-- an invalid workflow: status, dry-run, run, touch, clean and cancel all fail with the graph's
    error and produce no new state -/
theorem commands_inert_on_error (w : World) (wf : List WT) (e : GErr) (patterns : List String) (all : Bool)
    (hg : (w.proj wf none).graph = .error e)
    (hsel : ∀ eps, (w.proj wf eps).graph = (w.proj wf none).graph) :
    w.status wf = .error e ∧ w.plan wf patterns = .error e ∧ w.run wf patterns = .error e ∧
    w.touch wf patterns = .error e ∧ w.clean wf patterns all = .error e ∧ w.cancel wf patterns = .error e := by
  have hplan : ∀ eps, (w.proj wf eps).plan = .error e := by
    intro eps
    simp only [Proj.plan, hsel eps, hg]
  refine ⟨by simp [World.status, hplan], by simp [World.plan, hplan], by simp [World.run, World.plan, hplan],
    by simp [World.touch, hg], by simp [World.clean, hg], by simp [World.cancel, World.cancelCmds, hg]⟩

/-- the graph does not depend on the requested endpoints (discharges `hsel` above) -/
theorem graph_indep_of_selection (w : World) (wf : List WT) (eps : Option (List Nat)) :
    (w.proj wf eps).graph = (w.proj wf none).graph := rfl

end Gwf.C05
