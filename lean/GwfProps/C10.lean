/-
  C10 — Job scripts run the spec faithfully with the resolved resource options.
-/
import GwfModel.Script
import GwfProps.Lemmas.ShellLemmas
namespace Gwf.C10
open Gwf Gwf.Script

/-- generated-table obligations -/
theorem slurmOptionStr_spec : Generated.slurmOptionStr = "#SBATCH {0}{1}" := by decide
theorem every_slurm_option_has_a_flag : ∀ p ∈ Generated.slurmDefaults, (alook p.1 Generated.slurmFlags).isSome = true := by decide
theorem every_sge_option_has_a_flag : ∀ p ∈ Generated.sgeDefaults, (alook p.1 Generated.sgeFlags).isSome = true := by decide

theorem rev_ind {α} {P : List α → Prop} (h0 : P []) (hs : ∀ l a, P l → P (l ++ [a])) : ∀ l, P l := by
  intro l
  have : ∀ r : List α, P r.reverse := by
    intro r
    induction r with
    | nil => exact h0
    | cons a r ih => simpa using hs r.reverse a ih
  simpa using this l.reverse

theorem update_snoc (base upd : Opts) (p : String × CfgVal) :
    update base (upd ++ [p]) = aset p.1 p.2 (update base upd) := by
  simp [update, List.foldl_append]

/-- a later source that defines the option wins -/
theorem update_defined (base : Opts) : ∀ (upd : Opts) (k : String) (v : CfgVal),
    (akeys upd).Nodup → alook k upd = some v → alook k (update base upd) = some v := by
  intro upd
  induction upd using rev_ind with
  | h0 => intro k v _ h; simp [alook] at h
  | hs rest p ih =>
    intro k v hn h
    rw [update_snoc]
    have hn' : (akeys rest).Nodup ∧ p.1 ∉ akeys rest := by
      simp only [akeys, List.map_append, List.map_cons, List.map_nil] at hn
      have := List.nodup_append.1 hn
      exact ⟨this.1, fun hm => this.2.2 p.1 hm p.1 (by simp) rfl⟩
    by_cases hk : p.1 = k
    · rw [alook_append] at h
      have hnone : alook k rest = none := alook_none_of_not_mem k rest (hk ▸ hn'.2)
      rw [hnone] at h
      obtain ⟨pk, pv⟩ := p
      simp only at hk; subst hk
      simp only [alook, if_true, Option.some.injEq] at h
      subst h
      exact alook_aset_same _ _ _
    · rw [alook_aset_other _ _ _ _ (Ne.symm hk)]
      apply ih k v hn'.1
      rw [alook_append] at h
      cases hr : alook k rest with
      | some x => rw [hr] at h; exact h
      | none =>
        rw [hr] at h
        obtain ⟨pk, pv⟩ := p
        simp only [alook] at h
        simp only at hk
        simp [hk] at h

/-- a source that does not define the option leaves the earlier value -/
theorem update_undefined (base : Opts) : ∀ (upd : Opts) (k : String), alook k upd = none →
    alook k (update base upd) = alook k base := by
  intro upd
  induction upd using rev_ind with
  | h0 => intro k _; rfl
  | hs rest p ih =>
    intro k h
    rw [update_snoc]
    rw [alook_append] at h
    cases hr : alook k rest with
    | some x => rw [hr] at h; simp at h
    | none =>
      rw [hr] at h
      obtain ⟨pk, pv⟩ := p
      simp only [alook] at h
      have hk : pk ≠ k := by
        intro e; simp [e] at h
      rw [alook_aset_other _ _ _ _ (Ne.symm hk)]
      exact ih k hr

/-- **options the backend does not know never reach the script, options resolved to None are
    omitted, and no option appears twice** -/
theorem resolved_options (defaults targetOpts : Opts) (hd : (akeys defaults).Nodup) :
    (∀ p ∈ resolve defaults targetOpts, p.1 ∈ akeys defaults ∧ p.2 ≠ .none) ∧
    (akeys (resolve defaults targetOpts)).Nodup := by
  constructor
  · intro p hp
    simp only [resolve, List.mem_filter, Bool.and_eq_true, List.contains_iff_mem, List.elem_eq_mem,
      decide_eq_true_eq, bne_iff_ne, ne_eq] at hp
    exact ⟨hp.2.1, hp.2.2⟩
  · -- updating keeps the key list duplicate-free; filtering keeps a sublist
    have hupd : ∀ (upd base : Opts), (akeys base).Nodup → (akeys (update base upd)).Nodup := by
      intro upd
      induction upd using rev_ind with
      | h0 => intro base h; exact h
      | hs rest p ih =>
        intro base h
        rw [update_snoc]
        have hset : ∀ (m : Opts) (k : String) (v : CfgVal), (akeys m).Nodup → (akeys (aset k v m)).Nodup := by
          intro m
          induction m with
          | nil => intro k v _; simp [aset, akeys]
          | cons q rest' ihm =>
            intro k v hn
            obtain ⟨qk, qv⟩ := q
            simp only [akeys, List.map_cons, List.nodup_cons] at hn
            simp only [aset]
            split
            · rename_i he; subst he
              simp only [akeys, List.map_cons, List.nodup_cons]; exact hn
            · rename_i hne
              simp only [akeys, List.map_cons, List.nodup_cons]
              refine ⟨?_, ihm k v hn.2⟩
              intro hm
              have : ∀ (m : Opts) (x : String), x ∈ akeys (aset k v m) → x = k ∨ x ∈ akeys m := by
                intro m
                induction m with
                | nil => intro x hx; simp [aset, akeys] at hx; exact Or.inl hx
                | cons r rs ihr =>
                  intro x hx
                  obtain ⟨rk, rv⟩ := r
                  simp only [aset] at hx
                  split at hx
                  · simp only [akeys, List.map_cons, List.mem_cons] at hx ⊢
                    rcases hx with h1 | h1
                    · exact Or.inl h1
                    · exact Or.inr (Or.inr h1)
                  · simp only [akeys, List.map_cons, List.mem_cons] at hx ⊢
                    rcases hx with h1 | h1
                    · exact Or.inr (Or.inl h1)
                    · rcases ihr x h1 with h2 | h2
                      · exact Or.inl h2
                      · exact Or.inr (Or.inr h2)
              rcases this rest' qk hm with h1 | h1
              · exact hne h1
              · exact hn.1 h1
        exact hset _ _ _ (ih base h)
    have hsub : (akeys (resolve defaults targetOpts)).Sublist (akeys (update defaults targetOpts)) := by
      simp only [resolve, akeys]
      exact List.Sublist.map _ List.filter_sublist
    exact List.Nodup.sublist hsub (hupd targetOpts defaults hd)

/-- the names that are dropped with a warning are exactly the target's options the backend lacks -/
theorem unknown_iff (defaults targetOpts : Opts) (k : String) :
    k ∈ unknownOptions defaults targetOpts ↔ k ∈ akeys targetOpts ∧ k ∉ akeys defaults := by
  simp [unknownOptions, List.mem_filter]

/-- **the working directory survives the shell intact, whatever characters it contains**: the `cd`
    line splits, under POSIX quoting rules, into exactly the two words `cd` and the directory -/
theorem cd_roundtrip (wd : String) :
    Shell.words (cdLine wd).toList = [['c', 'd'], wd.toList] := by
  have : (cdLine wd).toList = ['c', 'd', ' '] ++ Shell.quote wd.toList := by
    simp [cdLine, String.toList_append]
  rw [this]; exact Shell.cd_roundtrip wd.toList

/-- the unquoted form used before the repair does not: a directory with a space splits in three -/
example : Shell.words ("cd " ++ "a b").toList ≠ [['c', 'd'], "a b".toList] := by decide

/-- the spec is the verbatim tail of every script, after `cd` and `set -e` -/
theorem spec_is_tail_slurm (projDir logMode name wd spec : String) (opts : Opts) :
    ∃ pre, compileSlurm projDir logMode name wd spec opts = lines (pre ++ [cdLine wd, "export GWF_JOBID=$SLURM_JOBID",
      "export GWF_TARGET_NAME=\"" ++ name ++ "\"", "set -e", "", ensureNl spec]) := by
  refine ⟨["#!/bin/bash", "# Generated by: gwf", "#SBATCH --job-name=" ++ name]
    ++ opts.map (fun p => "#SBATCH " ++ flagOf Generated.slurmFlags p.1 ++ pyStr p.2)
    ++ (if logMode == "full" then ["#SBATCH --output=" ++ logPath projDir name ".stdout", "#SBATCH --error=" ++ logPath projDir name ".stderr"]
        else if logMode == "merged" then ["#SBATCH --output=" ++ logPath projDir name ".stdout"]
        else if logMode == "none" then ["#SBATCH --output=/dev/null"] else []) ++ [""], ?_⟩
  simp [compileSlurm, List.append_assoc]

theorem spec_is_tail_sge (projDir name wd spec : String) (opts : Opts) :
    ∃ pre, compileSge projDir name wd spec opts = lines (pre ++ [cdLine wd, "export GWF_JOBID=$SGE_JOBID",
      "export GWF_TARGET_NAME=\"" ++ name ++ "\"", "set -e", "", ensureNl spec]) := by
  refine ⟨["#!/bin/bash", "# Generated by: gwf", "#$ -N " ++ name, "#$ -V", "#$ -w v", "#$ -cwd"]
    ++ opts.map (fun p => "#$ " ++ flagOf Generated.sgeFlags p.1 ++
        (if p.1 == "memory" then sgeMemory p.2 ((alook "cores" opts).getD (.int 1)) else pyStr p.2))
    ++ ["#$ -o " ++ logPath projDir name ".stdout", "#$ -e " ++ logPath projDir name ".stderr"] ++ [""], ?_⟩
  simp [compileSge, List.append_assoc]

theorem spec_is_tail_lsf (projDir name wd spec : String) (opts : Opts) :
    ∃ pre, compileLsf projDir name wd spec opts = lines (pre ++ [cdLine wd, "set -e", "", ensureNl spec]) := by
  exact ⟨["#!/bin/bash", _, "", "# Generated by: gwf", ""], rfl⟩

/-- the spec text is kept verbatim; only a missing final newline is added -/
theorem ensureNl_spec (s : String) : ensureNl s = s ∨ ensureNl s = s ++ "\n" := by
  simp only [ensureNl]
  split
  · rename_i h; right; simp [String.isEmpty_iff] at h; simp [h]
  · split
    · exact Or.inl rfl
    · exact Or.inr rfl

/-- SGE memory is converted to memory per core (floor), keeping the unit -/
example : sgeMemory (.str "16g") (.int 4) = "4g" := by decide
example : sgeMemory (.str "1g") (.int 4) = "0g" := by decide
example : sgeMemory (.str "512mb") (.int 1) = "512mb" := by decide

theorem stem_examples : stem "align.sample1.stdout" = "align.sample1" ∧ stem "A.stderr" = "A" ∧ stem "README" = "README"
    ∧ stem ".hidden" = ".hidden" := by decide

/-- **a later run deletes only log files whose stem is not a current target name** (so never the
    logs of a target still in the workflow, whatever dots its name contains) -/
theorem cleanLogs_safe (files targets : List String) (f : String) (h : f ∈ cleanLogs files targets) :
    f ∈ files ∧ ∃ s, s ∉ targets ∧ (f = s ++ ".stdout" ∨ f = s ++ ".stderr") := by
  simp only [cleanLogs, List.mem_flatMap, List.mem_filter, Bool.not_eq_true', List.contains_iff_mem,
    List.elem_eq_mem, decide_eq_false_iff_not] at h
  obtain ⟨s, ⟨_, hs⟩, hf⟩ := h
  split at hf
  · rename_i h1
    simp only [List.mem_append, List.mem_singleton] at hf
    rcases hf with rfl | hf
    · exact ⟨by simpa using h1, s, hs, Or.inl rfl⟩
    · split at hf
      · rename_i h2
        simp only [List.mem_singleton] at hf; subst hf
        exact ⟨by simpa using h2, s, hs, Or.inr rfl⟩
      · simp at hf
  · simp at hf

/-- the paths in the log directives are the paths `gwf logs` opens: `<project>/.gwf/logs/<target>.stdout|.stderr` -/
theorem log_paths (projDir name : String) :
    logPath projDir name ".stdout" = joinPath [projDir, ".gwf", "logs", name ++ ".stdout"] ∧
    logPath projDir name ".stderr" = joinPath [projDir, ".gwf", "logs", name ++ ".stderr"] := ⟨rfl, rfl⟩

example : logPath "/p" "A.b" ".stdout" = "/p/.gwf/logs/A.b.stdout" := by decide

/-! ### SGE: total memory becomes memory per core -/

/-- the decimal value of a digit string, as `int()` reads it -/
def digitsVal (ds : List Char) : Nat := ds.foldl (fun n c => n * 10 + (c.toNat - 48)) 0

theorem filter_digits_append (ds u : List Char) (hd : ∀ c ∈ ds, c.isDigit = true) (hu : ∀ c ∈ u, c.isDigit = false) :
    (ds ++ u).filter Char.isDigit = ds ∧ (ds ++ u).filter (fun c => !c.isDigit) = u := by
  constructor
  · rw [List.filter_append]
    have h1 : ds.filter Char.isDigit = ds := List.filter_eq_self.2 hd
    have h2 : u.filter Char.isDigit = [] := List.filter_eq_nil_iff.2 (fun c hc => by simp [hu c hc])
    rw [h1, h2]; simp
  · rw [List.filter_append]
    have h1 : ds.filter (fun c => !c.isDigit) = [] := List.filter_eq_nil_iff.2 (fun c hc => by simp [hd c hc])
    have h2 : u.filter (fun c => !c.isDigit) = u := List.filter_eq_self.2 (fun c hc => by simp [hu c hc])
    rw [h1, h2]; simp

/-- **SGE gets memory PER CORE**: a total of `<number><unit>` on `c` cores is written as
    `⌊number / c⌋<unit>` (the unit — any digit-free suffix — is kept as it is) -/
theorem sge_memory_per_core (ds u : List Char) (c : Nat)
    (hd : ∀ x ∈ ds, x.isDigit = true) (hu : ∀ x ∈ u, x.isDigit = false) :
    sgeMemory (.str (String.ofList (ds ++ u))) (.int c) = toString (digitsVal ds / c) ++ String.ofList u := by
  obtain ⟨h1, h2⟩ := filter_digits_append ds u hd hu
  simp only [sgeMemory, pyStr, digitsOf, nonDigits, String.toList_ofList, h1, h2, Int.toNat_natCast, digitsVal]

example : sgeMemory (.str "16g") (.int 4) = "4g" := by decide
example : sgeMemory (.str "1g") (.int 4) = "0g" := by decide     -- floor division: the N4 note of the design

end Gwf.C10
