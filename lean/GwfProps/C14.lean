/-
  C14 — Worker pool server survives misbehaving clients and keeps tasks and ids intact.
-/
import GwfModel.Server
namespace Gwf.C14
open Gwf Gwf.Srv

/-- **whatever a client sends that is not a well-formed enqueue or a cancel of a known task —
    garbage bytes, JSON of the wrong shape, unknown or incomplete requests, a cancel without or with an
    unknown id, a disconnect — the task table is untouched; at most that client's connection ends** -/
theorem bad_request_leaves_pool (t : Tbl) (r : Req) (h : r.inert = true) : (handle t r).1 = t := by
  cases r <;> simp [Req.inert] at h <;> simp [handle]

theorem unknown_cancel_leaves_pool (t : Tbl) (tid : Nat) (h : t.tasks.length ≤ tid) :
    (handle t (.cancel tid)).1 = t := by
  simp [handle, Nat.not_lt.2 h]

/-- cancelling keeps every other task's state and the number of tasks -/
theorem cancel_frame (t : Tbl) (tid k : Nat) (hk : k ≠ tid) :
    (t.cancel tid).tasks[k]? = t.tasks[k]? ∧ (t.cancel tid).tasks.length = t.tasks.length := by
  simp only [Tbl.cancel]
  cases h : t.tasks[tid]? with
  | none => exact ⟨rfl, rfl⟩
  | some s =>
    simp only
    split
    · exact ⟨by simp [List.getElem?_set_ne (Ne.symm hk)], by simp⟩
    · exact ⟨rfl, rfl⟩

/-- progress made by the pool on one task keeps every other task's state and all ids -/
theorem advance_frame (t : Tbl) (tid k : Nat) (s : LStatus) (hk : k ≠ tid) :
    (t.advance tid s).tasks[k]? = t.tasks[k]? ∧ (t.advance tid s).tasks.length = t.tasks.length := by
  simp only [Tbl.advance]
  cases h : t.tasks[tid]? with
  | none => exact ⟨rfl, rfl⟩
  | some c =>
    simp only
    split
    · exact ⟨by simp [List.getElem?_set_ne (Ne.symm hk)], by simp⟩
    · exact ⟨rfl, rfl⟩

/-- the number of tasks never decreases, so an accepted task keeps its id for ever -/
theorem tasks_monotone (t : Tbl) (r : Req) : t.tasks.length ≤ (handle t r).1.tasks.length := by
  cases r <;> simp [handle]
  case cancel tid =>
    split
    · simp only [Tbl.cancel]
      cases t.tasks[tid]? with
      | none => simp
      | some s => simp only; split <;> simp
    · simp

/-- **every accepted task gets an id no other task of the pool shares**: the id is the number of tasks
    accepted before it, for any interleaving of any clients' requests, any number of tasks -/
theorem enqueue_id_is_fresh (t : Tbl) (extra : Bool) :
    (handle t (.enqueue extra)).2.1 = some (.enqueued t.tasks.length) ∧
    (handle t (.enqueue extra)).1.tasks.length = t.tasks.length + 1 := by
  simp [handle]

theorem resp_enqueued (t : Tbl) (r : Req) (tid : Nat) (h : (handle t r).2.1 = some (.enqueued tid)) :
    (∃ extra, r = .enqueue extra) ∧ tid = t.tasks.length ∧ (handle t r).1.tasks.length = t.tasks.length + 1 := by
  cases r <;> simp [handle] at h
  case enqueue extra => exact ⟨⟨extra, rfl⟩, h.symm, by simp [handle]⟩
  case cancel tid' => split at h <;> simp at h

theorem runAll_monotone : ∀ (reqs : List (Nat × Req)) (t : Tbl), t.tasks.length ≤ (runAll t reqs).1.tasks.length
  | [], _ => by simp [runAll]
  | (c, r) :: rest, t => by
    simp only [runAll]
    have := tasks_monotone t r
    have := runAll_monotone rest (handle t r).1
    omega

theorem ids_strictly_increase : ∀ (reqs : List (Nat × Req)) (t : Tbl) (c : Nat) (tid : Nat),
    (c, Resp.enqueued tid) ∈ (runAll t reqs).2 → t.tasks.length ≤ tid ∧ tid < (runAll t reqs).1.tasks.length
  | [], t, c, tid, h => by simp [runAll] at h
  | (c0, r) :: rest, t, c, tid, h => by
    simp only [runAll] at h ⊢
    have hmono := tasks_monotone t r
    have ih := ids_strictly_increase rest (handle t r).1 c tid
    cases hresp : (handle t r).2.1 with
    | none =>
      simp only [hresp] at h
      have := ih h
      exact ⟨by omega, this.2⟩
    | some x =>
      simp only [hresp, List.mem_cons, Prod.mk.injEq] at h
      rcases h with ⟨_, hx⟩ | h
      · subst hx
        obtain ⟨_, htid, hlen⟩ := resp_enqueued t r tid hresp
        have := runAll_monotone rest (handle t r).1
        exact ⟨by omega, by omega⟩
      · have := ih h
        exact ⟨by omega, this.2⟩

/-- two accepted tasks never share an id -/
theorem tids_unique (reqs : List (Nat × Req)) (t : Tbl) :
    ((runAll t reqs).2.filterMap (fun p => match p.2 with | .enqueued tid => some tid | _ => none)).Nodup := by
  induction reqs generalizing t with
  | nil => simp [runAll]
  | cons p rest ih =>
    obtain ⟨c0, r⟩ := p
    simp only [runAll]
    cases hresp : (handle t r).2.1 with
    | none => simp only [hresp]; exact ih _
    | some x =>
      simp only [hresp, List.filterMap_cons]
      cases x with
      | state s => exact ih _
      | states tbl => exact ih _
      | enqueued tid =>
        simp only [List.nodup_cons]
        refine ⟨?_, ih _⟩
        intro hm
        simp only [List.mem_filterMap] at hm
        obtain ⟨⟨c, rp⟩, hmem, hrp⟩ := hm
        cases rp with
        | enqueued tid' =>
          simp only [Option.some.injEq] at hrp; subst hrp
          have := (ids_strictly_increase rest (handle t r).1 c tid' hmem).1
          obtain ⟨_, htid, hlen⟩ := resp_enqueued t r tid' hresp
          omega
        | state s => simp at hrp
        | states tbl => simp at hrp

/-- **a state query returns each task's state under its own id**: the i-th row is (i, state of task i) -/
theorem states_reply_true (t : Tbl) (i : Nat) (s : LStatus) :
    (i, s) ∈ t.table ↔ t.tasks[i]? = some s := by
  simp only [Tbl.table]
  constructor
  · intro h
    obtain ⟨k, hk, he⟩ := List.mem_iff_getElem.1 h
    simp only [List.getElem_zip, List.getElem_range, Prod.mk.injEq] at he
    obtain ⟨rfl, rfl⟩ := he
    simp only [List.length_zip, List.length_range, Nat.min_self] at hk
    simp [hk]
  · intro h
    have hlt : i < t.tasks.length := by
      rcases Nat.lt_or_ge i t.tasks.length with hl | hl
      · exact hl
      · rw [List.getElem?_eq_none hl] at h; simp at h
    apply List.mem_iff_getElem.2
    refine ⟨i, by simp [hlt], ?_⟩
    simp only [List.getElem_zip, List.getElem_range]
    rw [List.getElem?_eq_getElem hlt] at h
    simp at h; simp [h]

theorem get_state_own (t : Tbl) (tid : Nat) : (handle t (.getState tid)).2.1 = some (.state t.tasks[tid]?) := by
  simp [handle]

/-- **other clients are unaffected**: inert requests — from whichever connection, at whatever point of
    the interleaving — can be removed without changing the table or any other reply -/
theorem inert_requests_invisible : ∀ (reqs : List (Nat × Req)) (t : Tbl),
    (runAll t (reqs.filter (fun p => !p.2.inert))).1 = (runAll t reqs).1
  | [], _ => rfl
  | (c, r) :: rest, t => by
    simp only [List.filter_cons]
    cases hi : r.inert with
    | true =>
      simp only [Bool.not_true, Bool.false_eq_true, if_false, runAll]
      rw [bad_request_leaves_pool t r hi]
      exact inert_requests_invisible rest t
    | false =>
      simp only [Bool.not_false, if_true, runAll]
      exact inert_requests_invisible rest _

/-- after any history the server still accepts a new task (it never enters a state that refuses) -/
theorem still_accepts (reqs : List (Nat × Req)) (t : Tbl) :
    ∃ tid, (handle (runAll t reqs).1 (.enqueue false)).2.1 = some (.enqueued tid) :=
  ⟨(runAll t reqs).1.tasks.length, by simp [handle]⟩

/-! non-vacuity -/
example : (runAll {} [(1, .enqueue false), (2, .notJson), (2, .cancel 7), (1, .enqueue false), (3, .eof), (1, .getStates)]).2
    = [(1, .enqueued 0), (1, .enqueued 1), (1, .states [(0, .submitted), (1, .submitted)])] := by decide

end Gwf.C14
