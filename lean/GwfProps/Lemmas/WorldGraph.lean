/- Glue between the world model (workflow as a list of `WT`, files as an association list) and the
   graph theorems of C03 / C04, so that command-level theorems need no hypotheses about the graph. -/
import GwfProps.C03
import GwfProps.C04
import GwfProps.Lemmas.TouchLemmas
import GwfProps.Lemmas.TouchOrder
namespace Gwf

/-- the workflow as the graph builder sees it -/
def wfTgts (dir : String) (wf : List WT) : List (Tgt String) :=
  wf.map (fun t => { id := t.id, ins := t.insAbs dir, outs := t.outsAbs dir })

theorem proj_tgts (w : World) (wf : List WT) (eps : Option (List Nat)) :
    (w.proj wf eps).tgts = wfTgts w.dir wf := by
  simp only [Proj.tgts, World.proj, wfTgts, List.map_map]
  apply List.map_congr_left
  intro t _
  simp [Function.comp, World.raw, RawTgt.toTgt, WT.insAbs, WT.outsAbs]

theorem wtOf_mem (wf : List WT) (hid : ∀ a ∈ wf, ∀ b ∈ wf, a.id = b.id → a = b) (a : WT) (ha : a ∈ wf) :
    wtOf wf a.id = some a := by
  simp only [wtOf]
  cases h : wf.find? (fun t => t.id == a.id) with
  | none =>
    have := List.find?_eq_none.1 h a ha
    simp at this
  | some b =>
    have hb := List.mem_of_find?_eq_some h
    have he := List.find?_some h
    simp only [beq_iff_eq] at he
    rw [hid b hb a ha he]

theorem wtOf_some_mem {wf : List WT} {t : Nat} {a : WT} (h : wtOf wf t = some a) : a ∈ wf ∧ a.id = t := by
  simp only [wtOf] at h
  exact ⟨List.mem_of_find?_eq_some h, by have := List.find?_some h; simpa using this⟩

theorem wfTgts_ids (dir : String) (wf : List WT) (hid : ∀ a ∈ wf, ∀ b ∈ wf, a.id = b.id → a = b) :
    ∀ t ∈ wfTgts dir wf, ∀ u ∈ wfTgts dir wf, t.id = u.id → t = u := by
  intro t ht u hu e
  simp only [wfTgts, List.mem_map] at ht hu
  obtain ⟨a, ha, rfl⟩ := ht
  obtain ⟨b, hb, rfl⟩ := hu
  have := hid a ha b hb e
  subst this; rfl

theorem outsF_of (dir : String) (wf : List WT) (hid : ∀ a ∈ wf, ∀ b ∈ wf, a.id = b.id → a = b) (a : WT) (ha : a ∈ wf) :
    C16.outsF dir wf a.id = a.outsAbs dir ∧ C16.insF dir wf a.id = a.insAbs dir := by
  simp [C16.outsF, C16.insF, wtOf_mem wf hid a ha]

/-- a path produced by a touched/drained target is an output of a workflow target -/
theorem producedBy_wf (dir : String) (wf : List WT) (l : List Nat) (q : String)
    (h : producedBy (C16.outsF dir wf) l q) : ∃ u ∈ l, ∃ a ∈ wf, a.id = u ∧ q ∈ a.outsAbs dir := by
  obtain ⟨u, hu, hq⟩ := h
  simp only [C16.outsF] at hq
  cases hw : wtOf wf u with
  | none => rw [hw] at hq; simp at hq
  | some a =>
    rw [hw] at hq
    obtain ⟨ha, hid'⟩ := wtOf_some_mem hw
    exact ⟨u, hu, a, ha, hid', by simpa using hq⟩

theorem alook_map_some (i : String) : ∀ (fs : List (String × Nat)),
    alook i (fs.map (fun p => (p.1, some p.2))) = (alook i fs).map some
  | [] => rfl
  | (k, v) :: rest => by
    simp only [List.map_cons, alook]
    split
    · rfl
    · exact alook_map_some i rest

/-- a file the project snapshot knows exists in the world's file table -/
theorem fsFn_isSome (w : World) (wf : List WT) (eps : Option (List Nat)) (i : String)
    (h : ((w.proj wf eps).fsFn i).isSome = true) : ∃ m, alook i w.files = some m := by
  simp only [Proj.fsFn, World.proj, alook_map_some] at h
  cases hm : alook i w.files with
  | none => rw [hm] at h; simp at h
  | some m => exact ⟨m, rfl⟩

/-- the graph of the world's project is the graph of `wfTgts` -/
theorem world_graph (w : World) (wf : List WT) (eps : Option (List Nat)) (g : Graph String)
    (hg : (w.proj wf eps).graph = .ok g) :
    buildGraph (wfTgts w.dir wf) (fun path => ((w.proj wf eps).fsFn path).isSome) = .ok g := by
  simp only [Proj.graph, proj_tgts] at hg
  exact hg

theorem mem_wfTgts (dir : String) (wf : List WT) (a : WT) (ha : a ∈ wf) :
    ({ id := a.id, ins := a.insAbs dir, outs := a.outsAbs dir } : Tgt String) ∈ wfTgts dir wf :=
  List.mem_map.2 ⟨a, ha, rfl⟩

/-- the two hypotheses of the stamping lemma (`stampSeq_uptodate`), from a VALID graph: no file has two
    producers, and every input of a processed target is produced by a target processed earlier, or by
    nobody in the sequence and present and not future-dated — given that every dependency of a processed
    target is processed earlier or is outside the sequence with its outputs present -/
theorem stamp_hyps (w : World) (wf : List WT) (g : Graph String)
    (hg : (w.proj wf none).graph = .ok g)
    (hid : ∀ a ∈ wf, ∀ b ∈ wf, a.id = b.id → a = b)
    (hnow : ∀ p m, alook p w.files = some m → m ≤ w.clock)
    (order : List Nat)
    (hbefore : ∀ p t r, order = p ++ t :: r → ∀ d ∈ g.depsOf t,
        d ∈ p ∨ (d ∉ order ∧ ∀ q ∈ C16.outsF w.dir wf d, ∃ m, alook q w.files = some m)) :
    (∀ x ∈ order, ∀ y ∈ order, x ≠ y → ∀ q, q ∈ C16.outsF w.dir wf x → q ∉ C16.outsF w.dir wf y) ∧
    (∀ p r t, order = p ++ t :: r → ∀ i ∈ C16.insF w.dir wf t,
      producedBy (C16.outsF w.dir wf) p i ∨
      (¬ producedBy (C16.outsF w.dir wf) order i ∧ ∃ m, alook i w.files = some m ∧ m ≤ w.clock)) := by
  have hg' := world_graph w wf none g hg
  have hidT := wfTgts_ids w.dir wf hid
  obtain ⟨_, hsrc, _⟩ := (C04.build_ok_iff (wfTgts w.dir wf) _ hidT).1 ⟨g, hg'⟩
  -- one producer per file
  have hprod1 : ∀ (A B : WT), A ∈ wf → B ∈ wf → ∀ q, q ∈ A.outsAbs w.dir → q ∈ B.outsAbs w.dir → A.id = B.id := by
    intro A B hA hB q hqA hqB
    have h1 := (C03.provides_functional (wfTgts w.dir wf) _ g hg' hidT q A.id).2 ⟨_, mem_wfTgts w.dir wf A hA, rfl, hqA⟩
    have h2 := (C03.provides_functional (wfTgts w.dir wf) _ g hg' hidT q B.id).2 ⟨_, mem_wfTgts w.dir wf B hB, rfl, hqB⟩
    rw [h1] at h2
    exact Option.some.inj h2
  refine ⟨?_, ?_⟩
  · intro x _ y _ hxy q hqx hqy
    obtain ⟨_, _, A, hA, hAx, hqA⟩ := producedBy_wf w.dir wf [x] q ⟨x, by simp, hqx⟩
    obtain ⟨_, _, B, hB, hBy, hqB⟩ := producedBy_wf w.dir wf [y] q ⟨y, by simp, hqy⟩
    simp only [List.mem_singleton] at *
    have := hprod1 A B hA hB q hqA hqB
    omega
  · intro p r t hsplit i hi
    simp only [C16.insF] at hi
    cases hw : wtOf wf t with
    | none => rw [hw] at hi; simp at hi
    | some B =>
      rw [hw] at hi
      have hi' : i ∈ B.insAbs w.dir := by simpa using hi
      obtain ⟨hB, hBt⟩ := wtOf_some_mem hw
      by_cases hex : ∃ A ∈ wf, i ∈ A.outsAbs w.dir
      · obtain ⟨A, hA, hiA⟩ := hex
        have hdep : A.id ∈ g.depsOf B.id :=
          (C03.deps_iff (wfTgts w.dir wf) _ g hg' hidT _ (mem_wfTgts w.dir wf B hB) A.id).2
            ⟨_, mem_wfTgts w.dir wf A hA, rfl, i, hi', hiA⟩
        rw [hBt] at hdep
        rcases hbefore p t r hsplit A.id hdep with hp | ⟨hnot, hpresent⟩
        · left
          exact ⟨A.id, hp, by rw [(outsF_of w.dir wf hid A hA).1]; exact hiA⟩
        · right
          refine ⟨?_, ?_⟩
          · intro h
            obtain ⟨u, hu, A', hA', hAu, hq⟩ := producedBy_wf w.dir wf order i h
            have := hprod1 A A' hA hA' i hiA hq
            exact hnot (by rw [this, hAu]; exact hu)
          · obtain ⟨m, hm⟩ := hpresent i (by rw [(outsF_of w.dir wf hid A hA).1]; exact hiA)
            exact ⟨m, hm, hnow i m hm⟩
      · right
        refine ⟨?_, ?_⟩
        · intro h
          obtain ⟨_, _, A, hA, _, hq⟩ := producedBy_wf w.dir wf order i h
          exact hex ⟨A, hA, hq⟩
        · have hexists := hsrc _ (mem_wfTgts w.dir wf B hB) i hi' (by
            intro A' hA' hiA'
            simp only [wfTgts, List.mem_map] at hA'
            obtain ⟨A, hA, rfl⟩ := hA'
            exact hex ⟨A, hA, hiA'⟩)
          obtain ⟨m, hm⟩ := fsFn_isSome w wf none i hexists
          exact ⟨m, hm, hnow i m hm⟩

theorem fsFn_eq (w : World) (wf : List WT) (eps : Option (List Nat)) :
    (w.proj wf eps).fsFn = fun p => alook p w.files := by
  funext i
  simp only [Proj.fsFn, World.proj, alook_map_some]
  cases alook i w.files <;> rfl

theorem raw?_of_mem (w : World) (wf : List WT) (eps : Option (List Nat))
    (hid : ∀ a ∈ wf, ∀ b ∈ wf, a.id = b.id → a = b) (a : WT) (ha : a ∈ wf) :
    (w.proj wf eps).raw? a.id = some (w.raw a) := by
  simp only [Proj.raw?, World.proj]
  rw [List.find?_map]
  have h := wtOf_mem wf hid a ha
  simp only [wtOf] at h
  have hfun : ((fun r : RawTgt => r.id == a.id) ∘ w.raw) = (fun t : WT => t.id == a.id) := by
    funext t; simp [World.raw]
  rw [hfun, h]; rfl

/-- **what the scheduling pass sees**: a target whose recorded spec is current and whose files are up
    to date (all outputs present, no input newer than an output) is NOT stale in the workflow handed
    to `schedule` -/
theorem not_stale_of_uptodate (w : World) (wf : List WT) (g : Graph String) (eps : Option (List Nat))
    (hid : ∀ a ∈ wf, ∀ b ∈ wf, a.id = b.id → a = b) (a : WT) (ha : a ∈ wf)
    (hspec : w.specChanged a = false)
    (h : shouldRun (fun p => alook p w.files) false (a.insAbs w.dir) (a.outsAbs w.dir) = some false) :
    ((w.proj wf eps).wf g).stale a.id = false := by
  simp only [Proj.wf, Proj.shouldRun?, raw?_of_mem w wf eps hid a ha, fsFn_eq]
  have : (w.raw a).specChanged = false := by simp [World.raw, hspec]
  rw [this]
  have hc : (w.proj wf eps).cwd = w.dir := rfl
  have e1 : ((w.raw a).toTgt (w.proj wf eps).cwd).ins = a.insAbs w.dir := by
    simp [RawTgt.toTgt, World.raw, WT.insAbs, hc]
  have e2 : ((w.raw a).toTgt (w.proj wf eps).cwd).outs = a.outsAbs w.dir := by
    simp [RawTgt.toTgt, World.raw, WT.outsAbs, hc]
  rw [e1, e2, h]; rfl

end Gwf
