/- The cluster finishing the jobs of a run, one after the other, seen on the world model. -/
import GwfProps.C16
namespace Gwf

/-- the cluster finishes, successfully, the job gwf tracks for target `t` -/
def World.finishT (w : World) (wf : List WT) (t : Nat) : World :=
  match alook (nameOf wf t) w.tracked with
  | some jid => w.finishJob wf jid true
  | none => w

/-- target `t` of the workflow has a tracked job that the cluster knows and that was submitted for `t` -/
def TrackedJob (w : World) (wf : List WT) (t : Nat) : Prop :=
  ∃ wt jid j, wtOf wf t = some wt ∧ alook wt.name w.tracked = some jid ∧ w.job? jid = some j ∧
    j.name = wt.name ∧ wf.find? (fun x => x.name == wt.name) = some wt

theorem find?_map_id (f : Job → Job) (hf : ∀ j, (f j).id = j.id) (x : String) : ∀ (l : List Job),
    (l.map f).find? (fun j => j.id == x) = (l.find? (fun j => j.id == x)).map f
  | [] => rfl
  | j :: rest => by
    simp only [List.map_cons, List.find?_cons, hf]
    cases h : (j.id == x)
    · simpa using find?_map_id f hf x rest
    · simp

theorem nameOf_of_wtOf {wf : List WT} {t : Nat} {wt : WT} (h : wtOf wf t = some wt) : nameOf wf t = wt.name := by
  simp only [nameOf, wtOf] at *
  rw [h]; rfl

/-- what finishing the job of `t` changes: the clock ticks, exactly `t`'s declared outputs get the new
    stamp, the tracked map is untouched and every job keeps its id and target name -/
theorem finishT_fields (w : World) (wf : List WT) (t : Nat) (h : TrackedJob w wf t) :
    (w.finishT wf t).dir = w.dir ∧ (w.finishT wf t).clock = w.clock + 1 ∧
    (w.finishT wf t).tracked = w.tracked ∧
    (w.finishT wf t).files = setAll (C16.outsF w.dir wf t) (w.clock + 1) w.files ∧
    (∀ x, ((w.finishT wf t).job? x).map (·.name) = (w.job? x).map (·.name)) := by
  obtain ⟨wt, jid, j, hwt, htr, hj, hname, hfind⟩ := h
  have hn := nameOf_of_wtOf hwt
  simp only [World.finishT, hn, htr, World.finishJob, hj, hname, hfind, Bool.not_true, Bool.false_eq_true, ↓reduceIte]
  refine ⟨trivial, trivial, trivial, ?_, ?_⟩
  · simp only [C16.outsF, hwt, setAll]
    rfl
  · intro x
    simp only [World.job?]
    rw [find?_map_id _ (by intro j; by_cases h : (j.id == jid) = true <;> simp [h]) x]
    cases hx : w.jobs.find? (fun j => j.id == x) with
    | none => rfl
    | some y =>
      simp only [Option.map_some, Option.some.injEq]
      split <;> rfl

/-- finishing jobs never touches the recorded specs -/
theorem finishT_hashes (w : World) (wf : List WT) (t : Nat) :
    (w.finishT wf t).hashes = w.hashes ∧ (w.finishT wf t).hashing = w.hashing := by
  simp only [World.finishT]
  cases alook (nameOf wf t) w.tracked with
  | none => exact ⟨rfl, rfl⟩
  | some jid =>
    simp only [World.finishJob]
    cases w.job? jid with
    | none => exact ⟨rfl, rfl⟩
    | some j =>
      simp only [Bool.not_true, Bool.false_eq_true, ↓reduceIte]
      cases wf.find? (fun t => t.name == j.name) with
      | none => exact ⟨rfl, rfl⟩
      | some wt => exact ⟨rfl, rfl⟩

theorem drain_hashes (wf : List WT) : ∀ (order : List Nat) (w : World),
    (order.foldl (fun w t => w.finishT wf t) w).hashes = w.hashes ∧
    (order.foldl (fun w t => w.finishT wf t) w).hashing = w.hashing
  | [], _ => ⟨rfl, rfl⟩
  | t :: rest, w => by
    simp only [List.foldl_cons]
    rw [(drain_hashes wf rest (w.finishT wf t)).1, (drain_hashes wf rest (w.finishT wf t)).2]
    exact finishT_hashes w wf t

theorem trackedJob_preserved (w : World) (wf : List WT) (t u : Nat) (ht : TrackedJob w wf t) (hu : TrackedJob w wf u) :
    TrackedJob (w.finishT wf t) wf u := by
  obtain ⟨_, _, htr, _, hjobs⟩ := finishT_fields w wf t ht
  obtain ⟨wt, jid, j, hwt, htrk, hj, hname, hfind⟩ := hu
  have := hjobs jid
  rw [hj] at this
  cases hj' : (w.finishT wf t).job? jid with
  | none => rw [hj'] at this; simp at this
  | some j' =>
    rw [hj'] at this
    simp only [Option.map_some, Option.some.injEq] at this
    exact ⟨wt, jid, j', hwt, by rw [htr]; exact htrk, hj', by rw [this]; exact hname, hfind⟩

/-- the files after the cluster finished the jobs of `order` one after the other are the
    clock-stamped sequence (the same function as for `gwf touch`) -/
theorem drain_files_eq (wf : List WT) : ∀ (order : List Nat) (w : World), (∀ t ∈ order, TrackedJob w wf t) →
    (order.foldl (fun w t => w.finishT wf t) w).files = stampSeq (C16.outsF w.dir wf) order w.clock w.files ∧
    (order.foldl (fun w t => w.finishT wf t) w).tracked = w.tracked
  | [], _, _ => ⟨rfl, rfl⟩
  | t :: rest, w, h => by
    have ht := h t (by simp)
    obtain ⟨h1, h2, h3, h4, _⟩ := finishT_fields w wf t ht
    have ih := drain_files_eq wf rest (w.finishT wf t)
      (fun u hu => trackedJob_preserved w wf t u ht (h u (by simp [hu])))
    simp only [List.foldl_cons, stampSeq]
    rw [ih.1, ih.2, h1, h2, h3, h4]
    exact ⟨rfl, rfl⟩

end Gwf
