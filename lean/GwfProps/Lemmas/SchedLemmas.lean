/-
  Lemmas for the scheduling pass: the memoised DFS refines the declarative status map.
-/
import GwfModel.Sched
namespace Gwf

/-- Generated-table obligation: `SUBMITTED_STATES` is "everything but COMPLETED". -/
theorem inSubmitted_spec (s : Status) : inSubmitted s = (s != .completed) := by
  cases s <;> decide

/-- the dependencies of `t` whose status is in SUBMITTED_STATES under `σ` -/
def subOf (w : Wf) (σ : Nat → Status) (t : Nat) : List Nat :=
  (w.deps t).filter (fun d => inSubmitted (σ d))

/-- `σ` is a status map of `w`: the declarative fixpoint the DFS computes -/
def IsStatusMap (w : Wf) (σ : Nat → Status) : Prop :=
  ∀ t, σ t = (decideT (w.bstat t) (subOf w σ t) (w.stale t)).1

/-- `submit_func` is called for `t` -/
def submits (w : Wf) (σ : Nat → Status) (t : Nat) : Bool :=
  (decideT (w.bstat t) (subOf w σ t) (w.stale t)).2

/-- reflexive-transitive closure of `deps` -/
inductive Reach (w : Wf) : Nat → Nat → Prop
  | refl (t : Nat) : Reach w t t
  | step {t u d : Nat} : Reach w t u → d ∈ w.deps u → Reach w t d

theorem Reach.trans {w : Wf} {a b c : Nat} (h1 : Reach w a b) (h2 : Reach w b c) : Reach w a c := by
  induction h2 with
  | refl => exact h1
  | step _ hd ih => exact Reach.step ih hd

theorem Reach.rank_le {w : Wf} {rank : Nat → Nat} (hr : ∀ t d, d ∈ w.deps t → rank d < rank t)
    {a b : Nat} (h : Reach w a b) : rank b ≤ rank a := by
  induction h with
  | refl => exact Nat.le_refl _
  | step _ hd ih => have := hr _ _ hd; omega

def expectedLog (w : Wf) (σ : Nat → Status) (c : List (Nat × Status)) : List (Nat × List Nat) :=
  c.filterMap (fun p => if submits w σ p.1 then some (p.1, subOf w σ p.1) else none)

/-- post-order: every node is new and all its dependencies were cached before it (newest first) -/
def PostOrd (w : Wf) : List (Nat × Status) → Prop
  | [] => True
  | (t, _) :: rest => t ∉ akeys rest ∧ (∀ d ∈ w.deps t, d ∈ akeys rest) ∧ PostOrd w rest

structure Inv (w : Wf) (σ : Nat → Status) (st : SState) : Prop where
  cache_ok : ∀ t s, alook t st.cache = some s → s = σ t
  log_eq : st.log = expectedLog w σ st.cache
  post : PostOrd w st.cache

theorem expectedLog_append (w : Wf) (σ) (a b) :
    expectedLog w σ (a ++ b) = expectedLog w σ a ++ expectedLog w σ b := by
  simp [expectedLog, List.filterMap_append]

theorem akeys_append {α β} (a b : List (α × β)) : akeys (a ++ b) = akeys a ++ akeys b := by
  simp [akeys]

theorem mem_akeys_of_alook {α β} [DecidableEq α] {k : α} {v : β} {m : List (α × β)}
    (h : alook k m = some v) : k ∈ akeys m := by
  have := (alook_isSome_iff_mem_keys k m).1 (by simp [h])
  exact this

/-- what the visit of one node must guarantee (for an ARBITRARY visitor `vis`) -/
def VisitOK (w : Wf) (σ : Nat → Status) (rank : Nat → Nat) (vis : SState → Nat → SState × Status) (d : Nat) : Prop :=
  ∀ st, Inv w σ st →
    Inv w σ (vis st d).1 ∧ (vis st d).2 = σ d ∧ alook d (vis st d).1.cache = some (σ d)
      ∧ ∃ ext, (vis st d).1.cache = ext ++ st.cache ∧ ∀ k ∈ akeys ext, rank k ≤ rank d ∧ Reach w d k

theorem fold_spec (w : Wf) (σ : Nat → Status) (rank : Nat → Nat) (vis : SState → Nat → SState × Status)
    (t : Nat) :
    ∀ (l : List Nat), (∀ d ∈ l, VisitOK w σ rank vis d ∧ rank d < rank t ∧ d ∈ w.deps t) →
    ∀ (st : SState) (sub : List Nat), Inv w σ st →
      let r := l.foldl (depStep vis) (st, sub)
      Inv w σ r.1 ∧ r.2 = sub ++ l.filter (fun d => inSubmitted (σ d))
        ∧ (∃ ext, r.1.cache = ext ++ st.cache ∧ ∀ k ∈ akeys ext, rank k < rank t ∧ Reach w t k)
        ∧ (∀ d ∈ l, d ∈ akeys r.1.cache) := by
  intro l
  induction l with
  | nil => intro _ st sub h; exact ⟨h, by simp, ⟨[], by simp [akeys]⟩, by simp⟩
  | cons d rest ih =>
    intro hv st sub h
    have hd := (hv d (by simp)).1 st h
    have hdb := (hv d (by simp)).2
    obtain ⟨hInv, hres, hlook, ext, hext, hrk⟩ := hd
    have ih' := ih (fun d' hd' => hv d' (by simp [hd'])) (vis st d).1
      (if inSubmitted (vis st d).2 then sub ++ [d] else sub) hInv
    simp only [List.foldl_cons, depStep]
    obtain ⟨i1, i2, ⟨ext2, i3, i3k⟩, i4⟩ := ih'
    refine ⟨i1, ?_, ⟨ext2 ++ ext, ?_, ?_⟩, ?_⟩
    · rw [i2, hres]; simp only [List.filter_cons]; split <;> simp
    · rw [i3, hext]; simp
    · intro k hk
      rw [akeys_append, List.mem_append] at hk
      rcases hk with hk | hk
      · exact i3k k hk
      · have := hrk k hk
        exact ⟨by omega, Reach.trans (Reach.step (Reach.refl t) hdb.2) this.2⟩
    · intro d' hd'
      simp only [List.mem_cons] at hd'
      rcases hd' with hd' | hd'
      · subst hd'
        rw [i3, akeys_append, List.mem_append]
        exact Or.inr (mem_akeys_of_alook hlook)
      · exact i4 d' hd'

theorem finish_spec (w : Wf) (σ : Nat → Status) (hσ : IsStatusMap w σ) (t : Nat)
    (st : SState) (h : Inv w σ st) (hnone : alook t st.cache = none)
    (hdeps : ∀ d ∈ w.deps t, d ∈ akeys st.cache) :
    let r := finish w t (st, subOf w σ t)
    Inv w σ r.1 ∧ r.2 = σ t ∧ alook t r.1.cache = some (σ t)
      ∧ r.1.cache = (t, σ t) :: st.cache := by
  have hs : (decideT (w.bstat t) (subOf w σ t) (w.stale t)).1 = σ t := (hσ t).symm
  simp only [finish]
  refine ⟨⟨?_, ?_, ?_⟩, hs, ?_, by rw [hs]⟩
  · intro k s hk
    simp only [alook] at hk
    split at hk
    · rename_i heq; subst heq; simp at hk; rw [← hk, hs]
    · exact h.cache_ok k s hk
  · simp only [expectedLog, List.filterMap_cons, submits]
    rw [h.log_eq]
    split <;> simp_all [expectedLog] <;> rfl
  · refine ⟨?_, hdeps, h.post⟩
    intro hm
    have := (alook_isSome_iff_mem_keys t st.cache).2 hm
    rw [hnone] at this; simp at this
  · simp [alook, hs]

theorem visit_spec (w : Wf) (σ : Nat → Status) (hσ : IsStatusMap w σ) (rank : Nat → Nat)
    (hr : ∀ t d, d ∈ w.deps t → rank d < rank t) :
    ∀ fuel t, rank t < fuel → VisitOK w σ rank (visit w fuel) t := by
  intro fuel
  induction fuel with
  | zero => intro t h; omega
  | succ fuel ih =>
    intro t ht st hInv
    simp only [visit]
    split
    · rename_i s hs
      have := hInv.cache_ok t s hs
      subst this
      exact ⟨hInv, rfl, hs, ⟨[], by simp [akeys]⟩⟩
    · rename_i hnone
      have hv : ∀ d ∈ w.deps t, VisitOK w σ rank (visit w fuel) d ∧ rank d < rank t ∧ d ∈ w.deps t :=
        fun d hd => ⟨ih d (by have := hr t d hd; omega), hr t d hd, hd⟩
      have hf := fold_spec w σ rank (visit w fuel) t (w.deps t) hv st [] hInv
      obtain ⟨f1, f2, ⟨ext, f3, f3k⟩, f4⟩ := hf
      have hsub : ((w.deps t).foldl (depStep (visit w fuel)) (st, [])).2 = subOf w σ t := by
        rw [f2]; simp [subOf]
      have hnone' : alook t ((w.deps t).foldl (depStep (visit w fuel)) (st, [])).1.cache = none := by
        rw [f3, alook_append, hnone]
        have : alook t ext = none :=
          alook_none_of_not_mem t ext (fun hm => by have := (f3k t hm).1; omega)
        rw [this]
      have hfin := finish_spec w σ hσ t _ f1 hnone' f4
      have e : ((w.deps t).foldl (depStep (visit w fuel)) (st, [])) =
          (((w.deps t).foldl (depStep (visit w fuel)) (st, [])).1, subOf w σ t) := by
        rw [← hsub]
      rw [e]
      obtain ⟨g1, g2, g3, g4⟩ := hfin
      refine ⟨g1, g2, g3, ⟨(t, σ t) :: ext, ?_, ?_⟩⟩
      · rw [g4, f3]; simp
      · intro k hk
        simp only [akeys, List.map_cons, List.mem_cons] at hk
        rcases hk with hk | hk
        · subst hk; exact ⟨Nat.le_refl _, Reach.refl _⟩
        · have := f3k k hk; exact ⟨by omega, this.2⟩

end Gwf
