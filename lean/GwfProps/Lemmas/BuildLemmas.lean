/- buildGraph as a whole: success/failure characterised by the three defects. -/
import GwfProps.Lemmas.GraphLemmas
import GwfProps.Lemmas.CycleLemmas
namespace Gwf

variable {α : Type} [DecidableEq α]

/-- no file is produced twice -/
def NoDupProducer (ts : List (Tgt α)) : Prop := (ts.flatMap (fun t => t.outs)).Nodup

/-- every input that no target produces exists on disk -/
def SourcesExist (ts : List (Tgt α)) (ex : α → Bool) : Prop :=
  ∀ t ∈ ts, ∀ p ∈ t.ins, (∀ A ∈ ts, p ∉ A.outs) → ex p = true

/-- the induced dependency relation (B depends on A iff they share a path) has no cycle -/
def AcyclicTs (ts : List (Tgt α)) : Prop :=
  ∃ rank : Nat → Nat, ∀ B ∈ ts, ∀ A ∈ ts, (∃ p ∈ B.ins, p ∈ A.outs) → rank A.id < rank B.id

theorem akeys_append' {β γ} (a b : List (β × γ)) : akeys (a ++ b) = akeys a ++ akeys b := by
  simp [akeys]

theorem addOuts_complete (id : Nat) : ∀ (outs : List α) (acc : List (α × Nat)),
    outs.Nodup → (∀ p ∈ outs, p ∉ akeys acc) → (outs.foldl (addOut id) (some acc)).isSome
  | [], _, _, _ => by simp
  | p :: ps, acc, hn, hd => by
    simp only [List.nodup_cons] at hn
    simp only [List.foldl_cons, addOut]
    have hp : ¬ (alook p acc).isSome = true := by
      intro h; exact hd p (by simp) ((alook_isSome_iff_mem_keys p acc).1 h)
    simp only [hp, if_false]
    apply addOuts_complete id ps _ hn.2
    intro q hq
    simp only [akeys, List.map_append, List.map_cons, List.map_nil, List.mem_append, List.mem_singleton, not_or]
    exact ⟨hd q (by simp [hq]), fun e => hn.1 (e ▸ hq)⟩

theorem buildProvides_complete : ∀ (ts : List (Tgt α)) (acc : List (α × Nat)),
    (ts.flatMap (fun t => t.outs)).Nodup → (∀ t ∈ ts, ∀ p ∈ t.outs, p ∉ akeys acc) → (akeys acc).Nodup →
    (buildProvides ts acc).isSome
  | [], _, _, _, _ => by simp [buildProvides]
  | t :: ts, acc, hn, hd, hacc => by
    simp only [List.flatMap_cons, List.nodup_append] at hn
    obtain ⟨hn1, hn2, hn3⟩ := hn
    simp only [buildProvides]
    have h1 := addOuts_complete t.id t.outs acc hn1 (hd t (by simp))
    cases hf : t.outs.foldl (addOut t.id) (some acc) with
    | none => rw [hf] at h1; simp at h1
    | some acc' =>
      simp only
      have hs := addOuts_spec t.id t.outs acc acc' hf hacc
      apply buildProvides_complete ts acc' hn2 _ hs.2
      intro u hu p hp
      rw [hs.1, akeys_append', List.mem_append, not_or]
      refine ⟨hd u (by simp [hu]) p hp, ?_⟩
      intro hm
      simp only [akeys, List.map_map, List.mem_map, Function.comp_def] at hm
      obtain ⟨q, hq, e⟩ := hm
      subst e
      exact hn3 q hq q (List.mem_flatMap.2 ⟨u, hu, hp⟩) rfl

/-- phase 1 succeeds exactly when no file is produced twice -/
theorem buildProvides_isSome_iff (ts : List (Tgt α)) :
    (buildProvides ts []).isSome ↔ NoDupProducer ts := by
  constructor
  · intro h
    cases hb : buildProvides ts [] with
    | none => rw [hb] at h; simp at h
    | some m => exact provides_no_dup ts m hb
  · intro h
    exact buildProvides_complete ts [] h (by simp [akeys]) (by simp [akeys])

theorem mem_dedupFold (l : List α) (acc : List α) (q : α) :
    q ∈ l.foldl (fun a x => if x ∈ a then a else a ++ [x]) acc ↔ q ∈ acc ∨ q ∈ l := by
  induction l generalizing acc with
  | nil => simp
  | cons x xs ih =>
    simp only [List.foldl_cons, ih, List.mem_cons]
    by_cases hx : x ∈ acc
    · simp only [hx, if_true]
      constructor
      · rintro (h | h) <;> simp [h]
      · rintro (h | h | h)
        · exact Or.inl h
        · subst h; exact Or.inl hx
        · exact Or.inr h
    · simp only [hx, if_false, List.mem_append, List.mem_singleton]
      constructor
      · rintro ((h | h) | h) <;> simp [h]
      · rintro (h | h | h) <;> simp [h]

theorem mem_unresolvedAll (per : List (Nat × List Nat × List α)) (acc : List α) (q : α) :
    q ∈ per.foldl (fun acc p => p.2.2.foldl (fun a x => if x ∈ a then a else a ++ [x]) acc) acc ↔
      q ∈ acc ∨ ∃ e ∈ per, q ∈ e.2.2 := by
  induction per generalizing acc with
  | nil => simp
  | cons e es ih =>
    simp only [List.foldl_cons, ih, mem_dedupFold, List.mem_cons, exists_eq_or_imp]
    constructor
    · rintro ((h | h) | h)
      · exact Or.inl h
      · exact Or.inr (Or.inl h)
      · exact Or.inr (Or.inr h)
    · rintro (h | h | h)
      · exact Or.inl (Or.inl h)
      · exact Or.inl (Or.inr h)
      · exact Or.inr h

end Gwf
