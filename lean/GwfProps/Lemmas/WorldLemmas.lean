/- Lemmas about folds over association lists used by the world model. -/
import GwfModel.World
namespace Gwf

variable {α β : Type} [DecidableEq α]

/-- conditional erase of a list of keys -/
theorem alook_fold_erase (prot : List α) : ∀ (outs : List α) (fs : List (α × β)) (q : α),
    alook q (outs.foldl (fun fs p => if prot.contains p then fs else aerase p fs) fs) =
      if q ∈ outs ∧ q ∉ prot then none else alook q fs
  | [], fs, q => by simp
  | p :: ps, fs, q => by
    simp only [List.foldl_cons]
    rw [alook_fold_erase prot ps _ q]
    by_cases hp : prot.contains p = true
    · simp only [hp, if_true, List.mem_cons]
      by_cases h1 : q ∈ ps ∧ q ∉ prot
      · simp [h1]
      · simp only [h1, if_false]
        by_cases hq : q = p
        · subst hq
          have : q ∈ prot := by simpa using hp
          simp [this]
        · simp [hq, h1]
    · simp only [hp, List.mem_cons]
      by_cases h1 : q ∈ ps ∧ q ∉ prot
      · simp [h1]
      · simp only [h1, if_false]
        by_cases hq : q = p
        · subst hq
          have : q ∉ prot := by simpa using hp
          simp [this, alook_aerase_same]
        · have : ¬ ((q = p ∨ q ∈ ps) ∧ q ∉ prot) := by
            rintro ⟨h | h, h2⟩
            · exact hq h
            · exact h1 ⟨h, h2⟩
          simp [this, alook_aerase_other _ _ _ hq]

/-- setting a list of keys to one value -/
theorem alook_fold_set (v : β) : ∀ (outs : List α) (fs : List (α × β)) (q : α),
    alook q (outs.foldl (fun fs p => aset p v fs) fs) = if q ∈ outs then some v else alook q fs
  | [], fs, q => by simp
  | p :: ps, fs, q => by
    simp only [List.foldl_cons]
    rw [alook_fold_set v ps _ q]
    by_cases h1 : q ∈ ps
    · simp [h1]
    · simp only [h1, if_false, List.mem_cons]
      by_cases hq : q = p
      · subst hq; simp [alook_aset_same]
      · simp [hq, h1, alook_aset_other _ _ _ _ hq]

end Gwf
