/- The quoting theorem: `cd <shlex.quote wd>` splits into exactly ["cd", wd] for every string. -/
import GwfModel.Shell
namespace Gwf.Shell

/-- running the escaped body inside single quotes appends exactly the original text -/
theorem run_escBody (s : List Char) (cur : List Char) (done : List (List Char)) (rest : List Char) :
    (escBody s ++ rest).foldl stepc { mode := .single, cur := cur, done := done }
      = rest.foldl stepc { mode := .single, cur := cur ++ s, done := done } := by
  induction s generalizing cur with
  | nil => simp [escBody]
  | cons c cs ih =>
    simp only [escBody]
    by_cases h : c = sq
    · subst h
      simp only [if_pos, List.cons_append, List.foldl_cons]
      have : stepc (stepc (stepc (stepc (stepc { mode := .single, cur := cur, done := done } sq) dq) sq) dq) sq
          = { mode := .single, cur := cur ++ [sq], done := done } := by
        simp [stepc, sq, dq]
      rw [this, ih]; simp
    · simp only [if_neg h, List.cons_append, List.foldl_cons]
      have : stepc { mode := .single, cur := cur, done := done } c
          = { mode := .single, cur := cur ++ [c], done := done } := by
        simp [stepc, h]
      rw [this, ih]; simp

theorem words_cd_quoted (s : List Char) (hne : s ≠ [])
    (hq : s.all safeChar = false) :
    words (['c', 'd', ' '] ++ quote s) = [['c', 'd'], s] := by
  have hquote : quote s = sq :: escBody s ++ [sq] := by
    simp [quote, hne, hq]
  rw [hquote]
  simp only [words, List.cons_append, List.nil_append, List.foldl_cons]
  have h1 : stepc (stepc (stepc (stepc { mode := .out, cur := [], done := [] } 'c') 'd') ' ') sq
      = { mode := .single, cur := [], done := [['c','d']] } := by
    simp [stepc, sq, dq]
  rw [h1, run_escBody]
  simp [stepc, finishW, sq]

theorem words_cd_empty : words (['c', 'd', ' '] ++ quote []) = [['c', 'd'], []] := by
  simp [quote, words, stepc, finishW, sq, dq]

theorem safe_not_special (c : Char) (h : safeChar c = true) :
    c ≠ ' ' ∧ c ≠ '\t' ∧ c ≠ '\n' ∧ c ≠ sq ∧ c ≠ dq ∧ c ≠ '\\' := by
  refine ⟨?_, ?_, ?_, ?_, ?_, ?_⟩ <;> (intro hc; subst hc; revert h; decide)

theorem run_safe (s : List Char) (hs : s.all safeChar = true) (cur : List Char) (done : List (List Char)) :
    s.foldl stepc { mode := .word, cur := cur, done := done }
      = { mode := .word, cur := cur ++ s, done := done } := by
  induction s generalizing cur with
  | nil => simp
  | cons c cs ih =>
    simp only [List.all_cons, Bool.and_eq_true] at hs
    obtain ⟨h1, h2, h3, h4, h5, h6⟩ := safe_not_special c hs.1
    simp only [List.foldl_cons]
    have : stepc { mode := .word, cur := cur, done := done } c
        = { mode := .word, cur := cur ++ [c], done := done } := by
      simp [stepc, h1, h2, h3, h4, h5, h6]
    rw [this, ih hs.2]; simp

theorem words_cd_safe (s : List Char) (hne : s ≠ []) (hq : s.all safeChar = true) :
    words (['c', 'd', ' '] ++ quote s) = [['c', 'd'], s] := by
  have hquote : quote s = s := by simp [quote, hne, hq]
  rw [hquote]
  cases s with
  | nil => exact absurd rfl hne
  | cons c cs =>
    simp only [List.all_cons, Bool.and_eq_true] at hq
    obtain ⟨h1, h2, h3, h4, h5, h6⟩ := safe_not_special c hq.1
    simp only [words, List.cons_append, List.nil_append, List.foldl_cons]
    have h0 : stepc (stepc (stepc (stepc { mode := .out, cur := [], done := [] } 'c') 'd') ' ') c
        = { mode := .word, cur := [c], done := [['c','d']] } := by
      have h4' : c ≠ '\'' := h4
      have h5' : c ≠ '"' := h5
      simp [stepc, sq, dq, h1, h2, h3, h4', h5', h6]
    rw [h0, run_safe cs hq.2]
    simp [finishW]

/-- the quoting theorem: for EVERY string, `cd <quote wd>` splits into exactly ["cd", wd] -/
theorem cd_roundtrip (s : List Char) : words (['c', 'd', ' '] ++ quote s) = [['c', 'd'], s] := by
  by_cases hne : s = []
  · subst hne; exact words_cd_empty
  · cases hq : s.all safeChar with
    | true => exact words_cd_safe s hne hq
    | false => exact words_cd_quoted s hne hq

/-- and the unrepaired code's `cd <wd>` does not: counter-example -/
example : words (['c', 'd', ' '] ++ ['a', ' ', 'b']) ≠ [['c', 'd'], ['a', ' ', 'b']] := by decide

end Gwf.Shell
