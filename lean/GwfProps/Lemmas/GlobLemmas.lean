/- Lemmas about the name-pattern matcher (`fnmatch` subset). -/
import GwfModel.Glob
namespace Gwf.Glob

def isMeta (c : Char) : Bool := c == '*' || c == '?' || c == '['

theorem char_beq (a b : Char) : (a == b) = decide (a = b) := by by_cases h : a = b <;> simp [h]

/-- a pattern without `*`, `?`, `[` matches exactly itself -/
theorem gmatch_literal : ∀ (p s : List Char) (fuel : Nat), p.length < fuel → (∀ c ∈ p, isMeta c = false) →
    gmatch fuel p s = decide (p = s)
  | [], s, fuel, hf, _ => by
    cases fuel with
    | zero => simp at hf
    | succ n => cases s <;> simp [gmatch]
  | c :: p, s, fuel, hf, hm => by
    cases fuel with
    | zero => simp at hf
    | succ n =>
      have hc := hm c (by simp)
      simp only [isMeta, Bool.or_eq_false_iff, beq_eq_false_iff_ne, ne_eq] at hc
      obtain ⟨⟨h1, h2⟩, h3⟩ := hc
      have ih := fun s' => gmatch_literal p s' n (by simp at hf; omega) (fun x hx => hm x (by simp [hx]))
      cases s with
      | nil => unfold gmatch; split <;> simp_all
      | cons d s' =>
        unfold gmatch
        split <;> simp_all [char_beq]

/-- `*` matches every name -/
theorem gmatch_star : ∀ (s : List Char) (fuel : Nat), s.length + 1 < fuel → gmatch fuel ['*'] s = true
  | [], fuel, hf => by
    match fuel, hf with
    | n+2, _ => simp [gmatch]
  | c :: s', fuel, hf => by
    match fuel, hf with
    | n+1, hf =>
      have ih := gmatch_star s' n (by simp at hf; omega)
      simp [gmatch, ih]

end Gwf.Glob
