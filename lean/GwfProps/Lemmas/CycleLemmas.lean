/- Lemmas about the three-colour DFS `cvisit` / `checkCycles`. -/
import GwfModel.Graph
namespace Gwf

/-- post-order on a finished list (newest first): every node is new and all its dependencies are
    among the nodes finished before it -/
def POrd (deps : Nat → List Nat) : List Nat → Prop
  | [] => True
  | x :: rest => x ∉ rest ∧ (∀ d ∈ deps x, d ∈ rest) ∧ POrd deps rest

/-- rank of `x` in a finished list: length of the suffix that starts at `x` (0 if absent) -/
def rk : List Nat → Nat → Nat
  | [], _ => 0
  | y :: rest, x => if x = y then rest.length + 1 else rk rest x

theorem rk_le (l : List Nat) (x : Nat) : rk l x ≤ l.length := by
  induction l with
  | nil => simp [rk]
  | cons y rest ih => simp only [rk, List.length_cons]; split <;> omega

theorem POrd.closed {deps : Nat → List Nat} : ∀ {l : List Nat}, POrd deps l →
    ∀ x ∈ l, ∀ d ∈ deps x, d ∈ l
  | [], _, x, hx, _, _ => by simp at hx
  | y :: rest, h, x, hx, d, hd => by
    obtain ⟨_, h2, h3⟩ := h
    simp only [List.mem_cons] at hx
    rcases hx with hx | hx
    · subst hx; exact List.mem_cons_of_mem _ (h2 d hd)
    · exact List.mem_cons_of_mem _ (POrd.closed h3 x hx d hd)

theorem POrd.rank_decreases {deps : Nat → List Nat} : ∀ {l : List Nat}, POrd deps l →
    ∀ x ∈ l, ∀ d ∈ deps x, rk l d < rk l x
  | [], _, x, hx, _, _ => by simp at hx
  | y :: rest, h, x, hx, d, hd => by
    obtain ⟨h1, h2, h3⟩ := h
    simp only [List.mem_cons] at hx
    rcases hx with hx | hx
    · subst hx
      have hdr := h2 d hd
      have hne : d ≠ x := fun e => h1 (e ▸ hdr)
      simp only [rk, hne, if_false, if_true]
      have := rk_le rest d; omega
    · have hxy : x ≠ y := fun e => h1 (e ▸ hx)
      have ih := POrd.rank_decreases h3 x hx d hd
      have hdr : d ∈ rest := POrd.closed h3 x hx d hd
      have hdy : d ≠ y := fun e => h1 (e ▸ hdr)
      simp only [rk, hxy, hdy, if_false]
      exact ih

end Gwf

namespace Gwf

/-! ### soundness: a successful DFS leaves a post-ordered finished list -/

def VisSound (deps : Nat → List Nat) (vis : List Nat → Nat → Option (List Nat)) (blocked : List Nat) : Prop :=
  ∀ dn d dn', POrd deps dn → d ∉ dn → d ∉ blocked → vis dn d = some dn' →
    POrd deps dn' ∧ ∃ ext, dn' = ext ++ dn ∧ d ∈ ext ∧ ∀ y ∈ ext, y ∉ blocked

theorem cstep_none (vis : List Nat → Nat → Option (List Nat)) (blocked : List Nat) (l : List Nat) :
    l.foldl (cstep vis blocked) none = none := by
  induction l with
  | nil => rfl
  | cons x xs ih => simp [List.foldl_cons, cstep, ih]

theorem fold_sound (deps : Nat → List Nat) (vis : List Nat → Nat → Option (List Nat)) (blocked : List Nat)
    (hv : VisSound deps vis blocked) :
    ∀ (l : List Nat) (dn dn' : List Nat), POrd deps dn →
      l.foldl (cstep vis blocked) (some dn) = some dn' →
      POrd deps dn' ∧ (∃ ext, dn' = ext ++ dn ∧ ∀ y ∈ ext, y ∉ blocked) ∧ (∀ d ∈ l, d ∈ dn' ∧ d ∉ blocked) := by
  intro l
  induction l with
  | nil => intro dn dn' h e; simp at e; subst e; exact ⟨h, ⟨[], by simp⟩, by simp⟩
  | cons d rest ih =>
    intro dn dn' h e
    simp only [List.foldl_cons, cstep] at e
    by_cases hb : d ∈ blocked
    · simp only [hb, if_true] at e; rw [cstep_none] at e; simp at e
    · simp only [hb, if_false] at e
      by_cases hd : d ∈ dn
      · simp only [hd, if_true] at e
        obtain ⟨i1, ⟨ext, i2, i3⟩, i4⟩ := ih dn dn' h e
        refine ⟨i1, ⟨ext, i2, i3⟩, ?_⟩
        intro d' hd'
        simp only [List.mem_cons] at hd'
        rcases hd' with hd' | hd'
        · subst hd'; exact ⟨by rw [i2]; simp [hd], hb⟩
        · exact i4 d' hd'
      · simp only [hd, if_false] at e
        cases hvis : vis dn d with
        | none => rw [hvis, cstep_none] at e; simp at e
        | some dn1 =>
          rw [hvis] at e
          obtain ⟨v1, ext1, v2, v3, v4⟩ := hv dn d dn1 h hd hb hvis
          obtain ⟨i1, ⟨ext, i2, i3⟩, i4⟩ := ih dn1 dn' v1 e
          refine ⟨i1, ⟨ext ++ ext1, by rw [i2, v2]; simp, ?_⟩, ?_⟩
          · intro y hy
            simp only [List.mem_append] at hy
            rcases hy with hy | hy
            · exact i3 y hy
            · exact v4 y hy
          · intro d' hd'
            simp only [List.mem_cons] at hd'
            rcases hd' with hd' | hd'
            · subst hd'; exact ⟨by rw [i2, v2]; simp [v3], hb⟩
            · exact i4 d' hd'

theorem cvisit_sound (deps : Nat → List Nat) :
    ∀ fuel started, VisSound deps (fun dn d => cvisit deps fuel started dn d) started := by
  intro fuel
  induction fuel with
  | zero => intro started dn d dn' _ _ _ e; simp [cvisit] at e
  | succ fuel ih =>
    intro started dn node dn' hp hnd hns e
    simp only [cvisit, Option.map_eq_some_iff] at e
    obtain ⟨dnF, hfold, hdn'⟩ := e
    subst hdn'
    obtain ⟨f1, ⟨ext, f2, f3⟩, f4⟩ :=
      fold_sound deps _ (node :: started) (ih (node :: started)) (deps node) dn dnF hp hfold
    have hnF : node ∉ dnF := by
      rw [f2, List.mem_append]
      rintro (h | h)
      · exact f3 node h (by simp)
      · exact hnd h
    refine ⟨⟨hnF, fun d hd => (f4 d hd).1, f1⟩, node :: ext, by rw [f2]; simp, by simp, ?_⟩
    intro y hy
    simp only [List.mem_cons] at hy
    rcases hy with hy | hy
    · subst hy; exact hns
    · exact fun h => f3 y hy (List.mem_cons_of_mem _ h)

/-- a successful cycle check yields a rank function: every dependency of a checked target has a
    strictly smaller rank (so there is no cycle, of any length, anywhere among the targets) -/
theorem checkCycles_sound (deps : Nat → List Nat) (fuel : Nat) (nodes fin : List Nat)
    (h : checkCycles deps fuel nodes = some fin) :
    ∀ x ∈ nodes, ∀ d ∈ deps x, rk fin d < rk fin x := by
  have hv : VisSound deps (fun dn n => cvisit deps fuel [] dn n) [] := cvisit_sound deps fuel []
  obtain ⟨f1, _, f4⟩ := fold_sound deps _ [] hv nodes [] fin (by simp [POrd]) h
  intro x hx d hd
  exact POrd.rank_decreases f1 x (f4 x hx).1 d hd

/-! ### completeness: on an acyclic relation the DFS never raises -/

theorem fold_complete (vis : List Nat → Nat → Option (List Nat)) (blocked : List Nat) :
    ∀ (l : List Nat) (dn : List Nat), (∀ d ∈ l, d ∉ blocked ∧ ∀ dn, (vis dn d).isSome) →
      (l.foldl (cstep vis blocked) (some dn)).isSome := by
  intro l
  induction l with
  | nil => intro dn _; simp
  | cons d rest ih =>
    intro dn h
    have hd := h d (by simp)
    simp only [List.foldl_cons, cstep, hd.1, if_false]
    split
    · exact ih dn (fun d' hd' => h d' (by simp [hd']))
    · cases hv : vis dn d with
      | none => have := hd.2 dn; rw [hv] at this; simp at this
      | some dn1 => exact ih dn1 (fun d' hd' => h d' (by simp [hd']))

theorem cvisit_complete (deps : Nat → List Nat) (rank : Nat → Nat)
    (hr : ∀ t d, d ∈ deps t → rank d < rank t) :
    ∀ fuel started done node, rank node < fuel → (∀ s ∈ started, rank node < rank s) →
      (cvisit deps fuel started done node).isSome := by
  intro fuel
  induction fuel with
  | zero => intro _ _ _ h; omega
  | succ fuel ih =>
    intro started done node hf hs
    simp only [cvisit, Option.isSome_map]
    apply fold_complete
    intro d hd
    have hlt := hr node d hd
    refine ⟨?_, fun dn => ih (node :: started) dn d (by omega) ?_⟩
    · simp only [List.mem_cons, not_or]
      refine ⟨fun e => by subst e; omega, fun hm => ?_⟩
      have := hs d hm; omega
    · intro s hs'
      simp only [List.mem_cons] at hs'
      rcases hs' with e | e
      · subst e; exact hlt
      · have := hs s e; omega

/-- an acyclic dependency relation (self-loops excluded by the rank) passes the cycle check -/
theorem checkCycles_complete (deps : Nat → List Nat) (rank : Nat → Nat)
    (hr : ∀ t d, d ∈ deps t → rank d < rank t) (fuel : Nat) (hf : ∀ t, rank t < fuel) (nodes : List Nat) :
    (checkCycles deps fuel nodes).isSome := by
  apply fold_complete
  intro n _
  exact ⟨by simp, fun dn => cvisit_complete deps rank hr fuel [] dn n (hf n) (by simp)⟩

end Gwf

namespace Gwf

theorem nodup_subset_length_le : ∀ (l ids : List Nat), l.Nodup → (∀ x ∈ l, x ∈ ids) → l.length ≤ ids.length
  | [], _, _, _ => by simp
  | x :: l', ids, hn, hs => by
    simp only [List.nodup_cons] at hn
    have hx : x ∈ ids := hs x (by simp)
    have hsub : ∀ y ∈ l', y ∈ ids.erase x := by
      intro y hy
      have hne : y ≠ x := fun e => hn.1 (e ▸ hy)
      exact (List.mem_erase_of_ne hne).2 (hs y (by simp [hy]))
    have ih := nodup_subset_length_le l' (ids.erase x) hn.2 hsub
    have hl := List.length_erase_of_mem hx
    have : 0 < ids.length := List.length_pos_of_mem hx
    simp only [List.length_cons]
    omega

/-- completeness with the fuel the model actually uses (`ids.length + 1`): the recursion stack is a
    duplicate-free list of targets, so it can never be longer than the number of targets -/
theorem cvisit_complete_fuel (deps : Nat → List Nat) (rank : Nat → Nat) (ids : List Nat)
    (hr : ∀ t d, d ∈ deps t → rank d < rank t) (hids : ∀ t d, d ∈ deps t → d ∈ ids) :
    ∀ fuel started done node, node ∈ ids → (∀ s ∈ started, s ∈ ids) → started.Nodup →
      (∀ s ∈ started, rank node < rank s) → ids.length + 1 ≤ fuel + started.length →
      (cvisit deps fuel started done node).isSome := by
  intro fuel
  induction fuel with
  | zero =>
    intro started done node hn hs hnd hrk hlen
    have hnd' : (node :: started).Nodup := by
      simp only [List.nodup_cons]
      exact ⟨fun hm => by have := hrk node hm; omega, hnd⟩
    have := nodup_subset_length_le (node :: started) ids hnd' (by
      intro x hx; simp only [List.mem_cons] at hx
      rcases hx with e | e
      · subst e; exact hn
      · exact hs x e)
    simp only [List.length_cons] at this
    omega
  | succ fuel ih =>
    intro started done node hn hs hnd hrk hlen
    simp only [cvisit, Option.isSome_map]
    apply fold_complete
    intro d hd
    have hlt := hr node d hd
    refine ⟨?_, fun dn => ih (node :: started) dn d (hids node d hd) ?_ ?_ ?_ ?_⟩
    · simp only [List.mem_cons, not_or]
      refine ⟨fun e => by subst e; omega, fun hm => ?_⟩
      have := hrk d hm; omega
    · intro s hs'
      simp only [List.mem_cons] at hs'
      rcases hs' with e | e
      · subst e; exact hn
      · exact hs s e
    · simp only [List.nodup_cons]
      exact ⟨fun hm => by have := hrk node hm; omega, hnd⟩
    · intro s hs'
      simp only [List.mem_cons] at hs'
      rcases hs' with e | e
      · subst e; exact hlt
      · have := hrk s e; omega
    · simp only [List.length_cons]; omega

theorem checkCycles_complete_fuel (deps : Nat → List Nat) (rank : Nat → Nat) (ids : List Nat)
    (hr : ∀ t d, d ∈ deps t → rank d < rank t) (hids : ∀ t d, d ∈ deps t → d ∈ ids) :
    (checkCycles deps (ids.length + 1) ids).isSome := by
  apply fold_complete
  intro n hn
  exact ⟨by simp, fun dn => cvisit_complete_fuel deps rank ids hr hids (ids.length + 1) [] dn n hn
    (by simp) (by simp) (by simp) (by simp)⟩

end Gwf

namespace Gwf

/-! ### everything the DFS finishes satisfies any dependency-closed predicate of its roots -/

theorem fold_sub (P : Nat → Prop) (vis : List Nat → Nat → Option (List Nat)) (blocked : List Nat)
    (hv : ∀ dn d dn', P d → vis dn d = some dn' → ∀ y ∈ dn', y ∈ dn ∨ P y) :
    ∀ (l : List Nat) (dn dn' : List Nat), (∀ d ∈ l, P d) →
      l.foldl (cstep vis blocked) (some dn) = some dn' → ∀ y ∈ dn', y ∈ dn ∨ P y := by
  intro l
  induction l with
  | nil => intro dn dn' _ e; simp at e; subst e; exact fun y hy => Or.inl hy
  | cons d rest ih =>
    intro dn dn' hP e
    simp only [List.foldl_cons, cstep] at e
    split at e
    · rw [cstep_none] at e; simp at e
    · split at e
      · exact ih dn dn' (fun d' h => hP d' (by simp [h])) e
      · cases hvis : vis dn d with
        | none => rw [hvis, cstep_none] at e; simp at e
        | some dn1 =>
          rw [hvis] at e
          intro y hy
          rcases ih dn1 dn' (fun d' h => hP d' (by simp [h])) e y hy with h | h
          · exact hv dn d dn1 (hP d (by simp)) hvis y h
          · exact Or.inr h

theorem cvisit_sub (deps : Nat → List Nat) (P : Nat → Prop) (hP : ∀ t d, P t → d ∈ deps t → P d) :
    ∀ fuel started dn d dn', P d → cvisit deps fuel started dn d = some dn' → ∀ y ∈ dn', y ∈ dn ∨ P y := by
  intro fuel
  induction fuel with
  | zero => intro _ _ _ _ _ e; simp [cvisit] at e
  | succ fuel ih =>
    intro started dn node dn' hn e
    simp only [cvisit, Option.map_eq_some_iff] at e
    obtain ⟨dnF, hfold, hdn'⟩ := e
    subst hdn'
    have := fold_sub P _ (node :: started) (fun dn d dn' => ih (node :: started) dn d dn')
      (deps node) dn dnF (fun d hd => hP node d hn hd) hfold
    intro y hy
    simp only [List.mem_cons] at hy
    rcases hy with e | e
    · subst e; exact Or.inr hn
    · exact this y e

theorem checkCycles_sub (deps : Nat → List Nat) (P : Nat → Prop) (hP : ∀ t d, P t → d ∈ deps t → P d)
    (fuel : Nat) (nodes fin : List Nat) (hn : ∀ x ∈ nodes, P x)
    (h : checkCycles deps fuel nodes = some fin) : ∀ y ∈ fin, P y := by
  have := fold_sub P _ [] (fun dn d dn' => cvisit_sub deps P hP fuel [] dn d dn') nodes [] fin hn h
  intro y hy
  rcases this y hy with h | h
  · simp at h
  · exact h

theorem POrd.nodup {deps : Nat → List Nat} : ∀ {l : List Nat}, POrd deps l → l.Nodup
  | [], _ => by simp
  | x :: rest, h => by
    obtain ⟨h1, _, h3⟩ := h
    exact List.nodup_cons.2 ⟨h1, POrd.nodup h3⟩

/-- a successful check gives a rank that decreases along every dependency edge of a checked target
    AND is bounded by the number of targets (so `ids.length + 1` fuel is always enough) -/
theorem checkCycles_rank (deps : Nat → List Nat) (ids : List Nat) (hids : ∀ t d, t ∈ ids → d ∈ deps t → d ∈ ids)
    (fuel : Nat) (fin : List Nat) (h : checkCycles deps fuel ids = some fin) :
    (∀ x ∈ ids, ∀ d ∈ deps x, rk fin d < rk fin x) ∧ ∀ t, rk fin t < ids.length + 1 := by
  refine ⟨checkCycles_sound deps fuel ids fin h, ?_⟩
  have hv : VisSound deps (fun dn n => cvisit deps fuel [] dn n) [] := cvisit_sound deps fuel []
  obtain ⟨f1, _, _⟩ := fold_sound deps _ [] hv ids [] fin (by simp [POrd]) h
  have hsub := checkCycles_sub deps (· ∈ ids) hids fuel ids fin (fun x hx => hx) h
  have hlen := nodup_subset_length_le fin ids (POrd.nodup f1) hsub
  intro t
  have := rk_le fin t
  omega

end Gwf
