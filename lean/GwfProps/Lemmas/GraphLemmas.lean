/- Lemmas about `buildProvides`, `depsOf`, `sinsert`, `buildGraph`. -/
import GwfModel.Graph
namespace Gwf

theorem mem_sinsert (x y : Nat) (l : List Nat) : x ∈ sinsert y l ↔ x = y ∨ x ∈ l := by
  induction l with
  | nil => simp [sinsert]
  | cons z zs ih =>
    simp only [sinsert]
    split
    · simp
    · split
      · rename_i h; subst h; simp
      · simp only [List.mem_cons, ih]
        constructor
        · rintro (h | h | h) <;> simp [h]
        · rintro (h | h | h) <;> simp [h]

variable {α : Type} [DecidableEq α]

theorem alook_of_mem_nodup : ∀ (m : List (α × Nat)) (p : α) (a : Nat),
    (akeys m).Nodup → (p, a) ∈ m → alook p m = some a
  | [], _, _, _, h => by simp at h
  | (k, v) :: rest, p, a, hn, h => by
    simp only [akeys, List.map_cons, List.nodup_cons] at hn
    simp only [List.mem_cons, Prod.mk.injEq] at h
    simp only [alook]
    rcases h with ⟨h1, h2⟩ | h
    · subst h1; subst h2; simp
    · split
      · rename_i hk; subst hk
        exact absurd (List.mem_map.2 ⟨(k, a), h, rfl⟩) hn.1
      · exact alook_of_mem_nodup rest p a hn.2 h

/-- closed form of the inner loop of phase 1 -/
theorem addOuts_spec (id : Nat) : ∀ (outs : List α) (acc m : List (α × Nat)),
    outs.foldl (addOut id) (some acc) = some m → (akeys acc).Nodup →
    m = acc ++ outs.map (fun p => (p, id)) ∧ (akeys m).Nodup
  | [], acc, m, h, hn => by simp at h; subst h; simp [hn]
  | p :: ps, acc, m, h, hn => by
    simp only [List.foldl_cons, addOut] at h
    split at h
    · rename_i hdup
      have : ∀ l : List α, l.foldl (addOut id) (none : Option (List (α × Nat))) = none := by
        intro l; induction l with
        | nil => rfl
        | cons x xs ih => simp [List.foldl_cons, addOut, ih]
      rw [this] at h; simp at h
    · rename_i hnew
      have hn' : (akeys (acc ++ [(p, id)])).Nodup := by
        simp only [akeys, List.map_append, List.map_cons, List.map_nil]
        rw [List.nodup_append]
        refine ⟨hn, by simp, ?_⟩
        intro a ha b hb
        simp only [List.mem_singleton] at hb
        subst hb
        intro hab; subst hab
        have := (alook_isSome_iff_mem_keys a acc).2 ha
        exact hnew this
      have ih := addOuts_spec id ps (acc ++ [(p, id)]) m h hn'
      refine ⟨?_, ih.2⟩
      rw [ih.1]; simp

theorem foldl_addOut_none (id : Nat) (l : List α) :
    l.foldl (addOut id) (none : Option (List (α × Nat))) = none := by
  induction l with
  | nil => rfl
  | cons x xs ih => simp [List.foldl_cons, addOut, ih]

/-- closed form of phase 1: on success `provides` lists every declared output with its producer,
    and no path occurs twice -/
theorem buildProvides_spec : ∀ (ts : List (Tgt α)) (acc m : List (α × Nat)),
    buildProvides ts acc = some m → (akeys acc).Nodup →
    m = acc ++ ts.flatMap (fun t => t.outs.map (fun p => (p, t.id))) ∧ (akeys m).Nodup
  | [], acc, m, h, hn => by simp [buildProvides] at h; subst h; simp [hn]
  | t :: ts, acc, m, h, hn => by
    simp only [buildProvides] at h
    split at h
    · simp at h
    · rename_i acc' hacc
      have h1 := addOuts_spec t.id t.outs acc acc' hacc hn
      have ih := buildProvides_spec ts acc' m h h1.2
      refine ⟨?_, ih.2⟩
      rw [ih.1, h1.1]; simp

/-- every output maps to its single producer -/
theorem provides_iff (ts : List (Tgt α)) (m : List (α × Nat)) (h : buildProvides ts [] = some m)
    (hid : ∀ t ∈ ts, ∀ u ∈ ts, t.id = u.id → t = u) (p : α) (a : Nat) :
    alook p m = some a ↔ ∃ t ∈ ts, t.id = a ∧ p ∈ t.outs := by
  have hs := buildProvides_spec ts [] m h (by simp [akeys])
  constructor
  · intro hl
    have := alook_some_mem p a m hl
    rw [hs.1] at this
    simp only [List.nil_append, List.mem_flatMap, List.mem_map, Prod.mk.injEq] at this
    obtain ⟨t, ht, q, hq, h1, h2⟩ := this
    subst h1
    exact ⟨t, ht, h2, hq⟩
  · rintro ⟨t, ht, hta, hp⟩
    apply alook_of_mem_nodup m p a hs.2
    rw [hs.1]
    simp only [List.nil_append, List.mem_flatMap, List.mem_map, Prod.mk.injEq]
    exact ⟨t, ht, p, hp, rfl, hta⟩

/-- a file produced by two different targets (or twice by one) is rejected -/
theorem provides_no_dup (ts : List (Tgt α)) (m : List (α × Nat)) (h : buildProvides ts [] = some m) :
    (ts.flatMap (fun t => t.outs)).Nodup := by
  have hs := buildProvides_spec ts [] m h (by simp [akeys])
  have : akeys m = ts.flatMap (fun t => t.outs) := by
    rw [hs.1]; simp only [akeys, List.nil_append, List.map_flatMap, List.map_map]
    congr 1; funext t; simp [Function.comp_def]
  rw [← this]; exact hs.2

theorem depStepG_fold_spec (prov : List (α × Nat)) : ∀ (ins : List α) (acc : List Nat × List α) (d : Nat),
    d ∈ (ins.foldl (depStepG prov) acc).1 ↔ d ∈ acc.1 ∨ ∃ p ∈ ins, alook p prov = some d
  | [], acc, d => by simp
  | p :: ps, acc, d => by
    simp only [List.foldl_cons]
    rw [depStepG_fold_spec prov ps _ d]
    simp only [depStepG]
    cases hl : alook p prov with
    | none =>
      simp only [List.mem_cons, exists_eq_or_imp, hl]
      simp
    | some a =>
      simp only [mem_sinsert, List.mem_cons, exists_eq_or_imp, hl, Option.some.injEq]
      constructor
      · rintro ((h | h) | h)
        · exact Or.inr (Or.inl h.symm)
        · exact Or.inl h
        · exact Or.inr (Or.inr h)
      · rintro (h | h | h)
        · exact Or.inl (Or.inr h)
        · exact Or.inl (Or.inl h.symm)
        · exact Or.inr h

theorem mem_depsOf (prov : List (α × Nat)) (t : Tgt α) (d : Nat) :
    d ∈ (depsOf prov t).1 ↔ ∃ p ∈ t.ins, alook p prov = some d := by
  simp [depsOf, depStepG_fold_spec]

theorem depStepG_unres_spec (prov : List (α × Nat)) : ∀ (ins : List α) (acc : List Nat × List α) (q : α),
    q ∈ (ins.foldl (depStepG prov) acc).2 ↔ q ∈ acc.2 ∨ (q ∈ ins ∧ alook q prov = none)
  | [], acc, q => by simp
  | p :: ps, acc, q => by
    simp only [List.foldl_cons]
    rw [depStepG_unres_spec prov ps _ q]
    simp only [depStepG]
    cases hl : alook p prov with
    | some a =>
      simp only [List.mem_cons]
      constructor
      · rintro (h | ⟨h1, h2⟩)
        · exact Or.inl h
        · exact Or.inr ⟨Or.inr h1, h2⟩
      · rintro (h | ⟨h1 | h1, h2⟩)
        · exact Or.inl h
        · subst h1; rw [hl] at h2; simp at h2
        · exact Or.inr ⟨h1, h2⟩
    | none =>
      simp only [List.mem_cons]
      by_cases hm : p ∈ acc.2
      · simp only [hm, if_true]
        constructor
        · rintro (h | ⟨h1, h2⟩)
          · exact Or.inl h
          · exact Or.inr ⟨Or.inr h1, h2⟩
        · rintro (h | ⟨h1 | h1, h2⟩)
          · exact Or.inl h
          · subst h1; exact Or.inl hm
          · exact Or.inr ⟨h1, h2⟩
      · simp only [hm, if_false, List.mem_append, List.mem_singleton]
        constructor
        · rintro ((h | h) | ⟨h1, h2⟩)
          · exact Or.inl h
          · subst h; exact Or.inr ⟨Or.inl rfl, hl⟩
          · exact Or.inr ⟨Or.inr h1, h2⟩
        · rintro (h | ⟨h1 | h1, h2⟩)
          · exact Or.inl (Or.inl h)
          · exact Or.inl (Or.inr h1)
          · exact Or.inr ⟨h1, h2⟩

theorem mem_unresolvedOf (prov : List (α × Nat)) (t : Tgt α) (q : α) :
    q ∈ (depsOf prov t).2 ↔ q ∈ t.ins ∧ alook q prov = none := by
  simp [depsOf, depStepG_unres_spec]

theorem depFn_map (ts : List (Tgt α)) (f : Tgt α → List Nat) (hid : ∀ t ∈ ts, ∀ u ∈ ts, t.id = u.id → t = u)
    (b : Tgt α) (hb : b ∈ ts) : depFn (ts.map (fun t => (t.id, f t))) b.id = f b := by
  induction ts with
  | nil => simp at hb
  | cons t rest ih =>
    simp only [List.map_cons, depFn, alook]
    split
    · rename_i heq
      have := hid t (by simp) b hb heq
      subst this; simp
    · rename_i hne
      have hb' : b ∈ rest := by
        simp only [List.mem_cons] at hb
        rcases hb with hb | hb
        · subst hb; simp at hne
        · exact hb
      exact ih (fun t ht u hu => hid t (List.mem_cons_of_mem _ ht) u (List.mem_cons_of_mem _ hu)) hb'


end Gwf
