/- `touchVisit` yields a post-order of the dependency cone. -/
import GwfModel.World
import GwfProps.Lemmas.CycleLemmas
namespace Gwf

theorem POrd.suffix {deps : Nat → List Nat} : ∀ (a b : List Nat), POrd deps (a ++ b) → POrd deps b
  | [], _, h => h
  | _ :: a, b, h => POrd.suffix a b h.2.2

/-- in a list whose reverse is post-ordered, every dependency of an element occurs before it -/
theorem pord_split {deps : Nat → List Nat} (l p r : List Nat) (t : Nat) (h : POrd deps l.reverse)
    (hl : l = p ++ t :: r) : ∀ d ∈ deps t, d ∈ p := by
  subst hl
  have : (p ++ t :: r).reverse = r.reverse ++ t :: p.reverse := by simp
  rw [this] at h
  have h2 := POrd.suffix r.reverse (t :: p.reverse) h
  intro d hd
  have := h2.2.1 d hd
  simpa using this

def TVOK (deps : Nat → List Nat) (vis : List Nat → Nat → List Nat) (t : Nat) : Prop :=
  ∀ acc, POrd deps acc.reverse → POrd deps (vis acc t).reverse ∧ t ∈ vis acc t ∧ ∃ ext, vis acc t = acc ++ ext

theorem tv_fold (deps : Nat → List Nat) (vis : List Nat → Nat → List Nat) :
    ∀ (l : List Nat), (∀ d ∈ l, TVOK deps vis d) → ∀ acc, POrd deps acc.reverse →
      POrd deps (l.foldl (fun a d => vis a d) acc).reverse ∧ (∀ d ∈ l, d ∈ l.foldl (fun a d => vis a d) acc) ∧
      ∃ ext, l.foldl (fun a d => vis a d) acc = acc ++ ext := by
  intro l
  induction l with
  | nil => intro _ acc h; exact ⟨h, by simp, [], by simp⟩
  | cons d rest ih =>
    intro hv acc h
    obtain ⟨v1, v2, ext, v3⟩ := hv d (by simp) acc h
    obtain ⟨i1, i2, ext2, i3⟩ := ih (fun d' hd' => hv d' (by simp [hd'])) (vis acc d) v1
    simp only [List.foldl_cons]
    refine ⟨i1, ?_, ext ++ ext2, by rw [i3, v3]; simp⟩
    intro d' hd'
    simp only [List.mem_cons] at hd'
    rcases hd' with e | e
    · subst e; rw [i3]; simp [v2]
    · exact i2 d' e

theorem touchVisit_spec (deps : Nat → List Nat) (rank : Nat → Nat) (hr : ∀ t d, d ∈ deps t → rank d < rank t) :
    ∀ fuel t, rank t < fuel → TVOK deps (touchVisit deps fuel) t := by
  intro fuel
  induction fuel with
  | zero => intro t h; omega
  | succ fuel ih =>
    intro t ht acc hacc
    simp only [touchVisit]
    by_cases hc : acc.contains t = true
    · simp only [hc, if_true]
      exact ⟨hacc, by simpa using hc, [], by simp⟩
    · simp only [hc, Bool.false_eq_true, if_false]
      have hv : ∀ d ∈ deps t, TVOK deps (touchVisit deps fuel) d :=
        fun d hd => ih d (by have := hr t d hd; omega)
      obtain ⟨f1, f2, ext, f3⟩ := tv_fold deps (touchVisit deps fuel) (deps t) hv acc hacc
      have hfold : (deps t).foldl (fun a d => touchVisit deps fuel a d) acc = acc ++ ext := f3
      refine ⟨?_, by simp, ext ++ [t], by rw [hfold]; simp⟩
      have : ((deps t).foldl (fun a d => touchVisit deps fuel a d) acc ++ [t]).reverse =
          t :: ((deps t).foldl (fun a d => touchVisit deps fuel a d) acc).reverse := by simp
      rw [this]
      refine ⟨?_, fun d hd => by simpa using f2 d hd, f1⟩
      -- t is new: not in acc, and nothing visited below it has rank ≥ rank t … simpler: if t were in the
      -- fold result, being post-ordered its dependencies precede it, but t ∉ acc and every element the
      -- fold adds is reachable from a dependency, of strictly smaller rank
      intro hmem
      have hmem' : t ∈ (deps t).foldl (fun a d => touchVisit deps fuel a d) acc := by simpa using hmem
      rw [hfold, List.mem_append] at hmem'
      rcases hmem' with h | h
      · exact hc (by simpa using h)
      · -- every element of ext has rank < rank t
        have hext : ∀ (l : List Nat) (a : List Nat), (∀ d ∈ l, rank d < rank t) →
            ∀ x ∈ l.foldl (fun a d => touchVisit deps fuel a d) a, x ∈ a ∨ rank x < rank t := by
          intro l
          induction l with
          | nil => intro a _ x hx; exact Or.inl hx
          | cons d rest ihl =>
            intro a hl x hx
            simp only [List.foldl_cons] at hx
            rcases ihl (touchVisit deps fuel a d) (fun d' hd' => hl d' (by simp [hd'])) x hx with h1 | h1
            · have hlt := hl d (by simp)
              -- elements added by visiting d have rank ≤ rank d
              have hle : ∀ (fl : Nat) (d : Nat) (a : List Nat) (x : Nat), x ∈ touchVisit deps fl a d → x ∈ a ∨ rank x ≤ rank d := by
                intro fl
                induction fl with
                | zero => intro d a x hx; exact Or.inl (by simpa [touchVisit] using hx)
                | succ fl ihf =>
                  intro d a x hx
                  simp only [touchVisit] at hx
                  split at hx
                  · exact Or.inl hx
                  · rw [List.mem_append] at hx
                    rcases hx with hx | hx
                    · have : ∀ (l : List Nat) (a : List Nat), (∀ e ∈ l, rank e < rank d) →
                          ∀ x ∈ l.foldl (fun a e => touchVisit deps fl a e) a, x ∈ a ∨ rank x ≤ rank d := by
                        intro l
                        induction l with
                        | nil => intro a _ x hx; exact Or.inl hx
                        | cons e rest ihl2 =>
                          intro a hl2 x hx
                          simp only [List.foldl_cons] at hx
                          rcases ihl2 (touchVisit deps fl a e) (fun e' he' => hl2 e' (by simp [he'])) x hx with h2 | h2
                          · rcases ihf e a x h2 with h3 | h3
                            · exact Or.inl h3
                            · have := hl2 e (by simp); exact Or.inr (by omega)
                          · exact Or.inr h2
                      exact this (deps d) a (fun e he => hr d e he) x hx
                    · simp only [List.mem_singleton] at hx; subst hx; exact Or.inr (Nat.le_refl _)
              rcases hle fuel d a x h1 with h2 | h2
              · exact Or.inl h2
              · exact Or.inr (by omega)
            · exact Or.inr h1
        rcases hext (deps t) acc (fun d hd => hr t d hd) t (by rw [hfold]; simp [h]) with h1 | h1
        · exact hc (by simpa using h1)
        · omega

theorem nodup_of_reverse {α} {l : List α} : l.reverse.Nodup ↔ l.Nodup := by
  simp only [List.Nodup, List.pairwise_reverse]
  constructor <;> intro h <;> exact h.imp (fun hab => Ne.symm hab)


end Gwf
