/-
  Top-level consequences of `visit_spec` for `schedule`, existence/uniqueness of the status map.
-/
import GwfProps.Lemmas.SchedLemmas
namespace Gwf

def Acyclic (w : Wf) : Prop := ∃ rank : Nat → Nat, ∀ t d, d ∈ w.deps t → rank d < rank t

/-- `t` lies in the dependency cone of the requested endpoints -/
def InCone (w : Wf) (eps : List Nat) (t : Nat) : Prop := ∃ e ∈ eps, Reach w e t

theorem PostOrd.deps_cached {w : Wf} : ∀ {c : List (Nat × Status)}, PostOrd w c →
    ∀ t, t ∈ akeys c → ∀ d ∈ w.deps t, d ∈ akeys c
  | [], _, t, ht, _, _ => by simp [akeys] at ht
  | (k, s) :: rest, h, t, ht, d, hd => by
    obtain ⟨_, h2, h3⟩ := h
    simp only [akeys, List.map_cons, List.mem_cons] at ht ⊢
    rcases ht with ht | ht
    · subst ht; exact Or.inr (h2 d hd)
    · exact Or.inr (PostOrd.deps_cached h3 t ht d hd)

theorem PostOrd.reach_cached {w : Wf} {c : List (Nat × Status)} (h : PostOrd w c)
    {t u : Nat} (hr : Reach w t u) (ht : t ∈ akeys c) : u ∈ akeys c := by
  induction hr with
  | refl => exact ht
  | step _ hd ih => exact PostOrd.deps_cached h _ ih _ hd

theorem PostOrd.nodup {w : Wf} : ∀ {c : List (Nat × Status)}, PostOrd w c → (akeys c).Nodup
  | [], _ => by simp [akeys]
  | (k, s) :: rest, h => by
    obtain ⟨h1, _, h3⟩ := h
    simp only [akeys, List.map_cons, List.nodup_cons]
    exact ⟨h1, PostOrd.nodup h3⟩

theorem alook_of_mem_keys_ok {w : Wf} {σ : Nat → Status} {st : SState} (h : Inv w σ st)
    {t : Nat} (ht : t ∈ akeys st.cache) : alook t st.cache = some (σ t) := by
  have := (alook_isSome_iff_mem_keys t st.cache).2 ht
  cases hl : alook t st.cache with
  | none => rw [hl] at this; simp at this
  | some s => rw [h.cache_ok t s hl]

theorem schedule_fold_spec (w : Wf) (σ : Nat → Status) (hσ : IsStatusMap w σ) (rank : Nat → Nat)
    (hr : ∀ t d, d ∈ w.deps t → rank d < rank t) (fuel : Nat) (hf : ∀ t, rank t < fuel) :
    ∀ (eps : List Nat) (st : SState), Inv w σ st →
      let r := eps.foldl (fun st e => (visit w fuel st e).1) st
      Inv w σ r ∧ (∀ e ∈ eps, e ∈ akeys r.cache)
        ∧ ∃ ext, r.cache = ext ++ st.cache ∧ ∀ k ∈ akeys ext, InCone w eps k := by
  intro eps
  induction eps with
  | nil => intro st h; exact ⟨h, by simp, [], by simp, by simp [akeys]⟩
  | cons e rest ih =>
    intro st h
    have hv := visit_spec w σ hσ rank hr fuel e (hf e) st h
    obtain ⟨v1, _, v3, ext, v4, v5⟩ := hv
    have ih' := ih (visit w fuel st e).1 v1
    simp only [List.foldl_cons]
    obtain ⟨i1, i2, ext2, i3, i4⟩ := ih'
    refine ⟨i1, ?_, ext2 ++ ext, ?_, ?_⟩
    · intro e' he'
      simp only [List.mem_cons] at he'
      rcases he' with he' | he'
      · subst he'
        rw [i3, akeys_append, List.mem_append]
        exact Or.inr (mem_akeys_of_alook v3)
      · exact i2 e' he'
    · rw [i3, v4]; simp
    · intro k hk
      rw [akeys_append, List.mem_append] at hk
      rcases hk with hk | hk
      · obtain ⟨e', he', hr'⟩ := i4 k hk
        exact ⟨e', List.mem_cons_of_mem _ he', hr'⟩
      · exact ⟨e, by simp, (v5 k hk).2⟩

theorem inv_empty (w : Wf) (σ : Nat → Status) : Inv w σ {} :=
  ⟨by intro t s h; simp [alook] at h, by simp [expectedLog], by simp [PostOrd]⟩

/-- **Refinement theorem**: the memoised DFS computes exactly the declarative status map on exactly
    the cone, and logs exactly the submitting cone members with their exact prerequisite lists. -/
theorem schedule_refines (w : Wf) (σ : Nat → Status) (hσ : IsStatusMap w σ) (rank : Nat → Nat)
    (hr : ∀ t d, d ∈ w.deps t → rank d < rank t) (fuel : Nat) (hf : ∀ t, rank t < fuel) (eps : List Nat) :
    let st := schedule w fuel eps
    Inv w σ st ∧ (∀ t, t ∈ akeys st.cache ↔ InCone w eps t) := by
  have h := schedule_fold_spec w σ hσ rank hr fuel hf eps {} (inv_empty w σ)
  obtain ⟨h1, h2, ext, h3, h4⟩ := h
  refine ⟨h1, ?_⟩
  intro t
  constructor
  · intro ht
    have : (schedule w fuel eps).cache = ext := by
      simp only [schedule]; rw [h3]; simp
    rw [this] at ht
    exact h4 t ht
  · rintro ⟨e, he, hreach⟩
    exact PostOrd.reach_cached h1.post hreach (h2 e he)

/-! ### existence and uniqueness of the status map on a DAG -/

def sigmaF (w : Wf) : Nat → Nat → Status
  | 0, _ => .completed
  | n+1, t => (decideT (w.bstat t) ((w.deps t).filter (fun d => inSubmitted (sigmaF w n d))) (w.stale t)).1

theorem sigmaF_stable (w : Wf) (rank : Nat → Nat) (hr : ∀ t d, d ∈ w.deps t → rank d < rank t) :
    ∀ n t, rank t < n → ∀ m, n ≤ m → sigmaF w m t = sigmaF w n t := by
  intro n
  induction n with
  | zero => intro t h; omega
  | succ n ih =>
    intro t ht m hm
    obtain ⟨m', rfl⟩ : ∃ m', m = m' + 1 := ⟨m - 1, by omega⟩
    simp only [sigmaF]
    have : (w.deps t).filter (fun d => inSubmitted (sigmaF w m' d)) =
        (w.deps t).filter (fun d => inSubmitted (sigmaF w n d)) := by
      apply List.filter_congr
      intro d hd
      have := hr t d hd
      rw [ih d (by omega) m' (by omega)]
    rw [this]

theorem statusMap_exists (w : Wf) (h : Acyclic w) : ∃ σ, IsStatusMap w σ := by
  obtain ⟨rank, hr⟩ := h
  refine ⟨fun t => sigmaF w (rank t + 1) t, ?_⟩
  intro t
  show (decideT (w.bstat t) ((w.deps t).filter (fun d => inSubmitted (sigmaF w (rank t) d))) (w.stale t)).1
     = (decideT (w.bstat t) ((w.deps t).filter (fun d => inSubmitted (sigmaF w (rank d + 1) d))) (w.stale t)).1
  have : (w.deps t).filter (fun d => inSubmitted (sigmaF w (rank t) d)) =
      (w.deps t).filter (fun d => inSubmitted (sigmaF w (rank d + 1) d)) := by
    apply List.filter_congr
    intro d hd
    have := hr t d hd
    rw [sigmaF_stable w rank hr (rank d + 1) d (by omega) (rank t) (by omega)]
  rw [this]

theorem statusMap_unique (w : Wf) (h : Acyclic w) (σ σ' : Nat → Status)
    (h1 : IsStatusMap w σ) (h2 : IsStatusMap w σ') : ∀ t, σ t = σ' t := by
  obtain ⟨rank, hr⟩ := h
  suffices ∀ n t, rank t < n → σ t = σ' t from fun t => this (rank t + 1) t (by omega)
  intro n
  induction n with
  | zero => intro t h; omega
  | succ n ih =>
    intro t ht
    rw [h1 t, h2 t]
    have : subOf w σ t = subOf w σ' t := by
      simp only [subOf]
      apply List.filter_congr
      intro d hd
      have := hr t d hd
      rw [ih d (by omega)]
    rw [this]

theorem nodup_reverse' {α} {l : List α} : l.reverse.Nodup ↔ l.Nodup := by
  simp only [List.Nodup, List.pairwise_reverse]
  constructor <;> intro h <;> exact h.imp (fun hab => Ne.symm hab)

theorem mem_expectedLog (w : Wf) (σ : Nat → Status) (c : List (Nat × Status)) (t : Nat) (ds : List Nat) :
    (t, ds) ∈ expectedLog w σ c ↔ t ∈ akeys c ∧ submits w σ t = true ∧ ds = subOf w σ t := by
  simp only [expectedLog, List.mem_filterMap, akeys, List.mem_map]
  constructor
  · rintro ⟨⟨k, s⟩, hm, h⟩
    simp only at h
    split at h
    · rename_i hsub
      simp only [Option.some.injEq, Prod.mk.injEq] at h
      obtain ⟨h1, h2⟩ := h
      subst h1
      exact ⟨⟨(k, s), hm, rfl⟩, hsub, h2.symm⟩
    · simp at h
  · rintro ⟨⟨⟨k, s⟩, hm, hk⟩, hsub, hds⟩
    simp only at hk
    subst hk
    exact ⟨(k, s), hm, by simp [hsub, hds]⟩

theorem expectedLog_keys (w : Wf) (σ : Nat → Status) (c : List (Nat × Status)) :
    (expectedLog w σ c).map Prod.fst = (akeys c).filter (fun t => submits w σ t) := by
  induction c with
  | nil => simp [expectedLog, akeys]
  | cons p rest ih =>
    obtain ⟨k, s⟩ := p
    simp only [expectedLog, akeys, List.filterMap_cons, List.map_cons, List.filter_cons] at ih ⊢
    cases h : submits w σ k <;> simp [ih]

theorem expectedLog_order (w : Wf) (σ : Nat → Status) :
    ∀ (c : List (Nat × Status)), PostOrd w c →
    ∀ (a b : List (Nat × List Nat)) (t : Nat) (ds : List Nat),
      expectedLog w σ c = a ++ (t, ds) :: b →
      ∀ d ∈ w.deps t, submits w σ d = true → d ∈ b.map Prod.fst := by
  intro c
  induction c with
  | nil => intro _ a b t ds h; simp [expectedLog] at h
  | cons p rest ih =>
    obtain ⟨k, s⟩ := p
    intro hp a b t ds h d hd hsub
    obtain ⟨_, hdeps, hrest⟩ := hp
    have hstep : expectedLog w σ ((k, s) :: rest) =
        (if submits w σ k = true then [(k, subOf w σ k)] else []) ++ expectedLog w σ rest := by
      simp only [expectedLog, List.filterMap_cons]
      split <;> simp_all
    rw [hstep] at h
    by_cases hk : submits w σ k = true
    · simp only [hk, if_true, List.singleton_append] at h
      cases a with
      | nil =>
        simp only [List.nil_append, List.cons.injEq, Prod.mk.injEq] at h
        obtain ⟨⟨h1, _⟩, h3⟩ := h
        subst h1
        have hm : (d, subOf w σ d) ∈ expectedLog w σ rest :=
          (mem_expectedLog w σ rest d _).2 ⟨hdeps d hd, hsub, rfl⟩
        rw [h3] at hm
        exact List.mem_map.2 ⟨_, hm, rfl⟩
      | cons x a' =>
        simp only [List.cons_append, List.cons.injEq] at h
        exact ih hrest a' b t ds h.2 d hd hsub
    · simp only [hk] at h
      exact ih hrest a b t ds (by simpa using h) d hd hsub


end Gwf
