/- Lemmas about `shouldRun`, `maxTs`, `minTs`, `stamps`. -/
import GwfModel.Sched
namespace Gwf

theorem maxTs_none_iff (l : List Nat) : maxTs l = none ↔ l = [] := by
  cases l with
  | nil => simp [maxTs]
  | cons x xs => simp only [maxTs]; split <;> simp

theorem minTs_none_iff (l : List Nat) : minTs l = none ↔ l = [] := by
  cases l with
  | nil => simp [minTs]
  | cons x xs => simp only [minTs]; split <;> simp

theorem maxTs_spec : ∀ (l : List Nat) (m : Nat), maxTs l = some m → m ∈ l ∧ ∀ x ∈ l, x ≤ m
  | [], m, h => by simp [maxTs] at h
  | x :: xs, m, h => by
    simp only [maxTs] at h
    split at h
    · rename_i hn
      have : xs = [] := (maxTs_none_iff xs).1 hn
      subst this
      simp at h; subst h; simp
    · rename_i m' hm'
      have ih := maxTs_spec xs m' hm'
      simp only [Option.some.injEq] at h
      split at h
      · subst h
        refine ⟨by simp, ?_⟩
        intro y hy
        simp only [List.mem_cons] at hy
        rcases hy with hy | hy
        · omega
        · have := ih.2 y hy; omega
      · subst h
        refine ⟨List.mem_cons_of_mem _ ih.1, ?_⟩
        intro y hy
        simp only [List.mem_cons] at hy
        rcases hy with hy | hy
        · omega
        · exact ih.2 y hy

theorem minTs_spec : ∀ (l : List Nat) (m : Nat), minTs l = some m → m ∈ l ∧ ∀ x ∈ l, m ≤ x
  | [], m, h => by simp [minTs] at h
  | x :: xs, m, h => by
    simp only [minTs] at h
    split at h
    · rename_i hn
      have : xs = [] := (minTs_none_iff xs).1 hn
      subst this
      simp at h; subst h; simp
    · rename_i m' hm'
      have ih := minTs_spec xs m' hm'
      simp only [Option.some.injEq] at h
      split at h
      · subst h
        refine ⟨by simp, ?_⟩
        intro y hy
        simp only [List.mem_cons] at hy
        rcases hy with hy | hy
        · omega
        · have := ih.2 y hy; omega
      · subst h
        refine ⟨List.mem_cons_of_mem _ ih.1, ?_⟩
        intro y hy
        simp only [List.mem_cons] at hy
        rcases hy with hy | hy
        · omega
        · exact ih.2 y hy

/-- the code's `max(inputs) > min(outputs)` is "some input is strictly newer than some output" -/
theorem newerThan_iff (a b : List Nat) :
    newerThan (maxTs a) (minTs b) = true ↔ ∃ i ∈ a, ∃ o ∈ b, o < i := by
  cases ha : maxTs a with
  | none =>
    have := (maxTs_none_iff a).1 ha; subst this
    simp [newerThan]
  | some m =>
    cases hb : minTs b with
    | none =>
      have := (minTs_none_iff b).1 hb; subst this
      simp [newerThan]
    | some n =>
      have h1 := maxTs_spec a m ha
      have h2 := minTs_spec b n hb
      simp only [newerThan, decide_eq_true_eq]
      constructor
      · intro h; exact ⟨m, h1.1, n, h2.1, h⟩
      · rintro ⟨i, hi, o, ho, hlt⟩
        have := h1.2 i hi; have := h2.2 o ho; omega

variable {α : Type}

theorem stamps_isSome_iff (fs : α → Option Nat) (l : List α) :
    (stamps fs l).isSome ↔ ∀ p ∈ l, (fs p).isSome := by
  induction l with
  | nil => simp [stamps]
  | cons p ps ih =>
    simp only [stamps, List.mem_cons, forall_eq_or_imp]
    cases hp : fs p <;> cases hs : stamps fs ps <;> simp_all

theorem mem_stamps (fs : α → Option Nat) : ∀ (l : List α) (ts : List Nat), stamps fs l = some ts →
    ∀ x, x ∈ ts ↔ ∃ p ∈ l, fs p = some x
  | [], ts, h, x => by simp [stamps] at h; subst h; simp
  | p :: ps, ts, h, x => by
    simp only [stamps] at h
    cases hp : fs p with
    | none => simp [hp] at h
    | some t =>
      cases hs : stamps fs ps with
      | none => simp [hp, hs] at h
      | some ts' =>
        simp [hp, hs] at h
        subst h
        have ih := mem_stamps fs ps ts' hs x
        simp only [List.mem_cons, ih]
        constructor
        · rintro (h | ⟨q, hq, hx⟩)
          · exact ⟨p, Or.inl rfl, by rw [hp, h]⟩
          · exact ⟨q, Or.inr hq, hx⟩
        · rintro ⟨q, hq | hq, hx⟩
          · subst hq; rw [hp] at hx; simp at hx; exact Or.inl hx.symm
          · exact Or.inr ⟨q, hq, hx⟩

end Gwf
