/- The pool invariant is preserved by every label; reachable states. -/
import GwfProps.Lemmas.PoolInv
namespace Gwf.Pool

theorem TInv.mono {s s' : Pool} {t : Task} {held : Bool}
    (h1 : ∀ d, s.depOk d = true → s'.depOk d = true)
    (h2 : ∀ d x, s.depIs d x = true → s'.depIs d x = true)
    (hi : TInv s t held) : TInv s' t held := by
  obtain ⟨i1, i2, i3, i4, i5, i6, i7, i8, i9, i10, i11, i12, i13, i14, i15, i16, i17, i18⟩ := hi
  refine ⟨i1, ?_, i3, i4, i5, i6, i7, i8, ?_, i10, i11, i12, i13, i14, i15, i16, i17, i18⟩
  · intro hsp
    have := i2 hsp
    rw [List.all_eq_true] at this ⊢
    exact fun d hd => h1 d (this d hd)
  · intro x hx
    obtain ⟨a, b, c⟩ := i9 x hx
    refine ⟨a, b, ?_⟩
    rw [List.any_eq_true] at c ⊢
    obtain ⟨d, hd, hd2⟩ := c
    exact ⟨d, hd, h2 d x hd2⟩

structure GInv (s : Pool) : Prop where
  inv : Inv s
  nodup : s.holders.Nodup
  valid : ∀ h ∈ s.holders, h < s.tasks.length

theorem holds_bit (h : HoldEff) (tid : Nat) (holders : List Nat) (hn : holders.Nodup) :
    (h.apply tid holders).contains tid = h.bit (holders.contains tid) := by
  cases h
  · rfl
  · simp [HoldEff.apply, HoldEff.bit]
  · simp only [HoldEff.apply, HoldEff.bit, List.contains_iff_mem, List.elem_eq_mem, decide_eq_false_iff_not]
    exact fun hm => (List.Nodup.mem_erase_iff hn).1 hm |>.1 rfl

theorem stepTask_add (s : Pool) (tid : Nat) (t t' : Task) (l : Label)
    (hs : stepTask s tid t l = some (t', .add)) : s.holders.length < s.maxCores ∧ s.holds tid = false := by
  cases l <;> simp only [stepTask] at hs
  case acq =>
    split at hs
    · rename_i hg; simp only [Bool.and_eq_true, Bool.not_eq_true', decide_eq_true_eq] at hg; exact ⟨hg.2, hg.1.2⟩
    · simp at hs
  case set x st' => cases st' <;> simp only at hs <;> (repeat' split at hs) <;> simp at hs
  all_goals ((repeat' split at hs) <;> simp at hs)

theorem step_eq (s : Pool) (l : Label) (tid : Nat) (hl : l.tid? = some tid) :
    step s l = match s.task? tid with
      | none => none
      | some t => match stepTask s tid t l with
        | none => none
        | some (t', h) => some { s with tasks := s.tasks.set tid t', holders := h.apply tid s.holders } := by
  cases l <;> simp only [Label.tid?, reduceCtorEq, Option.some.injEq] at hl <;> subst hl <;> rfl

theorem step_target (s s' : Pool) (l : Label) (tid : Nat) (hl : l.tid? = some tid) (hs : step s l = some s') :
    ∃ t t' h, s.task? tid = some t ∧ stepTask s tid t l = some (t', h) ∧
      s' = { s with tasks := s.tasks.set tid t', holders := h.apply tid s.holders } := by
  rw [step_eq s l tid hl] at hs
  cases ht : s.task? tid with
  | none => simp [ht] at hs
  | some t =>
    simp only [ht] at hs
    cases hst : stepTask s tid t l with
    | none => simp [hst] at hs
    | some p =>
      obtain ⟨t', h⟩ := p
      simp only [hst, Option.some.injEq] at hs
      exact ⟨t, t', h, rfl, hst, hs.symm⟩

theorem depOk_set (s : Pool) (tid : Nat) (t t' : Task) (holders : List Nat) (ht : s.task? tid = some t)
    (hfrozen : t.phase = .done → t' = t) (d : Nat) (h : s.depOk d = true) :
    ({ s with tasks := s.tasks.set tid t', holders := holders } : Pool).depOk d = true := by
  by_cases hd : d = tid
  · subst hd
    simp only [Pool.depOk, ht, Bool.and_eq_true, beq_iff_eq] at h
    have := hfrozen h.1
    subst this
    simp [Pool.depOk, task?_set_same s d t' t' holders ht, h.1, h.2]
  · simp only [Pool.depOk, task?_set_other s tid d t' holders hd] at h ⊢
    exact h

theorem depIs_set (s : Pool) (tid : Nat) (t t' : Task) (holders : List Nat) (ht : s.task? tid = some t)
    (hfrozen : t.phase = .done → t' = t) (d : Nat) (x : LStatus) (h : s.depIs d x = true) :
    ({ s with tasks := s.tasks.set tid t', holders := holders } : Pool).depIs d x = true := by
  by_cases hd : d = tid
  · subst hd
    simp only [Pool.depIs, ht, Bool.and_eq_true, beq_iff_eq] at h
    have := hfrozen h.1
    subst this
    simp [Pool.depIs, task?_set_same s d t' t' holders ht, h.1, h.2]
  · simp only [Pool.depIs, task?_set_other s tid d t' holders hd] at h ⊢
    exact h

theorem task?_append_old (s : Pool) (x : Task) (tid : Nat) (t : Task) (h : s.task? tid = some t) :
    ({ s with tasks := s.tasks ++ [x] } : Pool).task? tid = some t := by
  simp only [Pool.task?] at h ⊢
  have hlt : tid < s.tasks.length := by
    rcases Nat.lt_or_ge tid s.tasks.length with hl | hl
    · exact hl
    · rw [List.getElem?_eq_none hl] at h; simp at h
  rw [List.getElem?_append_left hlt]; exact h

/-- **every label preserves the invariant** -/
theorem step_ginv (s s' : Pool) (l : Label) (hi : GInv s) (hs : step s l = some s') : GInv s' ∧ s'.maxCores = s.maxCores := by
  cases hl : l.tid? with
  | none =>
    cases l <;> simp only [Label.tid?, reduceCtorEq] at hl <;> simp only [step, Option.some.injEq] at hs <;> subst hs
    case enq deps limit =>
      refine ⟨⟨⟨?_, hi.inv.cores⟩, hi.nodup, fun h hh => by
        have := hi.valid h hh; simp only [List.length_append, List.length_cons, List.length_nil]; omega⟩, rfl⟩
      intro tid t ht
      have hmono1 : ∀ d, s.depOk d = true → ({ s with tasks := s.tasks ++ [{ deps := deps, limit := limit }] } : Pool).depOk d = true := by
        intro d hd
        simp only [Pool.depOk] at hd ⊢
        cases htd : s.task? d with
        | none => simp [htd] at hd
        | some td => rw [task?_append_old s _ d td htd]; simpa [htd] using hd
      have hmono2 : ∀ d x, s.depIs d x = true → ({ s with tasks := s.tasks ++ [{ deps := deps, limit := limit }] } : Pool).depIs d x = true := by
        intro d x hd
        simp only [Pool.depIs] at hd ⊢
        cases htd : s.task? d with
        | none => simp [htd] at hd
        | some td => rw [task?_append_old s _ d td htd]; simpa [htd] using hd
      by_cases hlt : tid < s.tasks.length
      · have hold : s.task? tid = some t := by
          simp only [Pool.task?] at ht ⊢
          rw [List.getElem?_append_left hlt] at ht; exact ht
        exact TInv.mono hmono1 hmono2 (hi.inv.tasks tid t hold)
      · simp only [Pool.task?] at ht
        have hge : s.tasks.length ≤ tid := Nat.le_of_not_lt hlt
        rw [List.getElem?_append_right hge] at ht
        cases hk : tid - s.tasks.length with
        | zero =>
          simp [hk] at ht
          subst ht
          have hnh : s.holds tid = false := by
            simp only [Pool.holds, List.contains_iff_mem, List.elem_eq_mem, decide_eq_false_iff_not]
            intro hm; have := hi.valid tid hm; omega
          constructor <;> intros <;> simp_all [LStatus.final, Pool.holds]
        | succ k => simp [hk] at ht
    case tick dt =>
      refine ⟨⟨⟨fun tid t ht => ?_, hi.inv.cores⟩, hi.nodup, hi.valid⟩, rfl⟩
      have : TInv { s with now := s.now + dt } t (s.holds tid) :=
        TInv.mono (s := s) (fun d h => h) (fun d x h => h) (hi.inv.tasks tid t ht)
      exact this
    case breakLogs b =>
      refine ⟨⟨⟨fun tid t ht => ?_, hi.inv.cores⟩, hi.nodup, hi.valid⟩, rfl⟩
      have : TInv { s with logsBroken := b } t (s.holds tid) :=
        TInv.mono (s := s) (fun d h => h) (fun d x h => h) (hi.inv.tasks tid t ht)
      exact this
  | some tid =>
    obtain ⟨t, t', h, ht, hst, rfl⟩ := step_target s s' l tid hl hs
    have hti := hi.inv.tasks tid t ht
    have hfrozen : t.phase = .done → t' = t := fun hd => (stepTask_done s tid t t' _ h l hti rfl hd hst).1
    have hnew := stepTask_inv s tid t t' (s.holds tid) h l hti rfl hst
    have htlt : tid < s.tasks.length := by
      simp only [Pool.task?] at ht
      rcases Nat.lt_or_ge tid s.tasks.length with hl | hl
      · exact hl
      · rw [List.getElem?_eq_none hl] at ht; simp at ht
    refine ⟨⟨⟨?_, ?_⟩, ?_, ?_⟩, rfl⟩
    · intro tid' tk htk
      by_cases he : tid' = tid
      · subst he
        rw [task?_set_same s tid' t t' _ ht] at htk
        simp only [Option.some.injEq] at htk
        subst htk
        have hb : ({ s with tasks := s.tasks.set tid' t', holders := h.apply tid' s.holders } : Pool).holds tid'
            = h.bit (s.holds tid') := holds_bit h tid' s.holders hi.nodup
        rw [hb]
        exact TInv.mono (depOk_set s tid' t t' _ ht hfrozen) (depIs_set s tid' t t' _ ht hfrozen) hnew
      · rw [task?_set_other s tid tid' t' _ he] at htk
        have hb : ({ s with tasks := s.tasks.set tid t', holders := h.apply tid s.holders } : Pool).holds tid'
            = s.holds tid' := holds_apply_other h tid tid' s.holders he
        rw [hb]
        exact TInv.mono (depOk_set s tid t t' _ ht hfrozen) (depIs_set s tid t t' _ ht hfrozen) (hi.inv.tasks tid' tk htk)
    · show (h.apply tid s.holders).length ≤ s.maxCores
      cases h with
      | keep => exact hi.inv.cores
      | add => have := (stepTask_add s tid t t' l hst).1; simp only [HoldEff.apply, List.length_cons]; omega
      | remove =>
        have := hi.inv.cores
        have := List.length_erase_le (a := tid) (l := s.holders)
        simp only [HoldEff.apply]; omega
    · show (h.apply tid s.holders).Nodup
      cases h with
      | keep => exact hi.nodup
      | add =>
        have := (stepTask_add s tid t t' l hst).2
        simp only [HoldEff.apply, List.nodup_cons]
        refine ⟨?_, hi.nodup⟩
        simp only [Pool.holds, List.contains_iff_mem, List.elem_eq_mem, decide_eq_false_iff_not] at this
        exact this
      | remove => exact hi.nodup.erase tid
    · show ∀ x ∈ h.apply tid s.holders, x < (s.tasks.set tid t').length
      intro x hx
      simp only [List.length_set]
      cases h with
      | keep => exact hi.valid x hx
      | add =>
        simp only [HoldEff.apply, List.mem_cons] at hx
        rcases hx with e | e
        · subst e; exact htlt
        · exact hi.valid x e
      | remove => exact hi.valid x (List.mem_of_mem_erase hx)

/-- states reachable from the empty pool with `c` cores by any sequence of labels -/
inductive Reachable (c : Nat) : Pool → Prop
  | init : Reachable c (init c)
  | step {s s' : Pool} {l : Label} : Reachable c s → step s l = some s' → Reachable c s'

theorem ginv_init (c : Nat) : GInv (init c) := by
  refine ⟨⟨?_, by simp [init]⟩, by simp [init], by simp [init]⟩
  intro tid t ht
  simp [init, Pool.task?] at ht

theorem reachable_ginv {c : Nat} {s : Pool} (h : Reachable c s) : GInv s ∧ s.maxCores = c := by
  induction h with
  | init => exact ⟨ginv_init c, rfl⟩
  | step _ hs ih =>
    have := step_ginv _ _ _ ih.1 hs
    exact ⟨this.1, by rw [this.2, ih.2]⟩

theorem run_reachable {c : Nat} : ∀ (ls : List Label) (s s' : Pool), Reachable c s → run s ls = some s' → Reachable c s'
  | [], s, s', h, e => by simp [run] at e; subst e; exact h
  | l :: ls, s, s', h, e => by
    simp only [run] at e
    cases hs : step s l with
    | none => simp [hs] at e
    | some s1 => simp only [hs] at e; exact run_reachable ls s1 s' (Reachable.step h hs) e

end Gwf.Pool
