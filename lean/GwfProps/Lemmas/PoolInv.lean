/- Invariants of the local-pool LTS, preserved by every label. -/
import GwfModel.Pool
namespace Gwf.Pool

/-- dependency `d` is finished with state `x` -/
def Pool.depIs (s : Pool) (d : Nat) (x : LStatus) : Bool :=
  match s.task? d with
  | some t => t.phase == .done && t.st == x
  | none => false

/-- the invariant of one task (`held` = it is in `holders`) -/
structure TInv (s : Pool) (t : Task) (held : Bool) : Prop where
  alive_held : t.alive = true → held = true ∧ t.spawned = true
  spawned_deps : t.spawned = true → t.deps.all s.depOk = true
  done_final : t.phase = .done → LStatus.final t.st = true ∧ held = false ∧ t.alive = false
  completed_ran : t.st = .completed → t.spawned = true ∧ t.exitCode = some 0 ∧ t.hist = .ranExit 0 ∧ t.cancelReq = false
  cancel_st : t.cancelReq = true → t.st = .cancelled
  failed_hist : t.st = .failed → (∃ c, t.hist = .ranExit c ∧ c ≠ 0 ∧ t.spawned = true) ∨ (t.hist = .logFailed ∧ t.spawned = true)
      ∨ t.hist = .spawnFailed ∨ t.hist = .depBad .failed ∨ t.hist = .unknownDep
  killed_hist : t.st = .killed → (t.hist = .timedOut ∧ t.spawned = true ∧ t.limit ≠ none) ∨ t.hist = .depBad .killed
  cancelled_hist : t.st = .cancelled → t.hist = .cancelled ∨ t.hist = .depBad .cancelled
  depBad_dep : ∀ x, t.hist = .depBad x → t.spawned = false ∧ x ≠ .completed ∧ t.deps.any (fun d => s.depIs d x) = true
  early_hist : (t.phase = .waiting ∨ t.phase = .waitCore ∨ t.phase = .starting) → t.cancelReq = false → t.hist = .none ∧ t.spawned = false
  running_hist : t.phase = .running → t.cancelReq = false → t.st = .running ∧ t.hist = .none ∧ t.spawned = true
  failing_hist : t.phase = .failing → t.hist = .spawnFailed ∨ t.cancelReq = true
  killT_hist : t.phase = .killT → t.cancelReq = false → t.hist = .timedOut ∧ t.spawned = true ∧ t.limit ≠ none ∧ t.st = .running
  st_known : t.st ≠ .unknown
  alive_phase : t.alive = true → (t.phase = .running ∨ t.phase = .killT ∨ t.phase = .killC) ∧ (t.st = .running ∨ t.st = .cancelled)
  depBad_st : ∀ x, t.hist = .depBad x → t.st = x
  ranExit_st : ∀ c, t.hist = .ranExit c → (c = 0 ∧ t.st = .completed) ∨ (c ≠ 0 ∧ t.st = .failed)
  held_phase : held = true → t.phase = .starting ∨ t.phase = .running ∨ t.phase = .killT ∨ t.phase = .killC
      ∨ t.phase = .failing ∨ t.phase = .finishing

structure Inv (s : Pool) : Prop where
  tasks : ∀ tid t, s.task? tid = some t → TInv s t (s.holds tid)
  cores : s.holders.length ≤ s.maxCores

theorem task?_set_same (s : Pool) (tid : Nat) (t t' : Task) (holders : List Nat) (h : s.task? tid = some t) :
    ({ s with tasks := s.tasks.set tid t', holders := holders } : Pool).task? tid = some t' := by
  simp only [Pool.task?] at h ⊢
  have : tid < s.tasks.length := by
    rcases Nat.lt_or_ge tid s.tasks.length with hl | hl
    · exact hl
    · rw [List.getElem?_eq_none hl] at h; simp at h
  simp [List.getElem?_set, this]

theorem task?_set_other (s : Pool) (tid tid' : Nat) (t' : Task) (holders : List Nat) (h : tid' ≠ tid) :
    ({ s with tasks := s.tasks.set tid t', holders := holders } : Pool).task? tid' = s.task? tid' := by
  simp only [Pool.task?]
  rw [List.getElem?_set_ne (Ne.symm h)]

theorem holds_apply_other (h : HoldEff) (tid tid' : Nat) (holders : List Nat) (hne : tid' ≠ tid) :
    (h.apply tid holders).contains tid' = holders.contains tid' := by
  cases h
  · rfl
  · simp [HoldEff.apply, hne]
  · simp only [HoldEff.apply, List.contains_iff_mem, List.elem_eq_mem, decide_eq_decide]
    exact List.mem_erase_of_ne hne

/-- a finished task is frozen: no label changes it -/
theorem stepTask_done (s : Pool) (tid : Nat) (t t' : Task) (held : Bool) (h : HoldEff) (l : Label)
    (hi : TInv s t held) (hh : held = s.holds tid) (hd : t.phase = .done)
    (hs : stepTask s tid t l = some (t', h)) : t' = t ∧ h = .keep := by
  have hf := hi.done_final hd
  cases l <;> simp only [stepTask] at hs
  case cancelReq =>
    have : LStatus.final t.st = true := hf.1
    cases hst : t.st <;> simp [hst, LStatus.final] at this hs ⊢ <;> simp_all
  case exit => simp [hf.2.2] at hs
  case acqReq => simp [hd] at hs
  case acq => simp [hd] at hs
  case rel => simp [hd] at hs
  case spawn => simp [hd] at hs
  case spawnFail => simp [hd] at hs
  case kill => simp [hd] at hs
  case taskDone => simp [hd] at hs
  case set tid' st' =>
    cases st' <;> simp only [hd] at hs <;> simp at hs
    case cancelled =>
      obtain ⟨_, h1, h2⟩ := hs
      exact ⟨h1.symm, h2.symm⟩
  all_goals simp at hs

end Gwf.Pool

namespace Gwf.Pool

def HoldEff.bit (h : HoldEff) (held : Bool) : Bool :=
  match h with
  | .keep => held
  | .add => true
  | .remove => false

theorem firstBad_depIs (s : Pool) (deps : List Nat) (x : LStatus) (hall : deps.all s.depDone = true)
    (h : s.firstBad deps = some x) : x ≠ .completed ∧ deps.any (fun d => s.depIs d x) = true := by
  simp only [Pool.firstBad] at h
  cases hf : deps.find? (fun d => !s.depOk d) with
  | none => simp [hf] at h
  | some d =>
    simp only [hf, Option.map_eq_some_iff] at h
    obtain ⟨t, ht, hx⟩ := h
    have hmem := List.mem_of_find?_eq_some hf
    have hnot := List.find?_some hf
    have hdone := (List.all_eq_true.1 hall) d hmem
    simp only [Pool.depDone, ht] at hdone
    simp only [Pool.depOk, ht, Bool.not_eq_true', Bool.and_eq_false_iff] at hnot
    subst hx
    refine ⟨?_, List.any_eq_true.2 ⟨d, hmem, by simp [Pool.depIs, ht, hdone]⟩⟩
    intro hc
    rcases hnot with h1 | h1
    · rw [hdone] at h1; simp at h1
    · simp [hc] at h1

macro "tinv_close" : tactic => `(tactic| (constructor <;> intros <;> simp_all [LStatus.final, HoldEff.bit]))


set_option maxHeartbeats 1000000 in
theorem inv_cancelReq (s : Pool) (tid : Nat) (t t' : Task) (held : Bool) (h : HoldEff) (x : Nat)
    (hi : TInv s t held) (hh : held = s.holds tid)
    (hs : stepTask s tid t (.cancelReq x) = some (t', h)) : TInv s t' (h.bit held) := by
  obtain ⟨i1, i2, i3, i4, i5, i6, i7, i8, i9, i10, i11, i12, i13, i14, i15, i16, i17, i18⟩ := hi
  simp only [stepTask] at hs
  split at hs
  · simp only [Option.some.injEq, Prod.mk.injEq] at hs
    obtain ⟨rfl, rfl⟩ := hs
    constructor <;> intros <;> simp_all [LStatus.final, HoldEff.bit]
    all_goals (cases hp : t.phase <;> simp_all)
  · simp only [Option.some.injEq, Prod.mk.injEq] at hs
    obtain ⟨rfl, rfl⟩ := hs
    exact ⟨i1, i2, i3, i4, i5, i6, i7, i8, i9, i10, i11, i12, i13, i14, i15, i16, i17, i18⟩

set_option maxHeartbeats 1000000 in
theorem inv_exit (s : Pool) (tid : Nat) (t t' : Task) (held : Bool) (h : HoldEff) (x : Nat) (c : Int)
    (hi : TInv s t held) (hh : held = s.holds tid)
    (hs : stepTask s tid t (.exit x c) = some (t', h)) : TInv s t' (h.bit held) := by
  obtain ⟨i1, i2, i3, i4, i5, i6, i7, i8, i9, i10, i11, i12, i13, i14, i15, i16, i17, i18⟩ := hi
  simp only [stepTask] at hs
  split at hs
  · simp only [Option.some.injEq, Prod.mk.injEq] at hs
    obtain ⟨rfl, rfl⟩ := hs
    constructor <;> intros <;> simp_all [LStatus.final, HoldEff.bit]
  · simp at hs

set_option maxHeartbeats 1000000 in
theorem inv_acqReq (s : Pool) (tid : Nat) (t t' : Task) (held : Bool) (h : HoldEff) (x : Nat)
    (hi : TInv s t held) (hh : held = s.holds tid)
    (hs : stepTask s tid t (.acqReq x) = some (t', h)) : TInv s t' (h.bit held) := by
  obtain ⟨i1, i2, i3, i4, i5, i6, i7, i8, i9, i10, i11, i12, i13, i14, i15, i16, i17, i18⟩ := hi
  simp only [stepTask] at hs
  split at hs
  · simp only [Option.some.injEq, Prod.mk.injEq] at hs
    obtain ⟨rfl, rfl⟩ := hs
    constructor <;> intros <;> simp_all [LStatus.final, HoldEff.bit]
  · simp at hs

set_option maxHeartbeats 1000000 in
theorem inv_acq (s : Pool) (tid : Nat) (t t' : Task) (held : Bool) (h : HoldEff) (x : Nat)
    (hi : TInv s t held) (hh : held = s.holds tid)
    (hs : stepTask s tid t (.acq x) = some (t', h)) : TInv s t' (h.bit held) := by
  obtain ⟨i1, i2, i3, i4, i5, i6, i7, i8, i9, i10, i11, i12, i13, i14, i15, i16, i17, i18⟩ := hi
  simp only [stepTask] at hs
  split at hs
  · simp only [Option.some.injEq, Prod.mk.injEq] at hs
    obtain ⟨rfl, rfl⟩ := hs
    constructor <;> intros <;> simp_all [LStatus.final, HoldEff.bit]
  · simp at hs

set_option maxHeartbeats 1000000 in
theorem inv_rel (s : Pool) (tid : Nat) (t t' : Task) (held : Bool) (h : HoldEff) (x : Nat)
    (hi : TInv s t held) (hh : held = s.holds tid)
    (hs : stepTask s tid t (.rel x) = some (t', h)) : TInv s t' (h.bit held) := by
  obtain ⟨i1, i2, i3, i4, i5, i6, i7, i8, i9, i10, i11, i12, i13, i14, i15, i16, i17, i18⟩ := hi
  simp only [stepTask] at hs
  split at hs
  · simp only [Option.some.injEq, Prod.mk.injEq] at hs
    obtain ⟨rfl, rfl⟩ := hs
    constructor <;> intros <;> simp_all [LStatus.final, HoldEff.bit]
  · simp at hs

set_option maxHeartbeats 1000000 in
theorem inv_spawn (s : Pool) (tid : Nat) (t t' : Task) (held : Bool) (h : HoldEff) (x : Nat)
    (hi : TInv s t held) (hh : held = s.holds tid)
    (hs : stepTask s tid t (.spawn x) = some (t', h)) : TInv s t' (h.bit held) := by
  obtain ⟨i1, i2, i3, i4, i5, i6, i7, i8, i9, i10, i11, i12, i13, i14, i15, i16, i17, i18⟩ := hi
  simp only [stepTask] at hs
  split at hs
  · simp only [Option.some.injEq, Prod.mk.injEq] at hs
    obtain ⟨rfl, rfl⟩ := hs
    constructor <;> intros <;> simp_all [LStatus.final, HoldEff.bit]
  · split at hs
    · simp only [Option.some.injEq, Prod.mk.injEq] at hs
      obtain ⟨rfl, rfl⟩ := hs
      constructor <;> intros <;> simp_all [LStatus.final, HoldEff.bit]
    · simp at hs

set_option maxHeartbeats 1000000 in
theorem inv_spawnFail (s : Pool) (tid : Nat) (t t' : Task) (held : Bool) (h : HoldEff) (x : Nat)
    (hi : TInv s t held) (hh : held = s.holds tid)
    (hs : stepTask s tid t (.spawnFail x) = some (t', h)) : TInv s t' (h.bit held) := by
  obtain ⟨i1, i2, i3, i4, i5, i6, i7, i8, i9, i10, i11, i12, i13, i14, i15, i16, i17, i18⟩ := hi
  simp only [stepTask] at hs
  split at hs
  · simp only [Option.some.injEq, Prod.mk.injEq] at hs
    obtain ⟨rfl, rfl⟩ := hs
    constructor <;> intros <;> simp_all [LStatus.final, HoldEff.bit]
  · split at hs
    · simp only [Option.some.injEq, Prod.mk.injEq] at hs
      obtain ⟨rfl, rfl⟩ := hs
      exact ⟨i1, i2, i3, i4, i5, i6, i7, i8, i9, i10, i11, i12, i13, i14, i15, i16, i17, by simpa [HoldEff.bit] using i18⟩
    · simp at hs

set_option maxHeartbeats 1000000 in
theorem inv_taskDone (s : Pool) (tid : Nat) (t t' : Task) (held : Bool) (h : HoldEff) (x : Nat) (c : Bool)
    (hi : TInv s t held) (hh : held = s.holds tid)
    (hs : stepTask s tid t (.taskDone x c) = some (t', h)) : TInv s t' (h.bit held) := by
  obtain ⟨i1, i2, i3, i4, i5, i6, i7, i8, i9, i10, i11, i12, i13, i14, i15, i16, i17, i18⟩ := hi
  simp only [stepTask] at hs
  split at hs
  · simp only [Option.some.injEq, Prod.mk.injEq] at hs
    obtain ⟨rfl, rfl⟩ := hs
    constructor <;> intros <;> simp_all [LStatus.final, HoldEff.bit]
  · simp at hs

set_option maxHeartbeats 1000000 in
theorem inv_kill (s : Pool) (tid : Nat) (t t' : Task) (held : Bool) (h : HoldEff) (x : Nat)
    (hi : TInv s t held) (hh : held = s.holds tid)
    (hs : stepTask s tid t (.kill x) = some (t', h)) : TInv s t' (h.bit held) := by
  obtain ⟨i1, i2, i3, i4, i5, i6, i7, i8, i9, i10, i11, i12, i13, i14, i15, i16, i17, i18⟩ := hi
  simp only [stepTask] at hs
  split at hs
  · simp only [Option.some.injEq, Prod.mk.injEq] at hs
    obtain ⟨rfl, rfl⟩ := hs
    constructor <;> intros <;> simp_all [LStatus.final, HoldEff.bit]
  · split at hs
    · simp only [Option.some.injEq, Prod.mk.injEq] at hs
      obtain ⟨rfl, rfl⟩ := hs
      constructor <;> intros <;> simp_all [LStatus.final, HoldEff.bit, timeoutDue]
      all_goals (cases hl : t.limit <;> simp_all)
    · simp at hs

set_option maxHeartbeats 1000000 in
theorem inv_set_submitted (s : Pool) (tid : Nat) (t t' : Task) (held : Bool) (h : HoldEff) (x : Nat)
    (hi : TInv s t held) (hh : held = s.holds tid)
    (hs : stepTask s tid t (.set x .submitted) = some (t', h)) : TInv s t' (h.bit held) := by
  obtain ⟨i1, i2, i3, i4, i5, i6, i7, i8, i9, i10, i11, i12, i13, i14, i15, i16, i17, i18⟩ := hi
  simp only [stepTask] at hs
  split at hs
  · simp only [Option.some.injEq, Prod.mk.injEq] at hs
    obtain ⟨rfl, rfl⟩ := hs
    exact ⟨i1, i2, i3, i4, i5, i6, i7, i8, i9, i10, i11, i12, i13, i14, i15, i16, i17, i18⟩
  · simp at hs

set_option maxHeartbeats 1000000 in
theorem inv_set_running (s : Pool) (tid : Nat) (t t' : Task) (held : Bool) (h : HoldEff) (x : Nat)
    (hi : TInv s t held) (hh : held = s.holds tid)
    (hs : stepTask s tid t (.set x .running) = some (t', h)) : TInv s t' (h.bit held) := by
  obtain ⟨i1, i2, i3, i4, i5, i6, i7, i8, i9, i10, i11, i12, i13, i14, i15, i16, i17, i18⟩ := hi
  simp only [stepTask] at hs
  split at hs
  · simp only [Option.some.injEq, Prod.mk.injEq] at hs
    obtain ⟨rfl, rfl⟩ := hs
    constructor <;> intros <;> simp_all [LStatus.final, HoldEff.bit]
  · simp at hs

set_option maxHeartbeats 1000000 in
theorem inv_set_completed (s : Pool) (tid : Nat) (t t' : Task) (held : Bool) (h : HoldEff) (x : Nat)
    (hi : TInv s t held) (hh : held = s.holds tid)
    (hs : stepTask s tid t (.set x .completed) = some (t', h)) : TInv s t' (h.bit held) := by
  obtain ⟨i1, i2, i3, i4, i5, i6, i7, i8, i9, i10, i11, i12, i13, i14, i15, i16, i17, i18⟩ := hi
  simp only [stepTask] at hs
  split at hs
  · simp only [Option.some.injEq, Prod.mk.injEq] at hs
    obtain ⟨rfl, rfl⟩ := hs
    constructor <;> intros <;> simp_all [LStatus.final, HoldEff.bit]
  · simp at hs

set_option maxHeartbeats 1000000 in
theorem inv_set_cancelled (s : Pool) (tid : Nat) (t t' : Task) (held : Bool) (h : HoldEff) (x : Nat)
    (hi : TInv s t held) (hh : held = s.holds tid)
    (hs : stepTask s tid t (.set x .cancelled) = some (t', h)) : TInv s t' (h.bit held) := by
  obtain ⟨i1, i2, i3, i4, i5, i6, i7, i8, i9, i10, i11, i12, i13, i14, i15, i16, i17, i18⟩ := hi
  simp only [stepTask] at hs
  split at hs
  · simp only [Option.some.injEq, Prod.mk.injEq] at hs
    obtain ⟨rfl, rfl⟩ := hs
    exact ⟨i1, i2, i3, i4, i5, i6, i7, i8, i9, i10, i11, i12, i13, i14, i15, i16, i17, i18⟩
  · split at hs
    · simp only [Option.some.injEq, Prod.mk.injEq] at hs
      obtain ⟨rfl, rfl⟩ := hs
      rename_i hg
      simp only [Bool.and_eq_true, beq_iff_eq, Bool.not_eq_true'] at hg
      have hfb := firstBad_depIs s t.deps .cancelled hg.1.2 hg.2
      constructor <;> intros <;> simp_all [LStatus.final, HoldEff.bit]
      all_goals (subst_vars; simp_all)
    · simp at hs

set_option maxHeartbeats 1000000 in
theorem inv_set_killed (s : Pool) (tid : Nat) (t t' : Task) (held : Bool) (h : HoldEff) (x : Nat)
    (hi : TInv s t held) (hh : held = s.holds tid)
    (hs : stepTask s tid t (.set x .killed) = some (t', h)) : TInv s t' (h.bit held) := by
  obtain ⟨i1, i2, i3, i4, i5, i6, i7, i8, i9, i10, i11, i12, i13, i14, i15, i16, i17, i18⟩ := hi
  simp only [stepTask] at hs
  split at hs
  · simp only [Option.some.injEq, Prod.mk.injEq] at hs
    obtain ⟨rfl, rfl⟩ := hs
    constructor <;> intros <;> simp_all [LStatus.final, HoldEff.bit]
  · split at hs
    · simp only [Option.some.injEq, Prod.mk.injEq] at hs
      obtain ⟨rfl, rfl⟩ := hs
      constructor <;> intros <;> simp_all [LStatus.final, HoldEff.bit, timeoutDue]
      all_goals (cases hl : t.limit <;> simp_all)
    · split at hs
      · simp only [Option.some.injEq, Prod.mk.injEq] at hs
        obtain ⟨rfl, rfl⟩ := hs
        rename_i hg
        simp only [Bool.and_eq_true, beq_iff_eq, Bool.not_eq_true'] at hg
        have hfb := firstBad_depIs s t.deps .killed hg.1.2 hg.2
        constructor <;> intros <;> simp_all [LStatus.final, HoldEff.bit]
        all_goals (subst_vars; simp_all)
      · simp at hs

set_option maxHeartbeats 1000000 in
theorem inv_set_failed (s : Pool) (tid : Nat) (t t' : Task) (held : Bool) (h : HoldEff) (x : Nat)
    (hi : TInv s t held) (hh : held = s.holds tid)
    (hs : stepTask s tid t (.set x .failed) = some (t', h)) : TInv s t' (h.bit held) := by
  obtain ⟨i1, i2, i3, i4, i5, i6, i7, i8, i9, i10, i11, i12, i13, i14, i15, i16, i17, i18⟩ := hi
  simp only [stepTask] at hs
  split at hs
  · simp only [Option.some.injEq, Prod.mk.injEq] at hs
    obtain ⟨rfl, rfl⟩ := hs
    constructor <;> intros <;> simp_all [LStatus.final, HoldEff.bit, exitBad]
    all_goals (cases hc : t.exitCode with
      | none => simp_all
      | some v => by_cases hv : v = 0 <;> simp_all)
  · split at hs
    · simp only [Option.some.injEq, Prod.mk.injEq] at hs
      obtain ⟨rfl, rfl⟩ := hs
      constructor <;> intros <;> simp_all [LStatus.final, HoldEff.bit]
    · split at hs
      · simp only [Option.some.injEq, Prod.mk.injEq] at hs
        obtain ⟨rfl, rfl⟩ := hs
        rename_i hg
        simp only [Bool.and_eq_true, beq_iff_eq, Bool.not_eq_true'] at hg
        have hfb := firstBad_depIs s t.deps .failed hg.1.2 hg.2
        constructor <;> intros <;> simp_all [LStatus.final, HoldEff.bit]
        all_goals (subst_vars; simp_all)
      · split at hs
        · simp only [Option.some.injEq, Prod.mk.injEq] at hs
          obtain ⟨rfl, rfl⟩ := hs
          constructor <;> intros <;> simp_all [LStatus.final, HoldEff.bit]
        · simp at hs

/-- every enabled label keeps the task's invariant (in the same context `s`) -/
theorem stepTask_inv (s : Pool) (tid : Nat) (t t' : Task) (held : Bool) (h : HoldEff) (l : Label)
    (hi : TInv s t held) (hh : held = s.holds tid)
    (hs : stepTask s tid t l = some (t', h)) : TInv s t' (h.bit held) := by
  cases l with
  | enq _ _ => simp [stepTask] at hs
  | tick _ => simp [stepTask] at hs
  | breakLogs _ => simp [stepTask] at hs
  | cancelReq x => exact inv_cancelReq s tid t t' held h x hi hh hs
  | exit x c => exact inv_exit s tid t t' held h x c hi hh hs
  | acqReq x => exact inv_acqReq s tid t t' held h x hi hh hs
  | acq x => exact inv_acq s tid t t' held h x hi hh hs
  | rel x => exact inv_rel s tid t t' held h x hi hh hs
  | spawn x => exact inv_spawn s tid t t' held h x hi hh hs
  | spawnFail x => exact inv_spawnFail s tid t t' held h x hi hh hs
  | kill x => exact inv_kill s tid t t' held h x hi hh hs
  | taskDone x c => exact inv_taskDone s tid t t' held h x c hi hh hs
  | set x st' =>
    cases st' with
    | unknown => simp [stepTask] at hs
    | submitted => exact inv_set_submitted s tid t t' held h x hi hh hs
    | running => exact inv_set_running s tid t t' held h x hi hh hs
    | completed => exact inv_set_completed s tid t t' held h x hi hh hs
    | cancelled => exact inv_set_cancelled s tid t t' held h x hi hh hs
    | killed => exact inv_set_killed s tid t t' held h x hi hh hs
    | failed => exact inv_set_failed s tid t t' held h x hi hh hs

end Gwf.Pool
