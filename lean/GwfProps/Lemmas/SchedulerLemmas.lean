/- Lemmas: splitting an intercalated id list; stripping scheduler output. -/
import GwfModel.Schedulers
namespace Gwf.Sch

theorem splitOnC_ne_nil (sep : Char) (s : List Char) : splitOnC sep s ≠ [] := by
  induction s with
  | nil => simp [splitOnC]
  | cons c cs ih =>
    simp only [splitOnC]
    split
    · simp
    · split <;> simp

theorem split_nosep (sep : Char) : ∀ (a : List Char), sep ∉ a → splitOnC sep a = [a]
  | [], _ => rfl
  | c :: cs, h => by
    simp only [List.mem_cons, not_or] at h
    simp only [splitOnC, split_nosep sep cs h.2]
    have : c ≠ sep := fun e => h.1 e.symm
    simp [this]

theorem split_append (sep : Char) (tail : List Char) : ∀ (a : List Char), sep ∉ a →
    splitOnC sep (a ++ sep :: tail) = a :: splitOnC sep tail
  | [], _ => by
    simp only [List.nil_append, splitOnC]
    cases h : splitOnC sep tail with
    | nil => exact absurd h (splitOnC_ne_nil sep tail)
    | cons x xs => simp
  | c :: cs, h => by
    simp only [List.mem_cons, not_or] at h
    simp only [List.cons_append, splitOnC, split_append sep tail cs h.2]
    have : c ≠ sep := fun e => h.1 e.symm
    simp [this]

theorem split_intercalate (sep : Char) : ∀ (ids : List (List Char)), ids ≠ [] → (∀ i ∈ ids, sep ∉ i) →
    splitOnC sep (intercalateC [sep] ids) = ids
  | [], h, _ => absurd rfl h
  | [a], _, h => by simpa [intercalateC] using split_nosep sep a (h a (by simp))
  | a :: b :: rest, _, h => by
    have ih := split_intercalate sep (b :: rest) (by simp) (fun i hi => h i (by simp [hi]))
    simp only [intercalateC, List.append_assoc, List.singleton_append]
    rw [split_append sep _ a (h a (by simp)), ih]

theorem dropPrefixC_append (pre s : List Char) : dropPrefixC pre (pre ++ s) = some s := by
  induction pre with
  | nil => simp [dropPrefixC]
  | cons a as ih =>
    cases hs : (as ++ s) <;> simp_all [dropPrefixC]

theorem wf_not_mem (i : List Char) (c : Char) (h : wellFormedId i = true)
    (hc : c = ':' ∨ c = ',' ∨ c = '(' ∨ c = ')' ∨ c = '&') : c ∉ i := by
  intro hm
  simp only [wellFormedId, Bool.and_eq_true, List.all_eq_true] at h
  have := h.2 c hm
  rcases hc with rfl | rfl | rfl | rfl | rfl <;> simp at this

end Gwf.Sch
