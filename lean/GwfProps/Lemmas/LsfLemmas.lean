/- LSF: `done(a) && done(b)` expressions and the `Job <id> is submitted` message. -/
import GwfProps.Lemmas.SchedulerLemmas
namespace Gwf.Sch

theorem takeWhile_stop (p : Char → Bool) (x : Char) (t : List Char) (hx : p x = false) :
    ∀ (a : List Char), (∀ c ∈ a, p c = true) → (a ++ x :: t).takeWhile p = a ∧ (a ++ x :: t).dropWhile p = x :: t
  | [], _ => by simp [List.takeWhile, List.dropWhile, hx]
  | c :: cs, h => by
    have hc := h c (by simp)
    have ih := takeWhile_stop p x t hx cs (fun y hy => h y (by simp [hy]))
    simp [List.takeWhile, List.dropWhile, hc, ih.1, ih.2]

def wrapDone (i : List Char) : List Char := "done(".toList ++ i ++ [')']

theorem readDone_one (fuel : Nat) (a : List Char) (ha : ')' ∉ a) :
    readDone (fuel + 1) (wrapDone a) = some [a] := by
  have hp : ∀ c ∈ a, (decide (c ≠ ')')) = true := by
    intro c hc; simp; intro e; exact ha (e ▸ hc)
  have h := takeWhile_stop (fun c => decide (c ≠ ')')) ')' [] (by simp) a hp
  simp only [readDone, wrapDone, List.append_assoc, dropPrefixC_append]
  simp only [h.1, h.2]

theorem readDone_more (fuel : Nat) (a R : List Char) (ha : ')' ∉ a) :
    readDone (fuel + 1) (wrapDone a ++ " && ".toList ++ R) = (readDone fuel R).map (a :: ·) := by
  have hp : ∀ c ∈ a, (decide (c ≠ ')')) = true := by
    intro c hc; simp; intro e; exact ha (e ▸ hc)
  have h := takeWhile_stop (fun c => decide (c ≠ ')')) ')' (" && ".toList ++ R) (by simp) a hp
  have e : wrapDone a ++ " && ".toList ++ R = "done(".toList ++ (a ++ ')' :: (" && ".toList ++ R)) := by
    simp [wrapDone]
  rw [e]
  simp only [readDone, dropPrefixC_append, h.1, h.2]
  have e2 : " && ".toList ++ R = ' ' :: '&' :: '&' :: ' ' :: R := rfl
  rw [e2]
  have e3 : dropPrefixC " && ".toList (' ' :: '&' :: '&' :: ' ' :: R) = some R := dropPrefixC_append " && ".toList R
  simp only [e3]

/-- the reader recovers every rendered conjunction of `done(id)` terms, of any length -/
theorem readDone_render : ∀ (ids : List (List Char)) (fuel : Nat), ids ≠ [] → ids.length ≤ fuel →
    (∀ i ∈ ids, ')' ∉ i) → readDone fuel (intercalateC " && ".toList (ids.map wrapDone)) = some ids
  | [], _, h, _, _ => absurd rfl h
  | [a], fuel, _, hf, hw => by
    cases fuel with
    | zero => simp at hf
    | succ n => simpa [intercalateC] using readDone_one n a (hw a (by simp))
  | a :: b :: rest, fuel, _, hf, hw => by
    cases fuel with
    | zero => simp at hf
    | succ n =>
      have ih := readDone_render (b :: rest) n (by simp) (by simp at hf ⊢; omega) (fun i hi => hw i (by simp [hi]))
      have : intercalateC " && ".toList ((a :: b :: rest).map wrapDone)
           = wrapDone a ++ " && ".toList ++ intercalateC " && ".toList ((b :: rest).map wrapDone) := by
        simp [intercalateC]
      rw [this, readDone_more n a _ (hw a (by simp)), ih]
      rfl

theorem intercalate_length_ge : ∀ (l : List (List Char)) (sep : List Char), (∀ x ∈ l, 1 ≤ x.length) →
    l.length ≤ (intercalateC sep l).length + 1
  | [], _, _ => by simp
  | [a], _, _ => by simp [intercalateC]
  | a :: b :: rest, sep, h => by
    have ih := intercalate_length_ge (b :: rest) sep (fun x hx => h x (by simp [hx]))
    have ha := h a (by simp)
    simp only [intercalateC, List.length_append, List.length_cons] at ih ⊢
    omega

end Gwf.Sch
