/- Stamping a sequence of targets' outputs with an increasing clock (gwf touch / a draining cluster). -/
import GwfProps.Lemmas.WorldLemmas
import GwfProps.Lemmas.ShouldRun
namespace Gwf

abbrev Files := List (String × Nat)

def setAll (ps : List String) (v : Nat) (f : Files) : Files := ps.foldl (fun fs p => aset p v fs) f

theorem alook_setAll (ps : List String) (v : Nat) (f : Files) (q : String) :
    alook q (setAll ps v f) = if q ∈ ps then some v else alook q f := alook_fold_set v ps f q

/-- process the targets in `order`: each one stamps all its outputs with the next clock value -/
def stampSeq (outs : Nat → List String) : List Nat → Nat → Files → Files
  | [], _, f => f
  | t :: rest, c, f => stampSeq outs rest (c + 1) (setAll (outs t) (c + 1) f)

def producedBy (outs : Nat → List String) (l : List Nat) (q : String) : Prop := ∃ u ∈ l, q ∈ outs u

theorem stampSeq_untouched (outs : Nat → List String) : ∀ (rest : List Nat) (c : Nat) (f : Files) (q : String),
    ¬ producedBy outs rest q → alook q (stampSeq outs rest c f) = alook q f
  | [], _, _, _, _ => rfl
  | t :: rest, c, f, q, h => by
    simp only [stampSeq]
    rw [stampSeq_untouched outs rest (c + 1) _ q (fun ⟨u, hu, hq⟩ => h ⟨u, List.mem_cons_of_mem _ hu, hq⟩)]
    rw [alook_setAll]
    have : q ∉ outs t := fun hq => h ⟨t, by simp, hq⟩
    simp [this]

/-- **main lemma**: if the targets are processed in an order in which every input of a target is
    either an output of an EARLIER target of the sequence or a file nobody in the sequence produces
    that exists and is not dated after the start (`≤ c0`), and no file has two producers, then afterwards
    every processed target has all outputs present and no input newer than any output -/
theorem stampSeq_uptodate (outs ins : Nat → List String) (c0 : Nat) (f0 : Files) (order : List Nat)
    (hdisj : ∀ a ∈ order, ∀ b ∈ order, a ≠ b → ∀ q, q ∈ outs a → q ∉ outs b)
    (hnodup : order.Nodup) :
    ∀ (prev rest : List Nat) (c : Nat) (f : Files), order = prev ++ rest → c0 ≤ c →
      (∀ q, producedBy outs prev q → ∃ m, alook q f = some m ∧ m ≤ c) →
      (∀ q, ¬ producedBy outs order q → alook q f = alook q f0) →
      (∀ p r t, order = p ++ t :: r → ∀ i ∈ ins t,
          producedBy outs p i ∨ (¬ producedBy outs order i ∧ ∃ m, alook i f0 = some m ∧ m ≤ c0)) →
      ∀ t ∈ rest, ∃ s, (∀ o ∈ outs t, alook o (stampSeq outs rest c f) = some s) ∧
        (∀ i ∈ ins t, ∃ m, alook i (stampSeq outs rest c f) = some m ∧ m ≤ s) := by
  intro prev rest
  induction rest generalizing prev with
  | nil => intro c f _ _ _ _ _ t ht; simp at ht
  | cons t rest ih =>
    intro c f hord hc hprev hunprod hpost u hu
    have ht_mem : t ∈ order := by rw [hord]; simp
    have hrest_mem : ∀ x ∈ rest, x ∈ order := fun x hx => by rw [hord]; simp [hx]
    have hprev_mem : ∀ x ∈ prev, x ∈ order := fun x hx => by rw [hord]; simp [hx]
    have hnd : (prev ++ t :: rest).Nodup := hord ▸ hnodup
    have ht_notrest : t ∉ rest := by
      have := (List.nodup_append.1 hnd).2.1
      exact (List.nodup_cons.1 this).1
    have ht_notprev : t ∉ prev := by
      intro hp
      exact (List.nodup_append.1 hnd).2.2 t hp t (by simp) rfl
    simp only [List.mem_cons] at hu
    rcases hu with rfl | hu
    · -- the head: its outputs get c+1 and are not produced later; its inputs are ≤ c and not produced later
      refine ⟨c + 1, ?_, ?_⟩
      · intro o ho
        simp only [stampSeq]
        rw [stampSeq_untouched outs rest (c + 1) _ o ?_, alook_setAll]
        · simp [ho]
        · rintro ⟨x, hx, hox⟩
          exact hdisj u ht_mem x (hrest_mem x hx) (fun e => ht_notrest (e ▸ hx)) o ho hox
      · intro i hi
        have hcase := hpost prev rest u hord i hi
        have hi_not_later : ¬ producedBy outs (u :: rest) i := by
          rintro ⟨x, hx, hix⟩
          rcases hcase with ⟨p, hp, hip⟩ | ⟨hnp, _⟩
          · have hxo : x ∈ order := by
              simp only [List.mem_cons] at hx
              rcases hx with e | e
              · subst e; exact ht_mem
              · exact hrest_mem x e
            have hne : p ≠ x := by
              intro e; subst e
              simp only [List.mem_cons] at hx
              rcases hx with e | e
              · subst e; exact ht_notprev hp
              · exact (List.nodup_append.1 hnd).2.2 p hp p (by simp [e]) rfl
            exact hdisj p (hprev_mem p hp) x hxo hne i hip hix
          · have hxo : x ∈ order := by
              simp only [List.mem_cons] at hx
              rcases hx with e | e
              · subst e; exact ht_mem
              · exact hrest_mem x e
            exact hnp ⟨x, hxo, hix⟩
        have hval : ∃ m, alook i f = some m ∧ m ≤ c := by
          rcases hcase with hp | ⟨hnp, m, hm, hmc⟩
          · exact hprev i hp
          · exact ⟨m, by rw [hunprod i hnp]; exact hm, by omega⟩
        obtain ⟨m, hm, hmc⟩ := hval
        refine ⟨m, ?_, by omega⟩
        have : stampSeq outs (u :: rest) c f = stampSeq outs rest (c + 1) (setAll (outs u) (c + 1) f) := rfl
        rw [this, stampSeq_untouched outs rest (c + 1) _ i (fun ⟨x, hx, hix⟩ => hi_not_later ⟨x, List.mem_cons_of_mem _ hx, hix⟩)]
        rw [alook_setAll]
        have : i ∉ outs u := fun h => hi_not_later ⟨u, by simp, h⟩
        simp [this, hm]
    · -- a later target: induction with prev := prev ++ [t]
      have hord' : order = (prev ++ [t]) ++ rest := by rw [hord]; simp
      have := ih (prev ++ [t]) (c + 1) (setAll (outs t) (c + 1) f) hord' (by omega) ?_ ?_ hpost u hu
      · simpa [stampSeq] using this
      · intro q hq
        obtain ⟨x, hx, hqx⟩ := hq
        rw [alook_setAll]
        by_cases hqt : q ∈ outs t
        · exact ⟨c + 1, by simp [hqt], by omega⟩
        · simp only [hqt, if_false]
          simp only [List.mem_append, List.mem_singleton] at hx
          rcases hx with hx | hx
          · obtain ⟨m, hm, hmc⟩ := hprev q ⟨x, hx, hqx⟩
            exact ⟨m, hm, by omega⟩
          · subst hx; exact absurd hqx hqt
      · intro q hq
        rw [alook_setAll]
        have : q ∉ outs t := fun h => hq ⟨t, ht_mem, h⟩
        simp [this, hunprod q hq]

end Gwf

namespace Gwf.C16
open Gwf

/-- the declared (normalised) outputs of target id `t` -/
def outsF (dir : String) (wf : List WT) (t : Nat) : List String := ((wtOf wf t).map (·.outsAbs dir)).getD []
def insF (dir : String) (wf : List WT) (t : Nat) : List String := ((wtOf wf t).map (·.insAbs dir)).getD []

end Gwf.C16
