/-
  GwfModel.Schedulers — how each backend talks to its scheduler about prerequisites and job ids:
  the id gwf stores from the submit command's output, the argv fragment that names the
  prerequisites, and an INDEPENDENT reader of that fragment written from the schedulers' manuals
  (sbatch --dependency=afterok:a:b, qsub -hold_jid a,b, bsub -w "done(a) && done(b)").
  Also a small abstract cluster: which jobs a scheduler may start.
-/
import GwfModel.World
namespace Gwf.Sch

def isWsChar (c : Char) : Bool := c == ' ' || c == '\n' || c == '\t' || c == '\r' || c == '\x0b' || c == '\x0c'

def strip (s : List Char) : List Char := (s.dropWhile isWsChar).reverse.dropWhile isWsChar |>.reverse

def isDigit (c : Char) : Bool := '0' ≤ c && c ≤ '9'

/-- first occurrence of `Job <digits>` (LSF's `re.search(r"Job <(\d+)>", stdout)[1]`) -/
def lsfId : List Char → Option (List Char)
  | [] => none
  | 'J' :: 'o' :: 'b' :: ' ' :: '<' :: rest =>
    let ds := rest.takeWhile isDigit
    match rest.dropWhile isDigit with
    | '>' :: _ => if ds.isEmpty then lsfId rest else some ds
    | _ => lsfId rest
  | _ :: rest => lsfId rest

/-- the job id gwf records from the submit command's standard output -/
def parseId (b : Backend) (stdout : List Char) : Option (List Char) :=
  match b with
  | .slurm => some (strip stdout)
  | .sge => some (strip stdout)
  | .lsf => lsfId (strip stdout)
  | .localPool => some stdout

def intercalateC (sep : List Char) : List (List Char) → List Char
  | [] => []
  | [a] => a
  | a :: rest => a ++ sep ++ intercalateC sep rest

/-- the arguments that tell the scheduler which jobs to wait for (nothing at all when there are none) -/
def renderDeps (b : Backend) (ids : List (List Char)) : List (List Char) :=
  if ids.isEmpty then [] else
  match b with
  | .slurm => ["--dependency=afterok:".toList ++ intercalateC [':'] ids]
  | .sge => ["-hold_jid".toList, intercalateC [','] ids]
  | .lsf => ["-w".toList, intercalateC " && ".toList (ids.map (fun i => "done(".toList ++ i ++ [')']))]
  | .localPool => ids

/-- split on a single separator character -/
def splitOnC (sep : Char) : List Char → List (List Char)
  | [] => [[]]
  | c :: cs =>
    match splitOnC sep cs with
    | [] => [[]]
    | h :: t => if c = sep then [] :: h :: t else (c :: h) :: t

def dropPrefixC (pre s : List Char) : Option (List Char) :=
  match pre, s with
  | [], s => some s
  | _ :: _, [] => none
  | a :: as, b :: bs => if a = b then dropPrefixC as bs else none

/-- LSF dependency expression `done(a) && done(b) && …` -/
def readDone : Nat → List Char → Option (List (List Char))
  | 0, _ => none
  | fuel+1, s =>
    match dropPrefixC "done(".toList s with
    | none => none
    | some rest =>
      let id := rest.takeWhile (· ≠ ')')
      match rest.dropWhile (· ≠ ')') with
      | [')'] => some [id]
      | ')' :: more =>
        (match dropPrefixC " && ".toList more with
         | some more' => (readDone fuel more').map (id :: ·)
         | none => none)
      | _ => none

/-- the scheduler's reading of the prerequisite arguments (independent of `renderDeps`) -/
def readDeps (b : Backend) (argv : List (List Char)) : Option (List (List Char)) :=
  match b, argv with
  | _, [] => some []
  | .slurm, [a] => (dropPrefixC "--dependency=afterok:".toList a).map (splitOnC ':')
  | .sge, [flag, v] => if flag = "-hold_jid".toList then some (splitOnC ',' v) else none
  | .lsf, [flag, v] => if flag = "-w".toList then readDone (v.length + 1) v else none
  | .localPool, ids => some ids
  | _, _ => none

/-- ids the schedulers hand out: non-empty, free of the separator and grouping characters -/
def wellFormedId (i : List Char) : Bool :=
  !i.isEmpty && i.all (fun c => c != ':' && c != ',' && c != '(' && c != ')' && c != '&' && !isWsChar c)

/-! ### abstract cluster: when may a job start -/

inductive DepKind | afterok | hold
  deriving DecidableEq, Repr

def kindOf : Backend → DepKind
  | .sge => .hold
  | _ => .afterok          -- Slurm afterok, LSF done(), local pool: start only after SUCCESS

structure CJob where
  id : Nat
  deps : List Nat
  st : JobSt := .pending
  started : Bool := false      -- ghost: the scheduler started it at some point

inductive CLabel | submit (deps : List Nat) | start (j : Nat) | finish (j : Nat) (ok : Bool) | cancel (j : Nat)

structure Cluster where
  kind : DepKind
  jobs : List CJob := []

def Cluster.st? (c : Cluster) (j : Nat) : Option JobSt := (c.jobs[j]?).map (·.st)

def Cluster.depSatisfied (c : Cluster) (d : Nat) : Bool :=
  match c.st? d with
  | some .completed => true
  | some .failed => c.kind == .hold
  | some .cancelled => c.kind == .hold
  | some _ => false
  | none => true          -- an id the scheduler no longer knows does not hold a job back

def Cluster.upd (c : Cluster) (j : Nat) (f : CJob → CJob) : Cluster :=
  match c.jobs[j]? with
  | some job => { c with jobs := c.jobs.set j (f job) }
  | none => c

/-- the moves a scheduler may make -/
def clStep (c : Cluster) : CLabel → Option Cluster
  | .submit deps =>
    -- gwf only ever names jobs that already exist (ids returned earlier)
    if deps.all (fun d => decide (d < c.jobs.length)) then
      some { c with jobs := c.jobs ++ [{ id := c.jobs.length, deps := deps }] }
    else none
  | .start j =>
    match c.jobs[j]? with
    | some job => if job.st == .pending && job.deps.all c.depSatisfied then
        some (c.upd j fun x => { x with st := .running, started := true }) else none
    | none => none
  | .finish j ok =>
    match c.jobs[j]? with
    | some job => if job.st == .running then some (c.upd j fun x => { x with st := if ok then .completed else .failed }) else none
    | none => none
  | .cancel j =>
    match c.jobs[j]? with
    | some job => if job.st == .pending || job.st == .running then some (c.upd j fun x => { x with st := .cancelled }) else some c
    | none => some c

end Gwf.Sch
