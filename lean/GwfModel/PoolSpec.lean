/-
  GwfModel.PoolSpec — the local-pool properties C11/C12/C13 as executable predicates over an
  OBSERVED event trace alone (no reference to the model's guards).  Used as the oracle of the
  failing-input search: a trace on which one of them fails is a concrete history violating the
  property on the real scheduler.
-/
import GwfModel.Pool
namespace Gwf.PoolSpec
open Gwf.Pool

/-- facts read off the trace so far -/
structure Obs where
  cores    : Nat
  deps     : List (List Nat) := []          -- per task id
  limit    : List (Option Nat) := []
  st       : List LStatus := []             -- last written state
  started  : List Nat := []                 -- tids for which a process was started (with multiplicity)
  alive    : List Nat := []
  exitCode : List (Nat × Int) := []
  done     : List Nat := []                 -- asyncio task finished
  cancelEff : List Nat := []                -- cancel requests that hit a submitted/running task
  spawnFailed : List Nat := []
  spawnAt  : List (Nat × Nat) := []
  exitAt   : List (Nat × Nat) := []
  logsBrokenAtExit : List Nat := []
  holding  : List Nat := []                 -- tasks between a core acquire and its release
  now      : Nat := 0
  logsBroken : Bool := false
  fails    : List String := []              -- failing conjuncts, tagged "C11:…", "C12:…", "C13:…"

def Obs.stOf (o : Obs) (t : Nat) : LStatus := o.st.getD t .unknown
def Obs.depsOf (o : Obs) (t : Nat) : List Nat := o.deps.getD t []
def Obs.fail (o : Obs) (f : String) : Obs := if o.fails.contains f then o else { o with fails := o.fails ++ [f] }
def Obs.n (o : Obs) : Nat := o.deps.length

def setAt {α} (l : List α) (i : Nat) (v : α) : List α := l.set i v

/-- a task that could use a core right now: submitted, not cancelled, never started, all
    dependencies completed -/
def Obs.ready (o : Obs) (t : Nat) : Bool :=
  o.stOf t == .submitted && !o.started.contains t && !o.cancelEff.contains t &&
    (o.depsOf t).all (fun d => o.stOf d == .completed && decide (d < o.n))

def lookupNat {β} (k : Nat) : List (Nat × β) → Option β
  | [] => none
  | (k', v) :: r => if k' = k then some v else lookupNat k r

def obsStep (o : Obs) : Label → Obs
  | .enq deps limit => { o with deps := o.deps ++ [deps], limit := o.limit ++ [limit], st := o.st ++ [.submitted] }
  | .tick dt => { o with now := o.now + dt }
  | .breakLogs b => { o with logsBroken := b }
  | .cancelReq tid =>
    if o.stOf tid == .submitted || o.stOf tid == .running then { o with cancelEff := tid :: o.cancelEff } else o
  | .exit tid code =>
    { o with alive := o.alive.erase tid, exitCode := (tid, code) :: o.exitCode, exitAt := (tid, o.now) :: o.exitAt,
             logsBrokenAtExit := if o.logsBroken then tid :: o.logsBrokenAtExit else o.logsBrokenAtExit }
  | .spawn tid =>
    -- C11: every dependency completed successfully before the process starts
    let o1 := if (o.depsOf tid).all (fun d => o.stOf d == .completed) then o else o.fail "C11:started-before-dependencies-completed"
    -- … and "completed" means: its process exited with status 0
    let o1 := if (o1.depsOf tid).all (fun d => lookupNat d o1.exitCode == some 0) then o1
              else o1.fail "C11:started-although-dependency-did-not-exit-0"
    -- C13: a task is run at most once, and never after it finished
    let o2 := if o1.started.contains tid || o1.done.contains tid then o1.fail "C13:task-run-again" else o1
    let o3 := { o2 with started := tid :: o2.started, alive := tid :: o2.alive, spawnAt := (tid, o2.now) :: o2.spawnAt }
    -- C12: never more processes alive than cores
    if o3.alive.length ≤ o3.cores then o3 else o3.fail "C12:more-processes-alive-than-cores"
  | .spawnFail tid => { o with spawnFailed := tid :: o.spawnFailed }
  | .set tid s =>
    let o1 := if o.done.contains tid && o.stOf tid != s then o.fail "C13:finished-task-changed-state" else o
    let o2 := if LStatus.final (o1.stOf tid) && o1.stOf tid != s then o1.fail "C13:final-state-not-kept" else o1
    { o2 with st := setAt o2.st tid s }
  | .taskDone tid _ =>
    -- C12: a finished task must have given its core back
    let o1 := if o.holding.contains tid then o.fail "C12:task-finished-without-releasing-its-core" else o
    { o1 with done := tid :: o1.done }
  | .acq tid =>
    let o1 := { o with holding := tid :: o.holding }
    if o1.holding.length ≤ o1.cores then o1 else o1.fail "C12:more-cores-handed-out-than-configured"
  | .rel tid =>
    if o.holding.contains tid then { o with holding := o.holding.erase tid }
    else o.fail "C12:core-released-that-was-not-held"
  | _ => o

/-- at a point where the scheduler's loop is idle -/
def atQuiescence (o : Obs) : Obs :=
  -- C12: a free core is never left idle while a task whose dependencies are complete is waiting
  let ready := (List.range o.n).filter o.ready
  if o.holding.length < o.cores && !ready.isEmpty then o.fail "C12:free-core-idle-while-task-ready" else o

/-- at the end of the history: no process alive, no timer pending, loop idle -/
def atEnd (o : Obs) : Obs :=
  (List.range o.n).foldl (fun o t =>
    let s := o.stOf t
    let badDeps := (o.depsOf t).filter (fun d => o.stOf d != .completed)
    let code := lookupNat t o.exitCode
    let cancelled := o.cancelEff.contains t
    let timedOut := match o.limit.getD t none, lookupNat t o.spawnAt, lookupNat t o.exitAt with
      | some l, some sa, some ea => decide (sa + l ≤ ea)
      | _, _, _ => false
    let o := if LStatus.final s && o.done.contains t then o else o.fail "C13:task-never-reaches-final-state"
    -- C11: with a dependency that did not complete the task is never started and ends non-completed,
    -- failed/killed after a failure, cancelled after a cancellation
    let o := if !badDeps.isEmpty && o.started.contains t then o.fail "C11:started-although-dependency-did-not-complete" else o
    let unknownDep := (o.depsOf t).any (fun d => decide (o.n ≤ d))
    let o := if !badDeps.isEmpty && !cancelled && !(unknownDep && s == .failed)
                && !(badDeps.any (fun d => o.stOf d == s) && s != .completed)
             then o.fail "C11:dependent-of-failed-task-wrong-final-state" else o
    -- C13: the final state matches what happened
    let ranOk := o.started.contains t && code == some 0 && !cancelled && !timedOut && !o.logsBrokenAtExit.contains t
    let o := if (s == .completed) != ranOk then o.fail "C13:completed-iff-ran-and-exited-0" else o
    let o := if s == .failed && !(badDeps.any (fun d => o.stOf d == .failed) || o.spawnFailed.contains t
                 || (match code with | some c => c != 0 | none => false) || o.logsBrokenAtExit.contains t
                 || (o.depsOf t).any (fun d => decide (o.n ≤ d))) then o.fail "C13:failed-without-cause" else o
    let o := if s == .killed && !(timedOut || badDeps.any (fun d => o.stOf d == .killed) || (match o.limit.getD t none with | some _ => o.started.contains t | none => false))
             then o.fail "C13:killed-without-timeout" else o
    let o := if s == .cancelled && !(cancelled || badDeps.any (fun d => o.stOf d == .cancelled)) then o.fail "C13:cancelled-without-cancel" else o
    let o := if cancelled && s != .cancelled then o.fail "C13:cancelled-task-not-cancelled" else o
    o) o

end Gwf.PoolSpec
