/-
  GwfModel.Path — lexical POSIX path functions used by `gwf.core._norm_path`
  (`os.path.isabs/join/normpath/abspath`), over `List Char`.
-/
namespace Gwf.Path

/-- split on '/' like Python's `str.split('/')` (always non-empty) -/
def splitSlash : List Char → List (List Char)
  | [] => [[]]
  | c :: cs =>
    match splitSlash cs with
    | [] => [[]]   -- unreachable
    | h :: t => if c = '/' then [] :: h :: t else (c :: h) :: t

def joinSlash : List (List Char) → List Char
  | [] => []
  | [a] => a
  | a :: rest => a ++ '/' :: joinSlash rest

/-- POSIX: exactly two leading slashes are kept, three or more collapse to one -/
def leadingSlashes (p : List Char) : Nat :=
  match p with
  | '/' :: '/' :: '/' :: _ => 1
  | '/' :: '/' :: _ => 2
  | '/' :: _ => 1
  | _ => 0

def dot : List Char := ['.']
def dotdot : List Char := ['.', '.']

/-- the component loop of `posixpath.normpath`; `acc` is reversed -/
def normComps (init : Nat) : List (List Char) → List (List Char) → List (List Char)
  | [], acc => acc.reverse
  | c :: cs, acc =>
    if c = [] ∨ c = dot then normComps init cs acc
    else if c ≠ dotdot ∨ (init = 0 ∧ acc = []) ∨ (acc.head? = some dotdot) then normComps init cs (c :: acc)
    else normComps init cs acc.tail

def normpath (p : List Char) : List Char :=
  if p = [] then dot else
  let init := leadingSlashes p
  let body := joinSlash (normComps init (splitSlash p) [])
  let r := List.replicate init '/' ++ body
  if r = [] then dot else r

def isabs (p : List Char) : Bool := p.head? = some '/'

def join (a b : List Char) : List Char :=
  if isabs b then b
  else if a = [] ∨ a.getLast? = some '/' then a ++ b
  else a ++ '/' :: b

/-- `os.path.abspath` with the process cwd as a parameter -/
def abspath (cwd p : List Char) : List Char :=
  normpath (if isabs p then p else join cwd p)

/-- `gwf.core._norm_path(working_dir, path)` (after the D14 repair: no `isabs` short-cut) -/
def normPath (cwd wd p : List Char) : List Char :=
  abspath cwd (join wd p)

/-- the unrepaired `_norm_path`: absolute paths are returned as spelled -/
def normPathOld (cwd wd p : List Char) : List Char :=
  if isabs p then p else abspath cwd (join wd p)

theorem splitSlash_ne_nil (p : List Char) : splitSlash p ≠ [] := by
  induction p with
  | nil => simp [splitSlash]
  | cons c cs ih =>
    simp only [splitSlash]
    split
    · simp
    · split <;> simp

end Gwf.Path
