/-
  GwfModel.World — the persistent state of a gwf project plus a simulated cluster, and the
  commands `status`, `run [--dry-run]`, `touch`, `clean`, `cancel` as functions on it.
  Every command is  `build the graph >>= …`, so an invalid workflow yields `Except.error` and
  an unchanged world.
-/
import GwfModel.Project
import GwfModel.Glob
namespace Gwf

/-- life cycle of a simulated cluster job -/
inductive JobSt | pending | running | completed | failed | cancelled
  deriving DecidableEq, Repr, Inhabited

/-- which scheduler the project uses (it decides how much of a job's fate gwf can see) -/
inductive Backend | slurm | sge | lsf | localPool
  deriving DecidableEq, Repr, Inhabited

/-- what `TrackingBackend.status` reports for a job in life-cycle state `s`: Slurm (accounting on) and
    the local pool report every state; SGE forgets a job as soon as it leaves the queue; LSF reports
    a killed job as EXIT, i.e. failed -/
def JobSt.toBOn (b : Backend) : JobSt → BStatus
  | .pending => .submitted
  | .running => .running
  | .completed => if b == .sge then .unknown else .completed
  | .failed => if b == .sge then .unknown else .failed
  | .cancelled => if b == .sge then .unknown else if b == .lsf then .failed else .cancelled

def JobSt.toB : JobSt → BStatus := JobSt.toBOn .slurm

def JobSt.name : JobSt → String
  | .pending => "pending" | .running => "running" | .completed => "completed"
  | .failed => "failed" | .cancelled => "cancelled"

structure Job where
  id   : String
  st   : JobSt
  deps : List String
  name : String            -- target it was submitted for
  deriving Repr

/-- a target definition as written in the workflow file -/
structure WT where
  name : String
  id   : Nat               -- rank of the name in sorted order
  ins  : Shape String
  outs : Shape String
  prot : Shape String
  spec : String

structure World where
  dir     : String                       -- project directory (= every target's working directory)
  files   : List (String × Nat)          -- existing files ↦ mtime
  tracked : List (String × String)       -- `.gwf/<backend>-backend-tracked.json`: target name ↦ job id
  hashes  : List (String × String)       -- `.gwf/spec-hashes.json`: target name ↦ spec (stands for its sha1)
  jobs    : List Job                     -- the cluster
  nextId  : Nat
  clock   : Nat                          -- time stamps handed out by `touch` / finishing jobs
  hashing : Bool                         -- config `use_spec_hashes`
  backend : Backend := .slurm

def World.job? (w : World) (jid : String) : Option Job := w.jobs.find? (fun j => j.id == jid)

/-- `backend.status(target)` as TrackingBackend computes it: state of the tracked job, else UNKNOWN -/
def World.bstat (w : World) (name : String) : BStatus :=
  match alook name w.tracked with
  | none => .unknown
  | some jid => match w.job? jid with
    | none => .unknown
    | some j => j.st.toBOn w.backend

/-- `spec_hashes.has_changed(target) is not None` -/
def World.specChanged (w : World) (t : WT) : Bool :=
  w.hashing && (alook t.name w.hashes != some t.spec)

def World.raw (w : World) (t : WT) : RawTgt :=
  { id := t.id, wd := w.dir, bstat := w.bstat t.name, specChanged := w.specChanged t,
    ins := t.ins, outs := t.outs, prot := t.prot }

def World.proj (w : World) (wf : List WT) (eps : Option (List Nat)) : Proj :=
  { cwd := w.dir, targets := wf.map w.raw, fs := w.files.map (fun p => (p.1, some p.2)), eps := eps }

def nameOf (wf : List WT) (id : Nat) : String := ((wf.find? (fun t => t.id == id)).map (·.name)).getD ""
def wtOf (wf : List WT) (id : Nat) : Option WT := wf.find? (fun t => t.id == id)

def insertSortedNat (x : Nat) : List Nat → List Nat
  | [] => [x]
  | y :: ys => if x < y then x :: y :: ys else if x = y then y :: ys else y :: insertSortedNat x ys

/-- target selection: no patterns = `none` (graph endpoints / everything, depending on the command);
    patterns = the targets whose name matches one of them (sorted ids) -/
def selectIds (wf : List WT) (patterns : List String) : List Nat :=
  (wf.filter (fun t => patterns.any (fun p => Glob.globMatch p t.name))).foldl (fun acc t => insertSortedNat t.id acc) []

/-- `gwf status`: the status of every target (the cone of all endpoints is the whole workflow) -/
def World.status (w : World) (wf : List WT) : Except GErr (List (Nat × Status)) :=
  match (w.proj wf none).plan with
  | .error e => .error e
  | .ok st => .ok st.cache

/-- the scheduling pass of `gwf run [patterns]` -/
def World.plan (w : World) (wf : List WT) (patterns : List String) : Except GErr (List (Nat × List Nat)) :=
  match (w.proj wf (if patterns.isEmpty then none else some (selectIds wf patterns))).plan with
  | .error e => .error e
  | .ok st => .ok st.chron

/-- one accepted submission: `TrackingBackend.submit` + `spec_hashes.update` -/
def World.submit (w : World) (wf : List WT) (t : Nat) (deps : List Nat) : World :=
  let jid := toString w.nextId
  let depIds := deps.filterMap (fun d => alook (nameOf wf d) w.tracked)
  let name := nameOf wf t
  { w with jobs := w.jobs ++ [{ id := jid, st := .pending, deps := depIds, name := name }],
           nextId := w.nextId + 1,
           tracked := aset name jid w.tracked,
           hashes := if w.hashing then aset name ((wtOf wf t).map (·.spec) |>.getD "") w.hashes else w.hashes }

/-- `gwf run [patterns]` with every submission accepted -/
def World.run (w : World) (wf : List WT) (patterns : List String) : Except GErr World :=
  match w.plan wf patterns with
  | .error e => .error e
  | .ok subs => .ok (subs.foldl (fun w s => w.submit wf s.1 s.2) w)

def WT.outsAbs (dir : String) (t : WT) : List String := t.outs.flatten.map (normS dir dir)
def WT.insAbs (dir : String) (t : WT) : List String := t.ins.flatten.map (normS dir dir)
def WT.protAbs (dir : String) (t : WT) : List String := t.prot.flatten.map (normS dir dir)

/-- post-order visit of `gwf touch` -/
def touchVisit (deps : Nat → List Nat) : Nat → List Nat → Nat → List Nat
  | 0, acc, _ => acc
  | fuel+1, acc, t =>
    if acc.contains t then acc
    else (deps t).foldl (fun a d => touchVisit deps fuel a d) acc ++ [t]

def World.touchOne (w : World) (wf : List WT) (t : Nat) : World :=
  match wtOf wf t with
  | none => { w with clock := w.clock + 1 }
  | some wt =>
    let outs := wt.outsAbs w.dir
    let clk := w.clock + 1
    { w with clock := clk,
             files := outs.foldl (fun fs p => aset p clk fs) w.files,
             hashes := if w.hashing then aset wt.name wt.spec w.hashes else w.hashes }

/-- `gwf touch [patterns]` -/
def World.touch (w : World) (wf : List WT) (patterns : List String) : Except GErr World :=
  match (w.proj wf none).graph with
  | .error e => .error e
  | .ok g =>
    let eps := if patterns.isEmpty then g.endpoints else selectIds wf patterns
    let order := eps.foldl (fun a e => touchVisit g.depsOf (g.ids.length + 1) a e) []
    .ok (order.foldl (fun w t => w.touchOne wf t) w)

/-- the targets `gwf clean [--all] [patterns]` works on -/
def World.cleanMatches (wf : List WT) (g : Graph String) (patterns : List String) (all : Bool) : List WT :=
  let byName := if patterns.isEmpty then wf else wf.filter (fun t => patterns.any (fun p => Glob.globMatch p t.name))
  if all then byName else byName.filter (fun t => !g.endpoints.contains t.id)

/-- clean one target: forget its spec hash, delete its unprotected declared outputs -/
def World.cleanOne (w : World) (t : WT) : World :=
  let prot := t.protAbs w.dir
  { w with hashes := if w.hashing then aerase t.name w.hashes else w.hashes,
           files := (t.outsAbs w.dir).foldl (fun fs p => if prot.contains p then fs else aerase p fs) w.files }

/-- `gwf clean` after the confirmation (or `--force`) -/
def World.clean (w : World) (wf : List WT) (patterns : List String) (all : Bool) : Except GErr World :=
  match (w.proj wf none).graph with
  | .error e => .error e
  | .ok g => .ok ((World.cleanMatches wf g patterns all).foldl World.cleanOne w)

/-- the cancel commands `gwf cancel [patterns]` issues, in order: (target name, job id or none) -/
def World.cancelCmds (w : World) (wf : List WT) (patterns : List String) : Except GErr (List (String × Option String)) :=
  match (w.proj wf none).graph with
  | .error e => .error e
  | .ok _ =>
    let sel := if patterns.isEmpty then wf else wf.filter (fun t => patterns.any (fun p => Glob.globMatch p t.name))
    .ok (sel.map (fun t => (t.name, alook t.name w.tracked)))

/-- the scheduler carries out a cancel: pending/running jobs become cancelled -/
def World.cancelJob (w : World) (jid : String) : World :=
  { w with jobs := w.jobs.map (fun j => if j.id == jid && (j.st == .pending || j.st == .running) then { j with st := .cancelled } else j) }

def World.cancel (w : World) (wf : List WT) (patterns : List String) : Except GErr World :=
  match w.cancelCmds wf patterns with
  | .error e => .error e
  | .ok cmds => .ok (cmds.foldl (fun w c => match c.2 with | some jid => w.cancelJob jid | none => w) w)

/-- the cluster finishes a job: on success its target's outputs are (re)written with a fresh stamp -/
def World.finishJob (w : World) (wf : List WT) (jid : String) (ok : Bool) : World :=
  match w.job? jid with
  | none => w
  | some j =>
    let w1 := { w with jobs := w.jobs.map (fun x => if x.id == jid then { x with st := if ok then .completed else .failed } else x) }
    if !ok then w1 else
    match wf.find? (fun t => t.name == j.name) with
    | none => w1
    | some wt =>
      let outs := (w1.raw wt).toTgt w1.dir |>.outs
      let clk := w1.clock + 1
      { w1 with clock := clk, files := outs.foldl (fun fs p => aset p clk fs) w1.files }

end Gwf

namespace Gwf

/-- `gwf status [-s STATUS]… [--endpoints] [patterns]`: the restriction of the one status table -/
def World.statusFiltered (w : World) (wf : List WT) (sts : List Status) (endpointsOnly : Bool)
    (patterns : List String) : Except GErr (List (Nat × Status)) :=
  match (w.proj wf none).graph, w.status wf with
  | .ok g, .ok rows =>
    .ok (rows.filter (fun r =>
      (sts.isEmpty || sts.contains r.2) &&
      (patterns.isEmpty || patterns.any (fun p => Glob.globMatch p (nameOf wf r.1))) &&
      (!endpointsOnly || g.endpoints.contains r.1)))
  | .error e, _ => .error e
  | _, .error e => .error e

/-- `gwf info`: per target (definition order) its direct dependencies and dependents -/
def World.info (w : World) (wf : List WT) : Except GErr (List (Nat × List Nat × List Nat)) :=
  match (w.proj wf none).graph with
  | .error e => .error e
  | .ok g => .ok (g.ids.map (fun t => (t, g.depsOf t, g.dependentsOf t)))

def fbVisit (deps : Nat → List Nat) (ok : Nat → Bool) : Nat → Nat → Bool
  | 0, _ => true
  | fuel+1, t => ok t && (deps t).all (fbVisit deps ok fuel)

/-- the targets whose status is decided by FILES alone (C01): no target of their dependency cone has a
    job the backend reports as pending, running, failed or cancelled -/
def World.fileBased (w : World) (wf : List WT) : Except GErr (List Nat) :=
  match (w.proj wf none).graph with
  | .error e => .error e
  | .ok g => .ok (g.ids.filter (fun t =>
      fbVisit g.depsOf (fun u => let b := w.bstat (nameOf wf u); b == .unknown || b == .completed) (g.ids.length + 1) t))

end Gwf
