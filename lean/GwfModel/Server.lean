/-
  GwfModel.Server — the request handler of the local pool server (`local.Server.handle_connection`)
  over the task table.  A request is classified by what the handler does with the received line.
-/
import GwfModel.Basic
namespace Gwf.Srv

/-- one received line, classified -/
inductive Req
  | eof                         -- the client went away (readline returns b"")
  | notJson                     -- json.loads raises
  | notObject                   -- valid JSON that is not an object (no .pop)
  | noKind                      -- object without "__kind__"
  | unknownKind (extra : Bool)  -- unknown kind; `extra` = other keys present (the final assert fails)
  | enqueueBad                  -- enqueue_task lacking a required field (KeyError before anything happens)
  | enqueue (extra : Bool)      -- enqueue_task with all fields (accepted); extra keys trip the assert AFTER the reply
  | getState (tid : Nat)
  | getStateBad
  | getStates
  | cancel (tid : Nat)
  | cancelBad                   -- no tid field
  | close
  deriving Repr, DecidableEq

inductive Resp
  | enqueued (tid : Nat)
  | state (s : Option LStatus)
  | states (tbl : List (Nat × LStatus))
  deriving Repr, DecidableEq

inductive Fate | open | ended
  deriving Repr, DecidableEq

/-- the part of the pool the server exposes: the state of task `i` is `tasks[i]` -/
structure Tbl where
  tasks : List LStatus := []
  deriving Repr, DecidableEq

def Tbl.table (t : Tbl) : List (Nat × LStatus) := (List.range t.tasks.length).zip t.tasks

/-- `cancel_task`: only submitted / running tasks change (the pool then drives them to CANCELLED) -/
def Tbl.cancel (t : Tbl) (tid : Nat) : Tbl :=
  match t.tasks[tid]? with
  | some s => if s == .submitted || s == .running then { tasks := t.tasks.set tid .cancelled } else t
  | none => t

/-- the pool moves a live task on (how is the business of the pool model, C11–C13); final states stay -/
def Tbl.advance (t : Tbl) (tid : Nat) (s : LStatus) : Tbl :=
  match t.tasks[tid]? with
  | some cur => if cur == .submitted || cur == .running then { tasks := t.tasks.set tid s } else t
  | none => t

/-- what the handler does with one request: new table, reply (if any), whether the connection lives on -/
def handle (t : Tbl) : Req → Tbl × Option Resp × Fate
  | .eof => (t, none, .ended)
  | .notJson => (t, none, .ended)
  | .notObject => (t, none, .ended)
  | .noKind => (t, none, .ended)
  | .unknownKind extra => (t, none, if extra then .ended else .open)
  | .enqueueBad => (t, none, .ended)
  | .enqueue extra => ({ tasks := t.tasks ++ [.submitted] }, some (.enqueued t.tasks.length), if extra then .ended else .open)
  | .getState tid => (t, some (.state t.tasks[tid]?), .open)
  | .getStateBad => (t, none, .ended)
  | .getStates => (t, some (.states t.table), .open)
  | .cancel tid => if tid < t.tasks.length then (t.cancel tid, none, .open) else (t, none, .ended)
  | .cancelBad => (t, none, .ended)
  | .close => (t, none, .ended)

/-- requests that cannot change the table -/
def Req.inert : Req → Bool
  | .enqueue _ => false
  | .cancel _ => false
  | _ => true

/-- a global interleaving of requests (each tagged with its connection); replies in order -/
def runAll (t : Tbl) : List (Nat × Req) → Tbl × List (Nat × Resp)
  | [] => (t, [])
  | (c, r) :: rest =>
    let (t', resp, _) := handle t r
    let (t'', out) := runAll t' rest
    (t'', match resp with | some x => (c, x) :: out | none => out)

end Gwf.Srv
