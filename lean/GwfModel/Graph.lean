/-
  GwfModel.Graph — `gwf.core.Graph.from_targets`, `check_for_circular_dependencies`,
  `Graph.endpoints`.  Paths are an arbitrary type with decidable equality (strings after
  `_norm_path` in the driver).  Targets are listed in DEFINITION order; `id` is the rank
  of the target's name in sorted order (what `schedule` sorts by).
-/
import GwfModel.Basic
namespace Gwf

structure Tgt (α : Type) where
  id   : Nat
  ins  : List α      -- `flattened_inputs()`
  outs : List α      -- `flattened_outputs()`
  deriving Repr

inductive GErr | multi | unresolved | cycle
  deriving DecidableEq, Repr

def GErr.name : GErr → String
  | .multi => "multi" | .unresolved => "unresolved" | .cycle => "cycle"

/-- sorted insert without duplicates (a Python `set` of targets, read back `sorted`) -/
def sinsert (x : Nat) : List Nat → List Nat
  | [] => [x]
  | y :: ys => if x < y then x :: y :: ys else if x = y then y :: ys else y :: sinsert x ys

variable {α : Type} [DecidableEq α]

/-- `if path in provides: raise …; provides[path] = target` -/
def addOut (id : Nat) (a : Option (List (α × Nat))) (p : α) : Option (List (α × Nat)) :=
  match a with
  | none => none
  | some m => if (alook p m).isSome then none else some (m ++ [(p, id)])

/-- phase 1: `provides`; `none` = FileProvidedByMultipleTargetsError -/
def buildProvides : List (Tgt α) → List (α × Nat) → Option (List (α × Nat))
  | [], acc => some acc
  | t :: ts, acc =>
    match t.outs.foldl (addOut t.id) (some acc) with
    | none => none
    | some acc' => buildProvides ts acc'

/-- one input path: a dependency on its producer, or an unresolved path -/
def depStepG (provides : List (α × Nat)) (acc : List Nat × List α) (p : α) : List Nat × List α :=
  match alook p provides with
  | some prod => (sinsert prod acc.1, acc.2)
  | none => (acc.1, if p ∈ acc.2 then acc.2 else acc.2 ++ [p])

/-- phase 2 for one target: its dependency set (sorted ids) and its unresolved inputs -/
def depsOf (provides : List (α × Nat)) (t : Tgt α) : List Nat × List α :=
  t.ins.foldl (depStepG provides) ([], [])

/-- dependency lookup as a function (empty for unknown ids, like the `defaultdict`) -/
def depFn (deps : List (Nat × List Nat)) (t : Nat) : List Nat := (alook t deps).getD []

/-- one iteration of `for dep in dependencies[node]` inside `visitor`: `blocked` are the nodes
    whose state is `started` (the recursion stack incl. the current node) -/
def cstep (vis : List Nat → Nat → Option (List Nat)) (blocked : List Nat)
    (acc : Option (List Nat)) (d : Nat) : Option (List Nat) :=
  match acc with
  | none => none
  | some dn =>
    if d ∈ blocked then none          -- state[dep] == started → CircularDependencyError
    else if d ∈ dn then some dn       -- state[dep] == done
    else vis dn d                     -- state[dep] == fresh → visitor(dep)

/-- `visitor(node)` of `check_for_circular_dependencies`: `started` is the recursion stack,
    `done` the finished nodes (newest first); `none` = CircularDependencyError (or fuel exhausted) -/
def cvisit (deps : Nat → List Nat) : Nat → List Nat → List Nat → Nat → Option (List Nat)
  | 0, _, _, _ => none
  | fuel+1, started, done, node =>
    ((deps node).foldl (cstep (fun dn d => cvisit deps fuel (node :: started) dn d) (node :: started))
      (some done)).map (node :: ·)

/-- the outer loop `for node in nodes: if state[node] == fresh: visitor(node)` -/
def checkCycles (deps : Nat → List Nat) (fuel : Nat) (nodes : List Nat) : Option (List Nat) :=
  nodes.foldl (cstep (fun dn n => cvisit deps fuel [] dn n) []) (some [])

structure Graph (α : Type) where
  ids        : List Nat                  -- target ids in definition order
  provides   : List (α × Nat)
  deps       : List (Nat × List Nat)     -- per target (definition order): sorted dependency ids
  unresolved : List α
  deriving Repr

def Graph.depsOf (g : Graph α) (t : Nat) : List Nat := depFn g.deps t

/-- `dependents[t]` (sorted) -/
def Graph.dependentsOf (g : Graph α) (t : Nat) : List Nat :=
  (g.deps.filter (fun p => t ∈ p.2)).foldl (fun acc p => sinsert p.1 acc) []

/-- `Graph.endpoints()`: targets nothing depends on (sorted) -/
def Graph.endpoints (g : Graph α) : List Nat :=
  (g.ids.filter (fun t => g.deps.all (fun p => t ∉ p.2))).foldl (fun acc t => sinsert t acc) []

/-- `Graph.from_targets(targets, fs)`; `ex p` = `fs.exists(p)` -/
def buildGraph (targets : List (Tgt α)) (ex : α → Bool) : Except GErr (Graph α) :=
  match buildProvides targets [] with
  | none => .error .multi
  | some provides =>
    let per := targets.map (fun t => (t.id, depsOf provides t))
    let deps := per.map (fun p => (p.1, p.2.1))
    let unresolved := per.foldl (fun acc p => p.2.2.foldl (fun a x => if x ∈ a then a else a ++ [x]) acc) []
    if unresolved.any (fun p => !ex p) then .error .unresolved
    else
      let ids := targets.map (·.id)
      match checkCycles (depFn deps) (ids.length + 1) ids with
      | none => .error .cycle
      | some _ => .ok { ids := ids, provides := provides, deps := deps, unresolved := unresolved }

end Gwf
