/-
  GwfModel.Basic — enums and small finite-map helpers shared by all models.
  Import-free (core Lean only).
-/
namespace Gwf

/-- `gwf.core.Status` -/
inductive Status | shouldrun | submitted | running | completed | failed | cancelled
  deriving DecidableEq, Repr, Inhabited

/-- `gwf.backends.base.BackendStatus` -/
inductive BStatus | unknown | submitted | running | completed | failed | cancelled
  deriving DecidableEq, Repr, Inhabited

/-- `gwf.backends.local.LocalStatus` -/
inductive LStatus | unknown | submitted | running | failed | completed | cancelled | killed
  deriving DecidableEq, Repr, Inhabited

/-- values a config entry / option may hold (`int`, `bool`, `str`, `None`) -/
inductive CfgVal | int (i : Int) | bool (b : Bool) | str (s : String) | none
  deriving DecidableEq, Repr, Inhabited

def Status.all : List Status := [.shouldrun, .submitted, .running, .completed, .failed, .cancelled]
def BStatus.all : List BStatus := [.unknown, .submitted, .running, .completed, .failed, .cancelled]
def LStatus.all : List LStatus := [.unknown, .submitted, .running, .failed, .completed, .cancelled, .killed]

def Status.name : Status → String
  | .shouldrun => "shouldrun" | .submitted => "submitted" | .running => "running"
  | .completed => "completed" | .failed => "failed" | .cancelled => "cancelled"

def BStatus.name : BStatus → String
  | .unknown => "unknown" | .submitted => "submitted" | .running => "running"
  | .completed => "completed" | .failed => "failed" | .cancelled => "cancelled"

def LStatus.name : LStatus → String
  | .unknown => "unknown" | .submitted => "submitted" | .running => "running"
  | .failed => "failed" | .completed => "completed" | .cancelled => "cancelled" | .killed => "killed"

def Status.ofName? (s : String) : Option Status := Status.all.find? (fun x => x.name == s)
def BStatus.ofName? (s : String) : Option BStatus := BStatus.all.find? (fun x => x.name == s)
def LStatus.ofName? (s : String) : Option LStatus := LStatus.all.find? (fun x => x.name == s)

theorem Status.mem_all (s : Status) : s ∈ Status.all := by cases s <;> simp [Status.all]
theorem BStatus.mem_all (s : BStatus) : s ∈ BStatus.all := by cases s <;> simp [BStatus.all]
theorem LStatus.mem_all (s : LStatus) : s ∈ LStatus.all := by cases s <;> simp [LStatus.all]

/-! ### association lists (Python dicts): first match wins on lookup, `set` keeps position -/

def alook {α β} [DecidableEq α] (k : α) : List (α × β) → Option β
  | [] => none
  | (k', v) :: rest => if k' = k then some v else alook k rest

def aset {α β} [DecidableEq α] (k : α) (v : β) : List (α × β) → List (α × β)
  | [] => [(k, v)]
  | (k', v') :: rest => if k' = k then (k, v) :: rest else (k', v') :: aset k v rest

def aerase {α β} [DecidableEq α] (k : α) : List (α × β) → List (α × β)
  | [] => []
  | (k', v') :: rest => if k' = k then aerase k rest else (k', v') :: aerase k rest

def akeys {α β} (m : List (α × β)) : List α := m.map Prod.fst

theorem alook_aset_same {α β} [DecidableEq α] (k : α) (v : β) (m : List (α × β)) :
    alook k (aset k v m) = some v := by
  induction m with
  | nil => simp [aset, alook]
  | cons p rest ih =>
    obtain ⟨k', v'⟩ := p
    simp only [aset]
    split
    · simp [alook]
    · rename_i h; simp [alook, h, ih]

theorem alook_aset_other {α β} [DecidableEq α] (k k' : α) (v : β) (m : List (α × β)) (h : k' ≠ k) :
    alook k' (aset k v m) = alook k' m := by
  induction m with
  | nil => simp [aset, alook, Ne.symm h]
  | cons p rest ih =>
    obtain ⟨k'', v''⟩ := p
    simp only [aset]
    split
    · rename_i h2; subst h2; simp [alook, Ne.symm h]
    · simp only [alook]; split <;> simp_all

theorem alook_aerase_same {α β} [DecidableEq α] (k : α) (m : List (α × β)) :
    alook k (aerase k m) = none := by
  induction m with
  | nil => simp [aerase, alook]
  | cons p rest ih =>
    obtain ⟨k', v'⟩ := p
    simp only [aerase]
    split
    · exact ih
    · rename_i h; simp [alook, h, ih]

theorem alook_aerase_other {α β} [DecidableEq α] (k k' : α) (m : List (α × β)) (h : k' ≠ k) :
    alook k' (aerase k m) = alook k' m := by
  induction m with
  | nil => simp [aerase, alook]
  | cons p rest ih =>
    obtain ⟨k'', v''⟩ := p
    simp only [aerase]
    split
    · rename_i h2; subst h2; simp [alook, Ne.symm h, ih]
    · simp only [alook]; split <;> simp_all

theorem alook_append {α β} [DecidableEq α] (k : α) (a b : List (α × β)) :
    alook k (a ++ b) = match alook k a with | some s => some s | none => alook k b := by
  induction a with
  | nil => simp [alook]
  | cons p rest ih =>
    obtain ⟨k', v⟩ := p
    simp only [List.cons_append, alook]
    split <;> simp_all

theorem alook_none_of_not_mem {α β} [DecidableEq α] (k : α) (m : List (α × β))
    (h : k ∉ akeys m) : alook k m = none := by
  induction m with
  | nil => rfl
  | cons p rest ih =>
    obtain ⟨k', v⟩ := p
    simp only [akeys, List.map_cons, List.mem_cons, not_or] at h
    simp only [alook]
    split
    · rename_i hk; exact absurd hk.symm h.1
    · exact ih h.2

theorem alook_some_mem {α β} [DecidableEq α] (k : α) (v : β) (m : List (α × β))
    (h : alook k m = some v) : (k, v) ∈ m := by
  induction m with
  | nil => simp [alook] at h
  | cons p rest ih =>
    obtain ⟨k', v'⟩ := p
    simp only [alook] at h
    split at h
    · rename_i hk; subst hk; simp at h; subst h; simp
    · exact List.mem_cons_of_mem _ (ih h)

theorem alook_isSome_iff_mem_keys {α β} [DecidableEq α] (k : α) (m : List (α × β)) :
    (alook k m).isSome ↔ k ∈ akeys m := by
  induction m with
  | nil => simp [alook, akeys]
  | cons p rest ih =>
    obtain ⟨k', v'⟩ := p
    simp only [alook, akeys, List.map_cons, List.mem_cons]
    split
    · rename_i hk; simp [hk]
    · rename_i hk
      rw [ih]; simp only [akeys]
      constructor
      · intro h; exact Or.inr h
      · intro h; rcases h with h | h
        · exact absurd h.symm hk
        · exact h

end Gwf
