/-
  GwfModel.Pool — the local worker pool (`gwf.backends.local.Scheduler`) as a labelled transition
  system.  Labels are exactly the events the harness can observe on the REAL scheduler (task-state
  writes, semaphore acquire/release, process spawn/exit/kill, task completion) plus the harness'
  own operations (enqueue, cancel request, clock tick, process exit).  `step s l = none` means the
  label is not enabled in `s`: the implementation did something the model forbids.
-/
import GwfModel.Basic
namespace Gwf.Pool

/-- where the task's coroutine (`try_handle_task`) stands -/
inductive Phase
  | waiting    -- created; not yet past `asyncio.wait(deps)`
  | waitCore   -- inside `cores_ressource.acquire()`
  | starting   -- holds a core; before / inside `create_subprocess_shell`
  | running    -- inside `wait_for(proc.communicate(), time_limit)`
  | killT      -- time limit exceeded: kill sequence in progress
  | killC      -- cancelled while running: kill sequence in progress
  | failing    -- an exception is being turned into FAILED (could not start the process)
  | finishing  -- final state written while the core is still held (before `release`)
  | closing    -- state is final, core released (or never held); coroutine about to return
  | done       -- the asyncio task is finished
  deriving DecidableEq, Repr, Inhabited

/-- ghost: the decisive thing that happened to the task -/
inductive Hist
  | none | ranExit (code : Int) | spawnFailed | logFailed | timedOut | cancelled
  | depBad (s : LStatus) | unknownDep
  deriving DecidableEq, Repr, Inhabited

structure Task where
  deps      : List Nat
  limit     : Option Nat
  phase     : Phase := .waiting
  st        : LStatus := .submitted
  alive     : Bool := false          -- the task's process exists
  spawned   : Bool := false          -- a process was started for it (ever)
  exitCode  : Option Int := none
  cancelReq : Bool := false          -- an effective cancel request was made
  spawnAt   : Nat := 0
  killAt    : Nat := 0
  hist      : Hist := .none
  deriving Repr, Inhabited

structure Pool where
  maxCores   : Nat
  tasks      : List Task := []       -- index = task id
  holders    : List Nat := []        -- task ids that hold a core (acquired, not yet released)
  now        : Nat := 0
  logsBroken : Bool := false         -- harness switch: the log directory is unwritable
  deriving Repr

inductive Label
  -- operations of the environment (harness / clients / OS)
  | enq (deps : List Nat) (limit : Option Nat)
  | cancelReq (tid : Nat)
  | tick (dt : Nat)
  | exit (tid : Nat) (code : Int)
  | breakLogs (b : Bool)
  -- observed actions of the scheduler
  | set (tid : Nat) (s : LStatus)
  | acqReq (tid : Nat)
  | acq (tid : Nat)
  | rel (tid : Nat)
  | spawn (tid : Nat)
  | spawnFail (tid : Nat)
  | kill (tid : Nat)
  | taskDone (tid : Nat) (cancelled : Bool)
  deriving Repr

def LStatus.final (s : LStatus) : Bool := s != .submitted && s != .running

def Pool.task? (s : Pool) (tid : Nat) : Option Task := s.tasks[tid]?

def Pool.upd (s : Pool) (tid : Nat) (f : Task → Task) : Pool :=
  match s.tasks[tid]? with
  | some t => { s with tasks := s.tasks.set tid (f t) }
  | none => s

def Pool.holds (s : Pool) (tid : Nat) : Bool := s.holders.contains tid

/-- dependency `d` finished successfully -/
def Pool.depOk (s : Pool) (d : Nat) : Bool :=
  match s.task? d with
  | some t => t.phase == .done && t.st == .completed
  | none => false

def Pool.depDone (s : Pool) (d : Nat) : Bool :=
  match s.task? d with
  | some t => t.phase == .done
  | none => false

/-- first dependency (in declaration order) that did not complete: the one whose state is inherited -/
def Pool.firstBad (s : Pool) (deps : List Nat) : Option LStatus :=
  match deps.find? (fun d => !s.depOk d) with
  | some d => (s.task? d).map (·.st)
  | none => none

def timeoutDue (now : Nat) (t : Task) : Bool :=
  match t.limit with
  | some l => decide (t.spawnAt + l ≤ now)
  | none => false

/-- the process exited and the task cannot count as completed: non-zero code, or logs unwritable -/
def exitBad (c : Option Int) (logsBroken : Bool) : Bool :=
  match c with
  | some c => c != 0 || logsBroken
  | none => false

inductive HoldEff | keep | add | remove
  deriving DecidableEq, Repr

def HoldEff.apply (h : HoldEff) (tid : Nat) (holders : List Nat) : List Nat :=
  match h with
  | .keep => holders
  | .add => tid :: holders
  | .remove => holders.erase tid

/-- the task a label is about -/
def Label.tid? : Label → Option Nat
  | .cancelReq t | .exit t _ | .set t _ | .acqReq t | .acq t | .rel t | .spawn t | .spawnFail t | .kill t
  | .taskDone t _ => some t
  | _ => none

/-- guard and effect of a label on the task it is about (`s` is read-only context) -/
def stepTask (s : Pool) (tid : Nat) (t : Task) : Label → Option (Task × HoldEff)
  | .cancelReq _ =>
    if t.st == .submitted || t.st == .running then
      some ({ t with cancelReq := true, st := .cancelled, hist := .cancelled }, .keep)
    else some (t, .keep)                          -- cancelling a finished task changes nothing
  | .exit _ code =>
    if t.alive then some ({ t with alive := false, exitCode := some code }, .keep) else none
  | .acqReq _ =>
    if t.phase == .waiting && !t.cancelReq && t.deps.all s.depOk then some ({ t with phase := .waitCore }, .keep) else none
  | .acq _ =>
    if t.phase == .waitCore && !t.cancelReq && !s.holds tid && decide (s.holders.length < s.maxCores) then
      some ({ t with phase := .starting }, .add)
    else none
  | .rel _ =>
    if s.holds tid && !t.alive && LStatus.final t.st && t.phase != .done then
      some ({ t with phase := .closing }, .remove)
    else none
  | .spawn _ =>
    if t.phase == .starting && s.holds tid && t.st == .running && !t.spawned && !t.cancelReq && t.deps.all s.depOk then
      some ({ t with phase := .running, alive := true, spawned := true, spawnAt := s.now }, .keep)
    else if t.phase == .starting && s.holds tid && t.st == .cancelled && t.hist == .cancelled && !t.spawned && t.cancelReq
        && t.deps.all s.depOk then
      -- the cancel request arrived while the process was being started: the start-up is not interrupted
      -- (the process exists and must be killed with its group), see the kill rule for `running ∧ cancelReq`
      some ({ t with phase := .running, alive := true, spawned := true, spawnAt := s.now }, .keep)
    else none
  | .spawnFail _ =>
    if t.phase == .starting && s.holds tid && t.st == .running && !t.spawned && !t.cancelReq then
      some ({ t with phase := .failing, hist := .spawnFailed }, .keep)
    else if t.phase == .starting && s.holds tid && t.st == .cancelled && !t.spawned && t.cancelReq then
      some (t, .keep)                            -- cancelled during a start-up that failed: no process, stays cancelled
    else none
  | .kill _ =>
    if t.phase == .running && t.alive && t.cancelReq then
      some ({ t with phase := .killC, killAt := s.now }, .keep)
    else if t.phase == .running && t.alive && !t.cancelReq && timeoutDue s.now t then
      some ({ t with phase := .killT, killAt := s.now, hist := .timedOut }, .keep)
    else none
  | .set _ st' =>
    match st' with
    | .submitted =>   -- written once by `enqueue_task`
      if t.phase == .waiting && t.st == .submitted && !t.cancelReq then some (t, .keep) else none
    | .running =>
      if t.phase == .starting && s.holds tid && t.st == .submitted && !t.spawned && !t.cancelReq then
        some ({ t with st := .running }, .keep)
      else none
    | .completed =>
      if t.phase == .running && !t.alive && t.st == .running && !t.cancelReq && t.spawned
          && t.exitCode == some 0 && !s.logsBroken && t.hist == .none then
        some ({ t with st := .completed, hist := .ranExit 0, phase := .finishing }, .keep)
      else none
    | .cancelled =>
      -- re-written by the CancelledError handler, or inherited from a cancelled dependency
      if t.st == .cancelled && t.cancelReq then some (t, .keep)
      else if t.phase == .waiting && !t.cancelReq && t.st == .submitted && t.deps.all s.depDone
          && s.firstBad t.deps == some .cancelled then
        some ({ t with st := .cancelled, hist := .depBad .cancelled, phase := .closing }, .keep)
      else none
    | .killed =>
      if t.phase == .killT && !t.alive && t.st == .running && !t.cancelReq && decide (t.killAt + 1 ≤ s.now) then
        some ({ t with st := .killed, phase := .finishing }, .keep)
      else if t.phase == .running && !t.alive && t.st == .running && !t.cancelReq && t.spawned && timeoutDue s.now t then
        -- the time limit expired and the process had already exited when the kill sequence began
        some ({ t with st := .killed, hist := .timedOut, phase := .finishing }, .keep)
      else if t.phase == .waiting && !t.cancelReq && t.st == .submitted && t.deps.all s.depDone
          && s.firstBad t.deps == some .killed then
        some ({ t with st := .killed, hist := .depBad .killed, phase := .closing }, .keep)
      else none
    | .failed =>
      if t.phase == .running && !t.alive && t.st == .running && !t.cancelReq && t.spawned
          && exitBad t.exitCode s.logsBroken then
        some ({ t with st := .failed, phase := .finishing,
                       hist := if t.exitCode == some 0 then .logFailed else .ranExit (t.exitCode.getD 1) }, .keep)
      else if t.phase == .failing && t.st == .running && !t.cancelReq then
        some ({ t with st := .failed, phase := .finishing }, .keep)
      else if t.phase == .waiting && !t.cancelReq && t.st == .submitted && t.deps.all s.depDone
          && s.firstBad t.deps == some .failed then
        some ({ t with st := .failed, hist := .depBad .failed, phase := .closing }, .keep)
      else if t.phase == .waiting && !t.cancelReq && t.st == .submitted
          && t.deps.any (fun d => decide (s.tasks.length ≤ d)) then
        some ({ t with st := .failed, hist := .unknownDep, phase := .closing }, .keep)
      else none
    | .unknown => none
  | .taskDone _ cancelled =>
    if t.phase != .done && !s.holds tid && !t.alive && LStatus.final t.st
        && (t.phase == .closing || t.cancelReq) && (!cancelled || t.cancelReq) then
      some ({ t with phase := .done }, .keep)
    else none
  | _ => none

/-- guard and effect of one label on the pool -/
def step (s : Pool) (l : Label) : Option Pool :=
  match l with
  | .enq deps limit => some { s with tasks := s.tasks ++ [{ deps := deps, limit := limit }] }
  | .tick dt => some { s with now := s.now + dt }
  | .breakLogs b => some { s with logsBroken := b }
  | _ =>
    match l.tid? with
    | none => none
    | some tid =>
      match s.task? tid with
      | none => none
      | some t =>
        match stepTask s tid t l with
        | none => none
        | some (t', h) => some { s with tasks := s.tasks.set tid t', holders := h.apply tid s.holders }

def run (s : Pool) : List Label → Option Pool
  | [] => some s
  | l :: ls => match step s l with
    | some s' => run s' ls
    | none => none

/-- run a trace, reporting the index of the first label that is not enabled -/
def runIdx (s : Pool) (i : Nat) : List Label → Pool × Option Nat
  | [] => (s, none)
  | l :: ls => match step s l with
    | some s' => runIdx s' (i + 1) ls
    | none => (s, some i)

def init (maxCores : Nat) : Pool := { maxCores := maxCores }

/-! ### observations used by the properties -/

def Pool.aliveTids (s : Pool) : List Nat :=
  (List.range s.tasks.length).filter (fun i => match s.tasks[i]? with | some t => t.alive | none => false)

/-- a task is ready to use a core: waiting for one, not cancelled -/
def Task.wantsCore (t : Task) : Bool := t.phase == .waitCore && !t.cancelReq

/-- the task's coroutine is parked at an await that only an environment operation (process exit,
    cancel, clock, enqueue) can resolve -/
def Pool.parked (s : Pool) (t : Task) : Bool :=
  match t.phase with
  | .waiting => !t.cancelReq && t.deps.any (fun d => !s.depDone d) && t.deps.all (fun d => decide (d < s.tasks.length))
  | .waitCore => !t.cancelReq && decide (s.maxCores ≤ s.holders.length)
  | .starting => false
  | .running => t.alive && !t.cancelReq && !timeoutDue s.now t
  | .killT => !t.cancelReq && decide (s.now < t.killAt + 1)
  | .killC => decide (s.now < t.killAt + 1)
  | .failing => false
  | .finishing => false
  | .closing => false
  | .done => true

/-- nothing inside the pool can move without the environment -/
def Pool.quiescent (s : Pool) : Bool :=
  (List.range s.tasks.length).all fun i =>
    match s.tasks[i]? with
    | none => true
    | some t => s.parked t

end Gwf.Pool

namespace Gwf.Pool

/-- which guard conjunct fails (for attribution of a rejected label to a property) -/
def whyNot (s : Pool) : Label → String
  | .acqReq tid =>
    match s.task? tid with
    | some t => if !t.deps.all s.depOk then "dependency-not-completed" else if t.cancelReq then "cancelled" else "phase"
    | none => "no-such-task"
  | .spawn tid =>
    match s.task? tid with
    | some t => if !t.deps.all s.depOk then "dependency-not-completed" else if !s.holds tid then "core-not-held"
                else if t.spawned then "already-started" else "phase-or-state"
    | none => "no-such-task"
  | .spawnFail tid =>
    match s.task? tid with
    | some _ => if !s.holds tid then "core-not-held" else "phase-or-state"
    | none => "no-such-task"
  | .acq tid =>
    match s.task? tid with
    | some t => if !(decide (s.holders.length < s.maxCores)) then "no-free-core" else if s.holds tid then "core-already-held"
                else if t.cancelReq then "cancelled" else "phase"
    | none => "no-such-task"
  | .rel tid =>
    match s.task? tid with
    | some t => if !s.holds tid then "core-not-held" else if t.alive then "process-still-alive" else "state-not-final"
    | none => "no-such-task"
  | .set tid st' =>
    match s.task? tid with
    | some t =>
      if t.phase == .done then "finished-task-changed"
      else if t.cancelReq then "state-written-after-cancel"
      else if st' == .completed then (if t.exitCode != some 0 then "completed-without-exit-0" else "completed-not-allowed")
      else if t.phase == .waiting then "inherited-state-wrong"
      else "state-not-allowed"
    | none => "no-such-task"
  | .taskDone tid _ =>
    match s.task? tid with
    | some t => if s.holds tid then "finished-holding-core" else if t.alive then "finished-with-process-alive"
                else if !LStatus.final t.st then "finished-without-final-state" else "phase"
    | none => "no-such-task"
  | .kill tid =>
    match s.task? tid with
    | some t => if !t.alive then "kill-of-exited-process" else "kill-without-cancel-or-timeout"
    | none => "no-such-task"
  | .exit _ _ => "exit-of-dead-process"
  | .cancelReq _ => "no-such-task"
  | _ => "?"

/-- apply the label's effect without its guard (used to keep validating after a rejection) -/
def force (s : Pool) (l : Label) : Pool :=
  match step s l with
  | some s' => s'
  | none =>
    match l with
    | .acqReq tid => s.upd tid fun t => { t with phase := .waitCore }
    | .acq tid => { (s.upd tid fun t => { t with phase := .starting }) with holders := if s.holds tid then s.holders else tid :: s.holders }
    | .rel tid => { (s.upd tid fun t => { t with phase := if t.phase == .done then .done else .closing }) with holders := s.holders.erase tid }
    | .spawn tid => s.upd tid fun t => { t with phase := .running, alive := true, spawned := true, spawnAt := s.now }
    | .spawnFail tid => s.upd tid fun t => { t with phase := .failing, hist := .spawnFailed }
    | .kill tid => s.upd tid fun t => { t with phase := if t.cancelReq then .killC else .killT, killAt := s.now }
    | .set tid st' => s.upd tid fun t => { t with st := st' }
    | .taskDone tid _ => s.upd tid fun t => { t with phase := .done }
    | .exit tid code => s.upd tid fun t => { t with alive := false, exitCode := some code }
    | _ => s

end Gwf.Pool
