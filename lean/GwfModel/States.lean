/-
  GwfModel.States — from a scheduler's state code to the state gwf reports (C08).  The code tables
  are regenerated from the source on every run (GwfModel/Generated.lean); the DOCUMENTED tables below
  are hand-curated from the schedulers' manuals and say what each documented code must mean.
-/
import GwfModel.World
namespace Gwf.St

/-- what the property says a code must be shown as -/
inductive Cat
  | queued         -- queued / held: submitted
  | executing      -- running
  | failure        -- non-zero exit, time-out, out-of-memory, node failure …: failed
  | cancelled
  | success        -- success or no record: falls back to the file-based decision
  | active         -- still owned by the scheduler: submitted or running (the property does not say which)
  | unconstrained  -- suspended / error-queue / transitional states the property does not classify
  deriving DecidableEq, Repr

def accepts : Cat → BStatus → Bool
  | .queued, b => b == .submitted
  | .executing, b => b == .running
  | .failure, b => b == .failed
  | .cancelled, b => b == .cancelled
  | .success, b => b == .completed || b == .unknown
  | .active, b => b == .submitted || b == .running
  | .unconstrained, _ => true

/-- squeue `%t` codes (Slurm JOB STATE CODES) -/
def slurmDocumented : List (String × Cat) :=
  [("PD", .queued), ("R", .executing), ("CA", .cancelled), ("CD", .success), ("F", .failure), ("TO", .failure),
   ("OOM", .failure), ("NF", .failure), ("BF", .failure), ("DL", .failure), ("PR", .failure),
   ("CF", .active), ("CG", .active), ("RQ", .active), ("RH", .active), ("RD", .active), ("RF", .active),
   ("RS", .active), ("SO", .active), ("S", .unconstrained), ("ST", .unconstrained), ("RV", .unconstrained),
   ("SE", .unconstrained)]

/-- sacct state names -/
def slurmLongDocumented : List (String × Cat) :=
  [("BOOT_FAIL", .failure), ("CANCELLED", .cancelled), ("COMPLETED", .success), ("DEADLINE", .failure),
   ("FAILED", .failure), ("NODE_FAIL", .failure), ("OUT_OF_MEMORY", .failure), ("PENDING", .queued),
   ("PREEMPTED", .failure), ("RUNNING", .executing), ("REQUEUED", .active), ("RESIZING", .active),
   ("REVOKED", .unconstrained), ("SUSPENDED", .unconstrained), ("TIMEOUT", .failure)]

/-- bjobs STAT values -/
def lsfDocumented : List (String × Cat) :=
  [("PEND", .queued), ("RUN", .executing), ("DONE", .success), ("EXIT", .failure), ("WAIT", .queued),
   ("PSUSP", .unconstrained), ("USUSP", .unconstrained), ("SSUSP", .unconstrained), ("ZOMBI", .unconstrained),
   ("UNKWN", .unconstrained)]

/-- qstat state letter combinations -/
def sgeDocumented : List (String × Cat) :=
  [("qw", .queued), ("hqw", .queued), ("hRwq", .queued), ("r", .executing), ("t", .active), ("Rr", .executing),
   ("Rt", .active), ("s", .unconstrained), ("S", .unconstrained), ("T", .unconstrained), ("Eqw", .unconstrained),
   ("dr", .unconstrained), ("dt", .unconstrained), ("dRr", .unconstrained), ("ts", .unconstrained)]

/-- the local pool's own states -/
def localDocumented : List (LStatus × Cat) :=
  [(.submitted, .queued), (.running, .executing), (.failed, .failure), (.completed, .success),
   (.cancelled, .cancelled), (.killed, .failure), (.unknown, .success)]

/-! ### what the code does with a state code -/

/-- `SLURM_JOB_STATES[code]` (a defaultdict over SLURM_SHORT_STATES) -/
def slurmShort (code : String) : BStatus := (alook code Generated.slurmShort).getD Generated.slurmUnknownDefault

def firstWord (s : String) : String := String.ofList (s.toList.takeWhile (fun c => c != ' '))

/-- sacct: `state.split()[0]` → SLURM_LONG_STATES → SLURM_JOB_STATES; `none` = KeyError -/
def slurmLong (state : String) : Option BStatus := (alook (firstWord state) Generated.slurmLong).map slurmShort

/-- `get_job_states`: accounting database first (if enabled), then the live queue on top -/
def slurmJob (queue acct : Option String) (accounting : Bool) : Option BStatus :=
  match queue with
  | some c => some (slurmShort c)
  | none =>
    if accounting then
      match acct with
      | some a => slurmLong a
      | none => some .unknown
    else some .unknown

def lsfState (code : String) : Option BStatus := alook code Generated.lsfStates

/-- SGE: letters of the qstat state -/
def sgeState (letters : String) : BStatus :=
  let l := letters.toList
  if l.contains 'd' || l.contains 'E' then .unknown
  else if l.contains 'r' || l.contains 't' || l.contains 's' then .running
  else .submitted

def localState (s : LStatus) : Option BStatus := alook s Generated.localStatusMap

/-- sacct is asked in batches of `n` ids -/
def batches {α} (n : Nat) : Nat → List α → List (List α)
  | 0, _ => []
  | _, [] => []
  | fuel+1, l => l.take n :: batches n fuel (l.drop n)

/-- what `gwf status` shows for a target whose file-based decision is `stale` and which has no
    submitted dependency -/
def shown (b : BStatus) (stale : Bool) : Status := (decideT b [] stale).1

end Gwf.St
