/-
  GwfModel.Workflow — target definition: name and path validation (`utils.is_valid_name`,
  `core._check_path`), working-directory inheritance (`Workflow.target`, `target_from_template`, `map`),
  `map` naming, duplicate names, and the upward search of `utils.find_workflow`.
-/
import GwfModel.Basic
import GwfModel.Generated
import GwfModel.Path
namespace Gwf.Wfl

def isAlpha_ (c : Char) : Bool := ('a' ≤ c && c ≤ 'z') || ('A' ≤ c && c ≤ 'Z') || c == '_'
def isNameRest (c : Char) : Bool := isAlpha_ c || ('0' ≤ c && c ≤ '9') || c == '.'

/-- `re.fullmatch(r"[a-zA-Z_][a-zA-Z0-9._]*", candidate) is not None` -/
def validNameL : List Char → Bool
  | [] => false
  | c :: rest => isAlpha_ c && rest.all isNameRest

def validName (s : String) : Bool := validNameL s.toList

/-- `unicodedata.category(c) == "Cc"`: the C0 and C1 control characters -/
def isCc (c : Char) : Bool := c.toNat ≤ 31 || (127 ≤ c.toNat && c.toNat ≤ 159)

/-- `_check_path` accepts: non-empty and no control character -/
def validPath (s : String) : Bool := !s.toList.isEmpty && !s.toList.any isCc

/-- working directory of a target: an explicit / template working directory if it is given (not
    None, not empty), else the workflow's -/
def targetWd (templateWd : Option String) (workflowWd : String) : String :=
  match templateWd with
  | some w => if w.isEmpty then workflowWd else w
  | none => workflowWd

/-- `Workflow._add_target`: names must be unique -/
def addTarget (names : List String) (n : String) : Except String (List String) :=
  if names.contains n then .error "exists" else .ok (names ++ [n])

/-- default / string naming of `Workflow.map`: `<name>_<idx>` -/
def mapName (base : String) (idx : Nat) : String := base ++ "_" ++ toString idx

/-- add the targets of one `map` call (names computed by any naming function) one by one -/
def addAll : List String → List String → Except String (List String)
  | names, [] => .ok names
  | names, n :: rest => match addTarget names n with
    | .error e => .error e
    | .ok names' => addAll names' rest

/-- `find_workflow` for a relative path: look in `dir`, then in each parent up to the root.
    Directories are component lists (root = []); `has d` = the workflow file exists in `d`. -/
def findUp (has : List String → Bool) : Nat → List String → Option (List String)
  | 0, d => if has d then some d else none
  | fuel+1, d => if has d then some d else match d with
    | [] => none
    | _ => findUp has fuel d.dropLast

def findWorkflow (has : List String → Bool) (cwd : List String) : Option (List String) := findUp has cwd.length cwd

end Gwf.Wfl
