/-
  GwfModel.Project — a whole project as gwf sees it at the start of an invocation:
  raw target declarations (shapes, working dirs), a file snapshot, backend states and
  spec-hash flags; and the composition  declarations → graph → scheduling pass.
-/
import GwfModel.Basic
import GwfModel.Path
import GwfModel.Shape
import GwfModel.Graph
import GwfModel.Sched
namespace Gwf

structure RawTgt where
  id          : Nat                 -- rank of the name in sorted order
  wd          : String              -- target.working_dir
  bstat       : BStatus             -- backend.status(target)
  specChanged : Bool                -- spec_hashes.has_changed(target) is not None
  ins         : Shape String
  outs        : Shape String
  prot        : Shape String

structure Proj where
  cwd     : String
  targets : List RawTgt             -- definition order
  fs      : List (String × Option Nat)
  eps     : Option (List Nat)       -- requested endpoints (sorted ids) or none = graph endpoints

def normS (cwd wd p : String) : String :=
  String.ofList (Path.normPath cwd.toList wd.toList p.toList)

def RawTgt.toTgt (cwd : String) (t : RawTgt) : Tgt String :=
  { id := t.id, ins := t.ins.flatten.map (normS cwd t.wd), outs := t.outs.flatten.map (normS cwd t.wd) }

def RawTgt.protected (cwd : String) (t : RawTgt) : List String :=
  t.prot.flatten.map (normS cwd t.wd)

def Proj.tgts (p : Proj) : List (Tgt String) := p.targets.map (RawTgt.toTgt p.cwd)

def Proj.fsFn (p : Proj) (path : String) : Option Nat := (alook path p.fs).getD none

def Proj.graph (p : Proj) : Except GErr (Graph String) :=
  buildGraph p.tgts (fun path => (p.fsFn path).isSome)

def Proj.raw? (p : Proj) (t : Nat) : Option RawTgt := p.targets.find? (fun r => r.id == t)

/-- `should_run` of target `t`; `none` = it would raise -/
def Proj.shouldRun? (p : Proj) (t : Nat) : Option Bool :=
  match p.raw? t with
  | none => some true
  | some r =>
    let tg := r.toTgt p.cwd
    shouldRun p.fsFn r.specChanged tg.ins tg.outs

def Proj.wf (p : Proj) (g : Graph String) : Wf :=
  { deps := g.depsOf,
    bstat := fun t => match p.raw? t with | some r => r.bstat | none => .unknown,
    stale := fun t => (p.shouldRun? t).getD true }

/-- endpoints actually scheduled: the selection, or the graph's endpoints -/
def Proj.endpoints (p : Proj) (g : Graph String) : List Nat :=
  match p.eps with
  | some e => e
  | none => g.endpoints

/-- the scheduling pass of `gwf run` / `gwf status` on this project -/
def Proj.plan (p : Proj) : Except GErr SState :=
  match p.graph with
  | .error e => .error e
  | .ok g => .ok (schedule (p.wf g) (g.ids.length + 1) (p.endpoints g))

end Gwf
