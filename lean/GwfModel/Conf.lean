/-
  GwfModel.Conf — `gwf.conf`: value coercion (`try_conv` over CONVERTERS), `FileConfig`
  (a user map over CONFIG_DEFAULTS), namespaces, and the precedence flag > config > default.
-/
import GwfModel.Basic
import GwfModel.Generated
namespace Gwf.Conf

/-- whitespace stripped by Python's `int(str)` (ASCII range): \t \n \v \f \r, FS GS RS US, space -/
def isWs (c : Char) : Bool :=
  c == ' ' || (9 ≤ c.toNat && c.toNat ≤ 13) || (28 ≤ c.toNat && c.toNat ≤ 31)

def isDigit (c : Char) : Bool := '0' ≤ c && c ≤ '9'

def digitVal (c : Char) : Nat := c.toNat - '0'.toNat

/-- `digit (_? digit)*` read left to right; `prevUnderscore` forbids `__` and a trailing `_` -/
def readDigits : List Char → Nat → Bool → Option Nat
  | [], acc, prevU => if prevU then none else some acc
  | c :: rest, acc, prevU =>
    if isDigit c then readDigits rest (acc * 10 + digitVal c) false
    else if c == '_' && !prevU then readDigits rest acc true
    else none

/-- Python `int(s)` for an ASCII string: optional surrounding whitespace, optional sign, decimal
    digits with single underscores between digits; `none` = ValueError -/
def pyInt (s : List Char) : Option Int :=
  let t := (s.dropWhile isWs).reverse.dropWhile isWs |>.reverse
  let (neg, body) := match t with
    | '-' :: r => (true, r)
    | '+' :: r => (false, r)
    | r => (false, r)
  match body with
  | [] => none
  | c :: _ =>
    if !isDigit c then none
    else match readDigits body 0 false with
      | some n => some (if neg then -(n : Int) else (n : Int))
      | none => none

/-- one converter of `CONVERTERS`, by its function name -/
def applyConv (name : String) (v : String) : Option CfgVal :=
  match name with
  | "try_int" => (pyInt v.toList).map CfgVal.int
  | "try_true" => if v == "true" || v == "yes" then some (.bool true) else none
  | "try_false" => if v == "false" || v == "no" then some (.bool false) else none
  | "str" => some (.str v)
  | _ => none

/-- `try_conv(value, CONVERTERS)`: the first converter (in the order extracted from the source)
    that does not return None -/
def tryConv (v : String) : CfgVal :=
  match Generated.converterOrder.findSome? (fun c => applyConv c v) with
  | some r => r
  | none => .none

/-- `FileConfig`: the user's map (what is dumped to `.gwfconf.json`) over the defaults -/
structure Config where
  user : List (String × CfgVal) := []

def defaults : List (String × CfgVal) := Generated.configDefaults

def Config.get? (c : Config) (k : String) : Option CfgVal :=
  match alook k c.user with
  | some v => some v
  | none => alook k defaults

def Config.set (c : Config) (k v : String) : Config := { user := aset k (tryConv v) c.user }
def Config.unset (c : Config) (k : String) : Config := { user := aerase k c.user }

/-- dump ; load — JSON round-trips maps of int/bool/str values (assumed), so this is the identity -/
def Config.reload (c : Config) : Config := c

/-- all effective items: user entries, then defaults not shadowed -/
def Config.items (c : Config) : List (String × CfgVal) :=
  c.user ++ defaults.filter (fun p => (alook p.1 c.user).isNone)

def dropPrefix? (pre s : List Char) : Option (List Char) :=
  match pre, s with
  | [], s => some s
  | _ :: _, [] => none
  | a :: as, b :: bs => if a = b then dropPrefix? as bs else none

/-- `get_namespace(ns)`: the items whose key starts with `ns.`, with that prefix removed -/
def Config.namespace (c : Config) (ns : String) : List (String × CfgVal) :=
  c.items.filterMap (fun p => (dropPrefix? (ns.toList ++ ['.']) p.1.toList).map (fun rest => (String.ofList rest, p.2)))

/-- command-line flag over project configuration over default -/
def effective {α} (flag : Option α) (conf : Option α) (dflt : α) : α :=
  match flag with
  | some f => f
  | none => match conf with
    | some c => c
    | none => dflt

end Gwf.Conf
