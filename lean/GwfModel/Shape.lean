/-
  GwfModel.Shape — nested input/output containers and `gwf.core._flatten`.
-/
namespace Gwf

/-- a declared `inputs=`/`outputs=` value: a string / PathLike leaf, a list (any non-mapping
    iterable) or a mapping (only the values matter, in insertion order) -/
inductive Shape (α : Type) where
  | leaf : α → Shape α
  | list : List (Shape α) → Shape α
  | dict : List (String × Shape α) → Shape α

mutual
  /-- `_flatten` -/
  def Shape.flatten {α} : Shape α → List α
    | .leaf p => [p]
    | .list xs => flattenList xs
    | .dict kvs => flattenDict kvs
  def flattenList {α} : List (Shape α) → List α
    | [] => []
    | x :: xs => x.flatten ++ flattenList xs
  def flattenDict {α} : List (String × Shape α) → List α
    | [] => []
    | (_, x) :: xs => x.flatten ++ flattenDict xs
end

/-- Python truthiness of the raw container (`not target.outputs`) — what the unrepaired
    `should_run` tested -/
def Shape.truthy {α} : Shape α → Bool
  | .leaf _ => true        -- validated paths are non-empty strings
  | .list xs => !xs.isEmpty
  | .dict kvs => !kvs.isEmpty

end Gwf
