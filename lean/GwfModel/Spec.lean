/-
  GwfModel.Spec — executable property predicates: the right-hand sides of the property theorems,
  evaluated by the driver on behaviour OBSERVED from the implementation (the oracle of the
  failing-input search).  Each returns the list of failing conjunct names (empty = property holds).
-/
import GwfModel.Project
namespace Gwf.Spec

def memNat (x : Nat) (l : List Nat) : Bool := l.contains x

/-- dependency cone of `eps` by fuel-bounded closure -/
def coneStep (deps : Nat → List Nat) : Nat → List Nat → Nat → List Nat
  | 0, acc, _ => acc
  | fuel+1, acc, t =>
    if memNat t acc then acc
    else (deps t).foldl (fun a d => coneStep deps fuel a d) (t :: acc)

def coneList (deps : Nat → List Nat) (fuel : Nat) (eps : List Nat) : List Nat :=
  eps.foldl (fun a e => coneStep deps fuel a e) []

def subsetNat (a b : List Nat) : Bool := a.all (fun x => memNat x b)
def sameSet (a b : List Nat) : Bool := subsetNat a b && subsetNat b a

def nodupNat : List Nat → Bool
  | [] => true
  | x :: xs => !memNat x xs && nodupNat xs

/-- C02 on an observed (status map, chronological submission log) -/
def c02 (w : Wf) (fuel : Nat) (eps : List Nat) (status : List (Nat × Status)) (log : List (Nat × List Nat)) : List String :=
  let cone := coneList w.deps fuel eps
  let st (t : Nat) : Option Status := alook t status
  let keys := akeys status
  let logKeys := log.map Prod.fst
  let subDeps (t : Nat) : List Nat := (w.deps t).filter (fun d => match st d with | some s => s != .completed | none => false)
  let fails : List (String × Bool) := [
    ("status-map-covers-exactly-the-cone", sameSet keys cone),
    ("status-is-the-declarative-one", status.all (fun p => decide (p.2 = (decideT (w.bstat p.1) (subDeps p.1) (w.stale p.1)).1))),
    ("submitted-iff-needs-to-run", cone.all (fun t => memNat t logKeys == (decideT (w.bstat t) (subDeps t) (w.stale t)).2)),
    ("nothing-outside-the-cone", subsetNat logKeys cone),
    ("submitted-once", nodupNat logKeys),
    ("in-flight-never-resubmitted", logKeys.all (fun t => w.bstat t != .submitted && w.bstat t != .running)),
    ("prerequisites-exact", log.all (fun p => sameSet p.2 ((w.deps p.1).filter (fun d => st d != some .completed)) && nodupNat p.2)),
    ("dependencies-first", (List.range log.length).all (fun i =>
        match log[i]? with
        | some (_, ds) => ds.all (fun d => !memNat d logKeys || memNat d ((log.take i).map Prod.fst))
        | none => true))
  ]
  (fails.filter (fun p => !p.2)).map Prod.fst

end Gwf.Spec

namespace Gwf.Spec

/-- make semantics for one target, from the declared path SETS and the file snapshot -/
def upToDate (fs : String → Option Nat) (specChanged : Bool) (ins outs : List String) : Bool :=
  !specChanged && !outs.isEmpty && outs.all (fun o => (fs o).isSome) &&
    ins.all (fun i => outs.all (fun o => match fs i, fs o with | some a, some b => decide (a ≤ b) | _, _ => true))

/-- C01 on an observed status map: every target without a live/failed/cancelled job whose
    dependencies are all shown completed must be `completed` iff up to date, else `shouldrun` -/
def c01 (p : Proj) (g : Graph String) (status : List (Nat × Status)) : List String :=
  let bad := status.filter (fun (t, s) =>
    match p.raw? t with
    | none => true
    | some r =>
      let applies := (r.bstat == .unknown || r.bstat == .completed) &&
        (g.depsOf t).all (fun d => alook d status == some .completed)
      if applies then
        let tg := r.toTgt p.cwd
        let utd := upToDate p.fsFn r.specChanged tg.ins tg.outs
        !(if utd then s == .completed else s == .shouldrun)
      else false)
  if bad.isEmpty then [] else ["make-semantics:" ++ ",".intercalate (bad.map (fun x => toString x.1))]

end Gwf.Spec

namespace Gwf.Spec

def shareFile (b a : Tgt String) : Bool := b.ins.any (fun p => a.outs.contains p)

/-- C03 on the relations observed from the implementation (ids = sorted-name ranks) -/
def c03 (p : Proj) (deps dependents : List (Nat × List Nat)) (endpoints : List Nat)
    (provides : List (String × Nat)) : List String :=
  let ts := p.tgts
  let ids := ts.map (·.id)
  let depOf (t : Nat) : List Nat := (alook t deps).getD []
  let dptOf (t : Nat) : List Nat := (alook t dependents).getD []
  let fails : List (String × Bool) := [
    ("deps-iff-shared-path", ts.all (fun b => ts.all (fun a => memNat a.id (depOf b.id) == shareFile b a))),
    ("deps-only-targets", deps.all (fun e => subsetNat e.2 ids)),
    ("dependents-is-inverse", ids.all (fun a => ids.all (fun b => memNat b (dptOf a) == memNat a (depOf b)))),
    ("endpoints-iff-no-dependents", ids.all (fun a => memNat a endpoints == ids.all (fun b => !memNat a (depOf b)))),
    ("provides-single-producer", ts.all (fun a => a.outs.all (fun o => alook o provides == some a.id))
        && provides.all (fun e => ts.any (fun a => a.id == e.2 && a.outs.contains e.1)))
  ]
  (fails.filter (fun x => !x.2)).map Prod.fst

end Gwf.Spec

namespace Gwf.Spec

/-- independent acyclicity test (Kahn elimination): repeatedly drop targets all of whose
    dependencies have been dropped; acyclic iff nothing remains -/
def kahn (ts : List (Tgt String)) : Nat → List (Tgt String) → Bool
  | 0, rem => rem.isEmpty
  | fuel+1, rem =>
    let free := rem.filter (fun b => rem.all (fun a => !shareFile b a))
    if free.isEmpty then rem.isEmpty
    else kahn ts fuel (rem.filter (fun b => !(rem.all (fun a => !shareFile b a))))

def allOuts (ts : List (Tgt String)) : List String := ts.flatMap (·.outs)

def nodupStr : List String → Bool
  | [] => true
  | x :: xs => !xs.contains x && nodupStr xs

/-- C04: the observed verdict of graph construction ("ok" | "multi" | "unresolved" | "cycle") -/
def c04 (p : Proj) (observed : String) : List String :=
  let ts := p.tgts
  let nodup := nodupStr (allOuts ts)
  let sources := ts.all (fun t => t.ins.all (fun q => (allOuts ts).contains q || (p.fsFn q).isSome))
  let acyclic := kahn ts (ts.length + 1) ts
  let wellFormed := nodup && sources && acyclic
  let okIff := (observed == "ok") == wellFormed
  let kindApplies :=
    if observed == "multi" then !nodup
    else if observed == "unresolved" then !sources
    else if observed == "cycle" then !acyclic
    else observed == "ok"
  (if okIff then [] else ["accepts-iff-well-formed"]) ++ (if kindApplies then [] else ["error-kind-applies"])

end Gwf.Spec
