/-
  GwfModel.Sched — `gwf.scheduling`: should_run, the memoised DFS `_schedule/_cached_schedule`,
  `schedule`, and the submission log.   Targets are natural numbers.
-/
import GwfModel.Basic
import GwfModel.Generated
namespace Gwf

/-! ### should_run -/

/-- max of a list of timestamps; `none` = `float("-inf")` (no inputs) -/
def maxTs : List Nat → Option Nat
  | [] => none
  | x :: xs => match maxTs xs with
    | none => some x
    | some m => some (if m < x then x else m)

/-- min of a list of timestamps; `none` = `float("inf")` (no outputs) -/
def minTs : List Nat → Option Nat
  | [] => none
  | x :: xs => match minTs xs with
    | none => some x
    | some m => some (if x < m then x else m)

/-- all timestamps of the paths, `none` if one is missing (`changed_at` raises) -/
def stamps {α} (fs : α → Option Nat) : List α → Option (List Nat)
  | [] => some []
  | p :: ps => match fs p, stamps fs ps with
    | some t, some ts => some (t :: ts)
    | _, _ => none

/-- `youngest_in_ts > oldest_out_ts` with the ±inf defaults -/
def newerThan : Option Nat → Option Nat → Bool
  | some i, some o => decide (o < i)
  | _, _ => false

/-- `scheduling.should_run`.  `specChanged` = `spec_hashes.has_changed(target) is not None`;
    `ins`/`outs` = flattened normalised inputs/outputs; result `none` = `FileNotFoundError`
    raised by `changed_at` on a missing input.  Written in the code's order. -/
def shouldRun {α} (fs : α → Option Nat) (specChanged : Bool) (ins outs : List α) : Option Bool :=
  if specChanged then some true
  else if outs.any (fun o => (fs o).isNone) then some true
  else match stamps fs ins with
    | none => none
    | some its =>
      if outs.isEmpty then some true
      else match stamps fs outs with
        | none => none   -- unreachable: all outputs exist
        | some ots => some (newerThan (maxTs its) (minTs ots))

/-! ### the scheduling pass -/

/-- `status in SUBMITTED_STATES`, table regenerated from the source on every run -/
def inSubmitted (s : Status) : Bool := Generated.submittedStates.contains s

/-- the six-way branch at the end of `_schedule`; second component: `submit_func` is called -/
def decideT (b : BStatus) (sub : List Nat) (stale : Bool) : Status × Bool :=
  match b with
  | .submitted => (.submitted, false)
  | .running   => (.running, false)
  | .failed    => (.failed, true)
  | .cancelled => (.cancelled, true)
  | _ => if !sub.isEmpty then (.shouldrun, true) else if stale then (.shouldrun, true) else (.completed, false)

/-- what the scheduling pass sees of a validated workflow -/
structure Wf where
  deps  : Nat → List Nat      -- direct dependencies, in the order `_schedule` iterates them (sorted by name)
  bstat : Nat → BStatus       -- `backend.status(target)` at the start of the invocation
  stale : Nat → Bool          -- `should_run(target, fs, spec_hashes)`

structure SState where
  cache : List (Nat × Status) := []          -- `cache` dict, NEWEST FIRST
  log   : List (Nat × List Nat) := []        -- `submit_func(target, dependencies=…)` calls, NEWEST FIRST
  deriving Repr

/-- the submissions in the order they were made -/
def SState.chron (st : SState) : List (Nat × List Nat) := st.log.reverse

/-- one iteration of `for dep in sorted(dependencies[target])` -/
def depStep (vis : SState → Nat → SState × Status) (acc : SState × List Nat) (d : Nat) : SState × List Nat :=
  let r := vis acc.1 d
  (r.1, if inSubmitted r.2 then acc.2 ++ [d] else acc.2)

def finish (w : Wf) (t : Nat) (r : SState × List Nat) : SState × Status :=
  let ds := decideT (w.bstat t) r.2 (w.stale t)
  ({ cache := (t, ds.1) :: r.1.cache,
     log := if ds.2 then (t, r.2) :: r.1.log else r.1.log }, ds.1)

/-- `_cached_schedule`; fuel bounds the recursion depth (≥ number of targets suffices on a DAG) -/
def visit (w : Wf) : Nat → SState → Nat → SState × Status
  | 0, st, _ => (st, .completed)
  | fuel+1, st, t =>
    match alook t st.cache with
    | some s => (st, s)
    | none => finish w t ((w.deps t).foldl (depStep (visit w fuel)) (st, []))

/-- `schedule(endpoints, …)`: endpoints already sorted by name -/
def schedule (w : Wf) (fuel : Nat) (eps : List Nat) : SState :=
  eps.foldl (fun st e => (visit w fuel st e).1) {}

end Gwf
