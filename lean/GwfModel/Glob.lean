/-
  GwfModel.Glob — `fnmatch.fnmatchcase` for the pattern language used by `gwf <cmd> PATTERN…`
  (`filtering.NameFilter` → `fnmatch.filter`): `*`, `?`, `[seq]`, `[!seq]`, ranges `a-z`.
-/
namespace Gwf.Glob

/-- the raw body of a bracket expression: everything up to the first `]` that is not the very
    first character; `none` if there is no closing bracket (then `[` is an ordinary character) -/
def takeBody : List Char → Bool → List Char → Option (List Char × List Char)
  | [], _, _ => none
  | ']' :: rest, false, acc => some (acc.reverse, rest)
  | c :: rest, _, acc => takeBody rest false (c :: acc)

/-- character ranges of a bracket body -/
def ranges : List Char → List (Char × Char)
  | a :: '-' :: b :: rest => (a, b) :: ranges rest
  | a :: rest => (a, a) :: ranges rest
  | [] => []

def inClass (c : Char) (rs : List (Char × Char)) : Bool :=
  rs.any (fun r => decide (r.1.toNat ≤ c.toNat ∧ c.toNat ≤ r.2.toNat))

/-- fuel-bounded matcher; `pat.length + s.length + 1` fuel always suffices -/
def gmatch : Nat → List Char → List Char → Bool
  | 0, _, _ => false
  | _+1, [], s => s.isEmpty
  | fuel+1, '*' :: p, s =>
    gmatch fuel p s || (match s with | [] => false | _ :: s' => gmatch fuel ('*' :: p) s')
  | fuel+1, '?' :: p, s => (match s with | [] => false | _ :: s' => gmatch fuel p s')
  | fuel+1, '[' :: p, s =>
    let (neg, body0) := match p with
      | '!' :: r => (true, r)
      | r => (false, r)
    match takeBody body0 true [] with
    | some (body, rest) =>
      (match s with
       | [] => false
       | c :: s' => (inClass c (ranges body) != neg) && gmatch fuel rest s')
    | none => (match s with | c :: s' => c == '[' && gmatch fuel p s' | [] => false)
  | fuel+1, c :: p, s => (match s with | d :: s' => c == d && gmatch fuel p s' | [] => false)

/-- `fnmatch.fnmatchcase(name, pat)` -/
def globMatch (pat name : String) : Bool :=
  gmatch (pat.length + name.length + 1) pat.toList name.toList

/-- `filtering.NameFilter(patterns).apply(targets)` as a list of indices into `names` -/
def select (patterns : List String) (names : List String) : List String :=
  names.filter (fun n => patterns.any (fun p => globMatch p n))

end Gwf.Glob
