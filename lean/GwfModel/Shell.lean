/-
  GwfModel.Shell — `shlex.quote` and an independent POSIX word splitter (quoting and blanks only).
-/
namespace Gwf.Shell

def safeChar (c : Char) : Bool :=
  c.isAlphanum || c = '@' || c = '%' || c = '+' || c = '=' || c = ':' || c = ',' || c = '.' || c = '/' || c = '-' || c = '_'

def sq : Char := '\''
def dq : Char := '"'

/-- body of shlex.quote's quoted form: every ' becomes '"'"' -/
def escBody : List Char → List Char
  | [] => []
  | c :: cs => if c = sq then sq :: dq :: sq :: dq :: sq :: escBody cs else c :: escBody cs

/-- shlex.quote -/
def quote (s : List Char) : List Char :=
  if s = [] then [sq, sq]
  else if s.all safeChar then s
  else sq :: escBody s ++ [sq]

inductive Mode | out | word | single | double | dblEsc | wordEsc
  deriving DecidableEq, Repr

structure St where
  mode : Mode
  cur  : List Char          -- current word, in order
  done : List (List Char)   -- finished words, in order
  deriving Repr

/-- one character of POSIX word splitting (no expansions: only quoting and blanks) -/
def stepc (s : St) (c : Char) : St :=
  match s.mode with
  | .out =>
    if c = ' ' ∨ c = '\t' ∨ c = '\n' then s
    else if c = sq then { s with mode := .single }
    else if c = dq then { s with mode := .double }
    else if c = '\\' then { s with mode := .wordEsc }
    else { s with mode := .word, cur := s.cur ++ [c] }
  | .word =>
    if c = ' ' ∨ c = '\t' ∨ c = '\n' then { mode := .out, cur := [], done := s.done ++ [s.cur] }
    else if c = sq then { s with mode := .single }
    else if c = dq then { s with mode := .double }
    else if c = '\\' then { s with mode := .wordEsc }
    else { s with cur := s.cur ++ [c] }
  | .single =>
    if c = sq then { s with mode := .word } else { s with cur := s.cur ++ [c] }
  | .double =>
    if c = dq then { s with mode := .word }
    else if c = '\\' then { s with mode := .dblEsc }
    else { s with cur := s.cur ++ [c] }
  | .dblEsc => { s with mode := .double, cur := s.cur ++ [c] }
  | .wordEsc => { s with mode := .word, cur := s.cur ++ [c] }

def finishW (s : St) : List (List Char) :=
  match s.mode with
  | .out => s.done
  | _ => s.done ++ [s.cur]

def words (l : List Char) : List (List Char) :=
  finishW (l.foldl stepc { mode := .out, cur := [], done := [] })


end Gwf.Shell
