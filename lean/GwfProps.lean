import GwfProps.C01
import GwfProps.C02
import GwfProps.C03
import GwfProps.C04
import GwfProps.C11
import GwfProps.C12
import GwfProps.C13
import GwfProps.C05
