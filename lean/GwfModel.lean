import GwfModel.Basic
import GwfModel.Generated
import GwfModel.Path
import GwfModel.Shape
import GwfModel.Sched
import GwfModel.Graph
import GwfModel.Project
import GwfModel.Spec
