/-
  Driver — line protocol between the Python harness and the Lean model.
  One operation per input line, one output line per operation.
  Tokens are space separated.  Strings: `h<hex utf-8>`.  Lists: `L` + items joined by `,`
  (second level `;`).  Run with `lake env lean --run Driver.lean`.
-/
import GwfModel
open Gwf

namespace Drv

def hexVal (c : Char) : Nat :=
  if '0' ≤ c ∧ c ≤ '9' then c.toNat - '0'.toNat
  else if 'a' ≤ c ∧ c ≤ 'f' then c.toNat - 'a'.toNat + 10 else 0

def unhexBytes : List Char → List UInt8
  | a :: b :: rest => (UInt8.ofNat (hexVal a * 16 + hexVal b)) :: unhexBytes rest
  | _ => []

def hexDigit (n : Nat) : Char := if n < 10 then Char.ofNat (n + 48) else Char.ofNat (n - 10 + 97)

/-- `h<hex>` → string (utf-8 decoded; invalid utf-8 gives the empty string) -/
def unh (tok : String) : String :=
  let bs := unhexBytes (tok.toList.drop 1)
  match String.fromUTF8? (ByteArray.mk bs.toArray) with
  | some s => s
  | none => ""

def toh (s : String) : String :=
  "h" ++ String.ofList (s.toUTF8.toList.flatMap (fun b => [hexDigit (b.toNat / 16), hexDigit (b.toNat % 16)]))

def unhc (tok : String) : List Char := (unh tok).toList
def tohc (s : List Char) : String := toh (String.ofList s)

/-- `L a,b,c` → ["a","b","c"]; `L` → [] -/
def unlist (tok : String) (sep : String := ",") : List String :=
  let body := String.ofList (tok.toList.drop 1)
  if body.isEmpty then [] else body.splitOn sep

def mklist (xs : List String) (sep : String := ",") : String := "L" ++ sep.intercalate xs

def nat! (s : String) : Nat := s.toNat?.getD 0

def natList (tok : String) : List Nat := (unlist tok).map nat!

def showNats (xs : List Nat) : String := ",".intercalate (xs.map toString)

def insertSorted (x : String) : List String → List String
  | [] => [x]
  | y :: ys => if x < y then x :: y :: ys else y :: insertSorted x ys
def sortStrs (xs : List String) : List String := xs.foldl (fun acc x => insertSorted x acc) []

def bool! (s : String) : Bool := s == "1"
def showBool (b : Bool) : String := if b then "1" else "0"

/-- `fs` token: `L path=ts,path=,…` (empty ts = missing) -/
def parseFs (tok : String) : List (String × Option Nat) :=
  (unlist tok).map (fun kv => match kv.splitOn "=" with
    | [k, v] => (k, v.toNat?)
    | _ => (kv, none))

def fsFn (m : List (String × Option Nat)) (p : String) : Option Nat := (alook p m).getD none

/-! ### shapes: prefix token stream `leaf <p>` | `list <n> …` | `dict <n> (<k> …)*` -/

partial def parseShape : List String → Option (Shape String × List String)
  | "leaf" :: p :: rest => some (.leaf (unh p), rest)
  | "list" :: n :: rest =>
    let rec go (k : Nat) (toks : List String) (acc : List (Shape String)) : Option (List (Shape String) × List String) :=
      match k with
      | 0 => some (acc.reverse, toks)
      | k+1 => match parseShape toks with
        | some (s, toks') => go k toks' (s :: acc)
        | none => none
    (go (nat! n) rest []).map (fun (xs, r) => (.list xs, r))
  | "dict" :: n :: rest =>
    let rec goD (k : Nat) (toks : List String) (acc : List (String × Shape String)) : Option (List (String × Shape String) × List String) :=
      match k, toks with
      | 0, _ => some (acc.reverse, toks)
      | k+1, key :: toks1 => match parseShape toks1 with
        | some (s, toks') => goD k toks' ((key, s) :: acc)
        | none => none
      | _, _ => none
    (goD (nat! n) rest []).map (fun (xs, r) => (.dict xs, r))
  | _ => none

/-! ### targets for graph commands: `T <id> <Lins> <Louts>` repeated, then `E <Lexisting>` -/

def parseTargets : List String → List (Tgt String) → List (Tgt String) × List String
  | "T" :: id :: ins :: outs :: rest, acc =>
    parseTargets rest (acc ++ [{ id := nat! id, ins := unlist ins, outs := unlist outs }])
  | rest, acc => (acc, rest)

def showDeps (ds : List (Nat × List Nat)) : String :=
  ";".intercalate (ds.map (fun p => toString p.1 ++ ":" ++ showNats p.2))

def sortByKey (ds : List (Nat × List Nat)) : List (Nat × List Nat) :=
  let rec ins (x : Nat × List Nat) : List (Nat × List Nat) → List (Nat × List Nat)
    | [] => [x]
    | y :: ys => if x.1 < y.1 then x :: y :: ys else y :: ins x ys
  ds.foldl (fun acc x => ins x acc) []

def showGraph (g : Graph String) : String :=
  let deps := sortByKey g.deps
  let dependents := deps.map (fun p => (p.1, g.dependentsOf p.1))
  "ok deps=" ++ showDeps deps ++ " dependents=" ++ showDeps dependents
    ++ " endpoints=" ++ showNats g.endpoints
    ++ " provides=" ++ ",".intercalate (sortStrs (g.provides.map (fun p => p.1 ++ ":" ++ toString p.2)))
    ++ " unresolved=" ++ ",".intercalate (sortStrs g.unresolved)

/-! ### scheduling commands -/

def parseDeps (tok : String) : List (Nat × List Nat) :=
  (unlist tok ";").map (fun e => match e.splitOn ":" with
    | [k, v] => (nat! k, if v.isEmpty then [] else (v.splitOn ",").map nat!)
    | _ => (0, []))

def bstatOfCode (c : Char) : BStatus :=
  match c with
  | 'u' => .unknown | 's' => .submitted | 'r' => .running | 'c' => .completed | 'f' => .failed | 'x' => .cancelled
  | _ => .unknown

def mkWf (deps : List (Nat × List Nat)) (bs : List Char) (stale : List Char) : Wf :=
  { deps := depFn deps,
    bstat := fun t => bstatOfCode (bs.getD t 'u'),
    stale := fun t => stale.getD t '0' == '1' }

def showSState (st : SState) : String :=
  "cache=" ++ ";".intercalate (st.cache.reverse.map (fun p => toString p.1 ++ ":" ++ p.2.name))
   ++ " log=" ++ ";".intercalate (st.chron.map (fun p => toString p.1 ++ ":" ++ showNats p.2))


/-! ### whole-project descriptions:
    `C <cwd> (T <id> <wd> <b> <sf> I <shape> O <shape> P <shape>)* F <Lfs> E <Leps|*>` -/

def parseRawTgts : Nat → List String → List RawTgt → Option (List RawTgt × List String)
  | 0, _, _ => none
  | fuel+1, "T" :: id :: wd :: b :: sf :: "I" :: rest, acc =>
    (match parseShape rest with
     | some (i, "O" :: r1) =>
       (match parseShape r1 with
        | some (o, "P" :: r2) =>
          (match parseShape r2 with
           | some (pr, r3) =>
             let bc : Char := b.toList.headD 'u'
             let t : RawTgt := ⟨nat! id, unh wd, bstatOfCode bc, bool! sf, i, o, pr⟩
             parseRawTgts fuel r3 (acc ++ [t])
           | none => none)
        | _ => none)
     | _ => none)
  | _, rest, acc => some (acc, rest)

def parseProj (toks : List String) : Option Proj :=
  match toks with
  | "C" :: cwd :: rest =>
    (match parseRawTgts (rest.length + 1) rest [] with
     | some (ts, ["F", fs, "E", eps]) =>
       some { cwd := unh cwd,
              targets := ts,
              fs := (parseFs fs).map (fun p => (unh p.1, p.2)),
              eps := if eps == "*" then none else some (natList eps) }
     | _ => none)
  | _ => none

def sortPairs {β} (ds : List (Nat × β)) : List (Nat × β) :=
  let rec ins (x : Nat × β) : List (Nat × β) → List (Nat × β)
    | [] => [x]
    | y :: ys => if x.1 < y.1 then x :: y :: ys else y :: ins x ys
  ds.foldl (fun acc x => ins x acc) []

def showPlan (st : SState) : String :=
  "ok status=" ++ ",".intercalate ((sortPairs st.cache).map (fun p => toString p.1 ++ ":" ++ p.2.name))
   ++ " log=" ++ ";".intercalate (st.chron.map (fun p => toString p.1 ++ ":" ++ showNats p.2))

def showGraphH (g : Graph String) : String :=
  showGraph { g with provides := g.provides.map (fun p => (toh p.1, p.2)), unresolved := g.unresolved.map toh }

/-! ### pool traces -/

def lstatOfName (s : String) : LStatus := (LStatus.ofName? s).getD .unknown

def parseLabel (tok : String) : Option (Sum Pool.Label (List String)) :=
  match tok.splitOn ":" with
  | ["e", deps, lim] => some (.inl (.enq (if deps.isEmpty then [] else (deps.splitOn ",").map nat!) (lim.toNat?)))
  | ["c", t] => some (.inl (.cancelReq (nat! t)))
  | ["t", dt] => some (.inl (.tick (nat! dt)))
  | ["x", t, c] => some (.inl (.exit (nat! t) (c.toInt?.getD 0)))
  | ["b", f] => some (.inl (.breakLogs (f == "1")))
  | ["s", t, st] => some (.inl (.set (nat! t) (lstatOfName st)))
  | ["q", t] => some (.inl (.acqReq (nat! t)))
  | ["a", t] => some (.inl (.acq (nat! t)))
  | ["r", t] => some (.inl (.rel (nat! t)))
  | ["p", t] => some (.inl (.spawn (nat! t)))
  | ["f", t] => some (.inl (.spawnFail (nat! t)))
  | ["k", t] => some (.inl (.kill (nat! t)))
  | ["d", t, c] => some (.inl (.taskDone (nat! t) (c == "1")))
  | ["Q", sts] => some (.inr (if sts.isEmpty then [] else sts.splitOn ","))
  | _ => none

/-- predicates evaluated after every label -/
def poolAlways (s : Pool.Pool) : List String :=
  (if s.aliveTids.length ≤ s.maxCores then [] else ["more-processes-alive-than-cores"])

/-- predicates evaluated at points where the implementation's loop is idle -/
def poolAtQ (s : Pool.Pool) (observed : List String) : List String :=
  let sts := s.tasks.map (fun t => t.st.name)
  (if sts == observed then [] else ["task-state-table-differs"]) ++
  (if s.quiescent then [] else
     (if s.holders.length < s.maxCores && s.tasks.any (·.wantsCore) then ["free-core-idle-while-task-ready"]
      else ["implementation-idle-but-task-not-parked"])) ++
  (if s.aliveTids.isEmpty && !s.tasks.any (fun t => t.phase == .killT || t.phase == .killC)
       && s.tasks.any (fun t => t.phase != .done) then ["task-never-reaches-final-state"] else [])

/-- the trace oracles C11/C12/C13 on the observed labels alone -/
def poolOracle (cores : Nat) (toks : List String) : List String :=
  let o := toks.foldl (fun (o : PoolSpec.Obs) tok =>
    match parseLabel tok with
    | some (.inl l) => PoolSpec.obsStep o l
    | some (.inr _) => PoolSpec.atQuiescence o
    | none => o) { cores := cores }
  (PoolSpec.atEnd o).fails

partial def poolRun (s : Pool.Pool) (i : Nat) (toks : List String) (nq : Nat) (issues : List String) : String :=
  match toks with
  | [] => (if issues.isEmpty then "ok" else "issues " ++ " ".intercalate issues.reverse) ++ " n=" ++ toString i ++ " q=" ++ toString nq
  | tok :: rest =>
    if issues.length > 20 then "issues " ++ " ".intercalate issues.reverse ++ " n=" ++ toString i ++ " q=" ++ toString nq else
    match parseLabel tok with
    | none => "bad-label " ++ tok
    | some (.inr obs) =>
      let fails := poolAtQ s obs
      poolRun s (i + 1) rest (nq + 1) ((fails.map (fun f => "fail@" ++ toString i ++ ":" ++ f ++ ":Q")).reverse ++ issues)
    | some (.inl l) =>
      match Pool.step s l with
      | none => poolRun (Pool.force s l) (i + 1) rest nq (("reject@" ++ toString i ++ ":" ++ Pool.whyNot s l ++ ":" ++ tok.replace ":" "_") :: issues)
      | some s' =>
        let fails := poolAlways s'
        poolRun s' (i + 1) rest nq ((fails.map (fun f => "fail@" ++ toString i ++ ":" ++ f ++ ":" ++ tok.replace ":" "_")).reverse ++ issues)

/-! ### worlds:  `W <dir> <hashing> <nextId> <clock> <Lfiles path=mt> <Ltracked name=jid> <Lhashes name=spec> <Ljobs jid:st:dep+dep:name;…>`
    workflow: `X (t <name> <id> I <shape> O <shape> P <shape> S <spec>)* Y` -/

def jobStOfName (s : String) : JobSt :=
  match s with
  | "pending" => .pending | "running" => .running | "completed" => .completed | "failed" => .failed
  | _ => .cancelled

def parseKV (tok : String) : List (String × String) :=
  (unlist tok).filterMap (fun kv => match kv.splitOn "=" with
    | [k, v] => some (unh k, unh v)
    | _ => none)

def parseWorld : List String → Option (World × List String)
  | "W" :: dir :: hashing :: be :: nextId :: clock :: files :: tracked :: hashes :: jobs :: rest =>
    let fs := (unlist files).filterMap (fun kv => match kv.splitOn "=" with
      | [k, v] => some (unh k, nat! v)
      | _ => none)
    let js := (unlist jobs ";").filterMap (fun e => match e.splitOn ":" with
      | [jid, st, deps, name] =>
        let ds : List String := if deps.isEmpty then [] else (deps.splitOn "+").map unh
        some (Job.mk (unh jid) (jobStOfName st) ds (unh name))
      | _ => none)
    let bk : Backend := match be with | "sge" => .sge | "lsf" => .lsf | "local" => .localPool | _ => .slurm
    some (World.mk (unh dir) fs (parseKV tracked) (parseKV hashes) js (nat! nextId) (nat! clock) (bool! hashing) bk, rest)
  | _ => none

def parseWTs : Nat → List String → List WT → Option (List WT × List String)
  | 0, _, _ => none
  | _, "Y" :: rest, acc => some (acc, rest)
  | fuel+1, "t" :: name :: id :: "I" :: rest, acc =>
    (match parseShape rest with
     | some (i, "O" :: r1) =>
       (match parseShape r1 with
        | some (o, "P" :: r2) =>
          (match parseShape r2 with
           | some (pr, "S" :: spec :: r3) =>
             let t : WT := ⟨unh name, nat! id, i, o, pr, unh spec⟩
             parseWTs fuel r3 (acc ++ [t])
           | _ => none)
        | _ => none)
     | _ => none)
  | _, _, _ => none

def parseWorldWf (toks : List String) : Option (World × List WT × List String) :=
  match parseWorld toks with
  | some (w, "X" :: rest) =>
    (match parseWTs (rest.length + 1) rest [] with
     | some (wf, rest') => some (w, wf, rest')
     | none => none)
  | _ => none

def showKV (m : List (String × String)) : String :=
  ",".intercalate (sortStrs (m.map (fun p => toh p.1 ++ "=" ++ toh p.2)))

def showJobs (js : List Job) : String :=
  ";".intercalate (js.map (fun j => toh j.id ++ ":" ++ j.st.name ++ ":" ++ "+".intercalate (j.deps.map toh) ++ ":" ++ toh j.name))

def showFiles (fs : List (String × Nat)) : String :=
  ",".intercalate (sortStrs (fs.map (fun p => toh p.1 ++ "=" ++ toString p.2)))

def pats (tok : String) : List String := (unlist tok).map unh

def worldCmd (cmd : String) (w : World) (wf : List WT) (args : List String) : String :=
  match cmd, args with
  | "status", [] =>
    (match w.status wf with
     | .error e => "err " ++ e.name
     | .ok rows => "ok rows=" ++ ",".intercalate ((sortPairs rows).map (fun p => toString p.1 ++ ":" ++ p.2.name))
         ++ " fb=" ++ (match w.fileBased wf with | .ok l => ",".intercalate (l.map toString) | .error _ => ""))
  | "info", [] =>
    (match w.info wf with
     | .error e => "err " ++ e.name
     | .ok rows => "ok info=" ++ ";".intercalate (rows.map (fun r => toString r.1 ++ ":" ++ "+".intercalate (r.2.1.map toString)
         ++ ":" ++ "+".intercalate (r.2.2.map toString))))
  | "statusf", [sts, ep, ps] =>
    (match w.statusFiltered wf ((unlist sts).filterMap Status.ofName?) (bool! ep) (pats ps) with
     | .error e => "err " ++ e.name
     | .ok rows => "ok rows=" ++ ",".intercalate ((sortPairs rows).map (fun p => toString p.1 ++ ":" ++ p.2.name))
         ++ " fb=" ++ (match w.fileBased wf with | .ok l => ",".intercalate (l.map toString) | .error _ => ""))
  | "dry", [ps] =>
    (match w.plan wf (pats ps) with
     | .error e => "err " ++ e.name
     | .ok subs => "ok would=" ++ ",".intercalate (subs.map (fun s => toh (nameOf wf s.1))))
  | "run", [ps, lim] =>
    (match w.plan wf (pats ps) with
     | .error e => "err " ++ e.name
     | .ok subs0 =>
       let subs := match lim.toNat? with | some k => subs0.take k | none => subs0
       let w' := subs.foldl (fun w s => w.submit wf s.1 s.2) w
       let subsShown := subs.map (fun s => toh (nameOf wf s.1) ++ ":" ++ "+".intercalate (s.2.map (fun d => toh (nameOf wf d))))
       -- the prerequisite arguments of every submission, rendered for this backend
       let newJobs := w'.jobs.drop w.jobs.length
       let args := newJobs.map (fun j => toh j.name ++ ":" ++ "+".intercalate ((Sch.renderDeps w.backend (j.deps.map String.toList)).map (fun a => toh (String.ofList a))))
       "ok subs=" ++ ";".intercalate subsShown ++ " tracked=" ++ showKV w'.tracked ++ " hashes=" ++ showKV w'.hashes
         ++ " jobs=" ++ showJobs w'.jobs ++ " args=" ++ ";".intercalate args)
  | "touch", [ps] =>
    (match w.touch wf (pats ps) with
     | .error e => "err " ++ e.name
     | .ok w' => "ok files=" ++ showFiles w'.files ++ " hashes=" ++ showKV w'.hashes)
  | "touchstatus", [ps] =>
    (match w.touch wf (pats ps) with
     | .error e => "err " ++ e.name
     | .ok w' =>
       (match w'.status wf with
        | .error e => "err " ++ e.name
        | .ok rows => "ok rows=" ++ ",".intercalate ((sortPairs rows).map (fun p => toString p.1 ++ ":" ++ p.2.name))))
  | "clean", [all, ps] =>
    (match w.clean wf (pats ps) (bool! all) with
     | .error e => "err " ++ e.name
     | .ok w' => "ok files=" ++ showFiles w'.files ++ " hashes=" ++ showKV w'.hashes)
  | "cancel", [ps] =>
    (match w.cancelCmds wf (pats ps), w.cancel wf (pats ps) with
     | .ok cmds, .ok w' => "ok cmds=" ++ ";".intercalate (cmds.map (fun c => toh c.1 ++ ":" ++ (match c.2 with | some j => toh j | none => "-")))
         ++ " jobs=" ++ showJobs w'.jobs
     | .error e, _ => "err " ++ e.name
     | _, .error e => "err " ++ e.name)
  | _, _ => "bad-op"

/-! ### configuration -/

def showCfg : CfgVal → String
  | .int i => "i" ++ toString i
  | .bool b => if b then "b1" else "b0"
  | .str s => "s" ++ toh s
  | .none => "N"

def showCfgOpt : Option CfgVal → String
  | some v => showCfg v
  | none => "-"

def confOps (c : Conf.Config) : List String → List String → String
  | [], acc => ";".intercalate acc.reverse
  | op :: rest, acc =>
    match op.splitOn ":" with
    | ["s", k, v] => confOps (c.set (unh k) (unh v)) rest ("ok" :: acc)
    | ["u", k] => confOps (c.unset (unh k)) rest ("ok" :: acc)
    | ["g", k] => confOps c rest (showCfgOpt (c.get? (unh k)) :: acc)
    | ["n", ns] => confOps c rest (",".intercalate (sortStrs ((c.namespace (unh ns)).map (fun p => toh p.1 ++ "=" ++ showCfg p.2))) :: acc)
    | ["r"] => confOps c.reload rest ("ok" :: acc)
    | _ => confOps c rest ("bad" :: acc)

/-! ### scripts -/

def parseCfg (tok : String) : CfgVal :=
  match tok.toList with
  | 'i' :: r => .int ((String.ofList r).toInt?.getD 0)
  | 'b' :: r => .bool (r == ['1'])
  | 's' :: r => .str (unh (String.ofList r))
  | _ => .none

def parseOpts (tok : String) : Script.Opts :=
  (unlist tok).filterMap (fun kv => match kv.splitOn "=" with
    | [k, v] => some (unh k, parseCfg v)
    | _ => none)

def backendDefaults (b : String) : Script.Opts :=
  match b with
  | "slurm" => Generated.slurmDefaults
  | "sge" => Generated.sgeDefaults
  | "lsf" => Generated.lsfDefaults
  | _ => []

/-! ### pool server sessions: tokens `<conn>:<req>` -/

def parseReq (r : String) : Option Srv.Req :=
  match r with
  | "eof" => some .eof | "nj" => some .notJson | "no" => some .notObject | "nk" => some .noKind
  | "uk0" => some (.unknownKind false) | "uk1" => some (.unknownKind true)
  | "eb" => some .enqueueBad | "en0" => some (.enqueue false) | "en1" => some (.enqueue true)
  | "gsb" => some .getStateBad | "gss" => some .getStates | "cab" => some .cancelBad | "cl" => some .close
  | _ =>
    if r.startsWith "gs" then some (.getState (nat! (String.ofList (r.toList.drop 2))))
    else if r.startsWith "ca" then some (.cancel (nat! (String.ofList (r.toList.drop 2))))
    else none

def showResp : Srv.Resp → String
  | .enqueued tid => "enq=" ++ toString tid
  | .state s => "state=" ++ (match s with | some x => x.name | none => "null")
  | .states tbl => "states=" ++ ",".intercalate (tbl.map (fun p => toString p.1 ++ "." ++ p.2.name))

/-- run a session; requests on a connection that the model already ended are skipped -/
def srvRun (t : Srv.Tbl) (ended : List Nat) : List String → List String → String
  | [], acc => " ".intercalate acc.reverse ++ " | " ++ ",".intercalate (t.tasks.map (·.name))
  | tok :: rest, acc =>
    match tok.splitOn ":" with
    | ["adv", tid, st] =>
      (match LStatus.ofName? st with
       | some x => srvRun (t.advance (nat! tid) x) ended rest acc
       | none => "bad-req " ++ tok)
    | [c, r] =>
      let conn := nat! c
      if ended.contains conn then srvRun t ended rest acc else
      (match parseReq r with
       | none => "bad-req " ++ tok
       | some req =>
         let (t', resp, fate) := Srv.handle t req
         let ended' := if fate == .ended then conn :: ended else ended
         srvRun t' ended' rest (match resp with | some x => (c ++ ":" ++ showResp x) :: acc | none => acc))
    | _ => "bad-req " ++ tok

def dispatch (toks : List String) : String :=
  match toks with
  | ["ping"] => "pong"
  -- paths
  | ["path.normpath", p] => tohc (Path.normpath (unhc p))
  | ["path.join", a, b] => tohc (Path.join (unhc a) (unhc b))
  | ["path.norm", cwd, wd, p] => tohc (Path.normPath (unhc cwd) (unhc wd) (unhc p))
  | ["path.normold", cwd, wd, p] => tohc (Path.normPathOld (unhc cwd) (unhc wd) (unhc p))
  -- shapes
  | "shape.flatten" :: rest =>
    (match parseShape rest with
     | some (s, []) => mklist (s.flatten.map toh) ++ " truthy=" ++ showBool s.truthy
     | _ => "bad-op")
  -- should_run: sr <specChanged> <Lins> <Louts> <Lfs>
  | ["sr", sc, ins, outs, fs] =>
    (match shouldRun (fsFn (parseFs fs)) (bool! sc) (unlist ins) (unlist outs) with
     | none => "raise"
     | some b => showBool b)
  -- graph T.. E <Lexisting>
  | "graph" :: rest =>
    (match parseTargets rest [] with
     | (ts, ["E", ex]) =>
       let exs := unlist ex
       (match buildGraph ts (fun p => exs.contains p) with
        | .error e => "err " ++ e.name
        | .ok g => showGraph g)
     | _ => "bad-op")
  -- sched <deps> <bstat codes> <stale bits> <Lendpoints>
  | ["sched", deps, bs, stale, eps] =>
    let d := parseDeps deps
    let w := mkWf d bs.toList.tail stale.toList.tail
    showSState (schedule w (d.length + 1) (natList eps))
  | "wf.graph" :: rest =>
    (match parseProj rest with
     | some p => (match p.graph with | .error e => "err " ++ e.name | .ok g => showGraphH g)
     | none => "bad-op")
  | "wf.plan" :: rest =>
    (match parseProj rest with
     | some p => (match p.plan with | .error e => "err " ++ e.name | .ok st => showPlan st)
     | none => "bad-op")
  -- p.C02 <proj> S <L id:status,...> G <L t:deps;...>   (observed behaviour of the implementation)
  | "p.C02" :: rest =>
    (match rest.reverse with
     | g :: "G" :: s :: "S" :: projRev =>
       (match parseProj projRev.reverse with
        | some p =>
          (match p.graph with
           | .error e => "err " ++ e.name
           | .ok gr =>
             let status := (unlist s).filterMap (fun e => match e.splitOn ":" with
               | [k, v] => (Status.ofName? v).map (fun st => (nat! k, st))
               | _ => none)
             let log := parseDeps g
             let fails := Spec.c02 (p.wf gr) (gr.ids.length + 1) (p.endpoints gr) status log
             if fails.isEmpty then "ok" else "fail " ++ ",".intercalate fails)
        | none => "bad-op")
     | _ => "bad-op")
  -- p.C01 <proj> S <L id:status,...>
  | "p.C01" :: rest =>
    (match rest.reverse with
     | s :: "S" :: projRev =>
       (match parseProj projRev.reverse with
        | some p =>
          (match p.graph with
           | .error e => "err " ++ e.name
           | .ok gr =>
             let status := (unlist s).filterMap (fun e => match e.splitOn ":" with
               | [k, v] => (Status.ofName? v).map (fun st => (nat! k, st))
               | _ => none)
             let fails := Spec.c01 p gr status
             if fails.isEmpty then "ok" else "fail " ++ ",".intercalate fails)
        | none => "bad-op")
     | _ => "bad-op")
  -- p.C03 <proj> D <deps> R <dependents> N <Lendpoints> V <L hpath:id,...>
  | "p.C03" :: rest =>
    (match rest.reverse with
     | v :: "V" :: n :: "N" :: r :: "R" :: d :: "D" :: projRev =>
       (match parseProj projRev.reverse with
        | some p =>
          let prov := (unlist v).filterMap (fun e => match e.splitOn ":" with
            | [k, i] => some (unh k, nat! i)
            | _ => none)
          let fails := Spec.c03 p (parseDeps d) (parseDeps r) (natList n) prov
          if fails.isEmpty then "ok" else "fail " ++ ",".intercalate fails
        | none => "bad-op")
     | _ => "bad-op")
  -- p.C04 <proj> K <ok|multi|unresolved|cycle>
  | "p.C04" :: rest =>
    (match rest.reverse with
     | k :: "K" :: projRev =>
       (match parseProj projRev.reverse with
        | some p =>
          let fails := Spec.c04 p k
          if fails.isEmpty then "ok" else "fail " ++ ",".intercalate fails
        | none => "bad-op")
     | _ => "bad-op")
  | ["prec", flag, conf, dflt] =>
    Conf.effective (if flag == "-" then none else some flag) (if conf == "-" then none else some conf) dflt
  | ["c08.slurm", q, a, acc, stale] =>
    (match St.slurmJob (if q == "-" then none else some (unh q)) (if a == "-" then none else some (unh a)) (bool! acc) with
     | some b => (St.shown b (bool! stale)).name
     | none => "keyerror")
  | ["c08.lsf", c, stale] => (match c with
     | "-" => (St.shown .unknown (bool! stale)).name
     | _ => match St.lsfState (unh c) with | some b => (St.shown b (bool! stale)).name | none => "keyerror")
  | ["c08.sge", c, stale] => (match c with
     | "-" => (St.shown .unknown (bool! stale)).name
     | _ => (St.shown (St.sgeState (unh c)) (bool! stale)).name)
  | ["c08.local", c, stale] => (match c with
     | "-" => (St.shown .unknown (bool! stale)).name
     | _ => match LStatus.ofName? c with
       | some l => (match St.localState l with | some b => (St.shown b (bool! stale)).name | none => "keyerror")
       | none => "keyerror")
  | ["script", b, proj, logMode, name, wd, spec, wfd, tpl, kw] =>
    let targetOpts := Script.chain [parseOpts wfd, parseOpts tpl, parseOpts kw]
    let opts := Script.resolve (backendDefaults b) targetOpts
    let text := match b with
      | "slurm" => Script.compileSlurm (unh proj) (unh logMode) (unh name) (unh wd) (unh spec) opts
      | "sge" => Script.compileSge (unh proj) (unh name) (unh wd) (unh spec) opts
      | _ => Script.compileLsf (unh proj) (unh name) (unh wd) (unh spec) opts
    toh text ++ " unknown=" ++ ",".intercalate ((Script.unknownOptions (backendDefaults b) targetOpts).map toh)
  | ["cleanlogs", files, targets] => mklist ((Script.cleanLogs ((unlist files).map unh) ((unlist targets).map unh)).map toh)
  | ["shell.words", s] => mklist ((Shell.words (unhc s)).map tohc)
  | ["shell.quote", s] => tohc (Shell.quote (unhc s))
  | "srv" :: reqs => srvRun {} [] reqs []
  | ["validname", n] => showBool (Wfl.validName (unh n))
  | ["validpath", n] => showBool (Wfl.validPath (unh n))
  | ["targetwd", t, w] => toh (Wfl.targetWd (if t == "-" then none else some (unh t)) (unh w))
  | ["mapname", b, i] => toh (Wfl.mapName (unh b) (nat! i))
  | "addall" :: names => (match Wfl.addAll [] (names.map unh) with | .ok l => "ok " ++ toString l.length | .error _ => "err")
  | ["conf.tryconv", v] => showCfg (Conf.tryConv (unh v))
  | "conf.ops" :: ops => confOps {} ops []
  | "glob" :: pat :: name :: [] => showBool (Glob.globMatch (unh pat) (unh name))
  | "world" :: cmd :: rest =>
    (match parseWorldWf rest with
     | some (w, wf, args) => worldCmd cmd w wf args
     | none => "bad-op")
  | "pool.run" :: cores :: labels =>
    poolRun (Pool.init (nat! cores)) 0 labels 0 [] ++ " oracle=" ++ ",".intercalate (poolOracle (nat! cores) labels)
  | _ => "bad-op"

end Drv

partial def loop (h : IO.FS.Stream) (out : IO.FS.Stream) : IO Unit := do
  let line ← h.getLine
  if line.isEmpty then return ()
  let l := String.ofList (line.toList.filter (fun c => c ≠ '\n' ∧ c ≠ '\r'))
  out.putStrLn (Drv.dispatch (l.splitOn " "))
  out.flush
  loop h out

def main : IO Unit := do
  loop (← IO.getStdin) (← IO.getStdout)
