#!/bin/bash
# tools/try_mutant.sh <patch.diff> <Cxx> [Cyy…]  — apply a seeded change to /repo, run the checks, undo it.
# Evidence files written during the mutant run are discarded (the committed evidence must come from the clean tree).
patch="$1"; shift
cd "$(dirname "$0")/.."
save=$(mktemp -d)
cp -r evidence "$save/" 2>/dev/null
git -C /repo apply "$patch" || { echo "patch does not apply"; exit 3; }
for c in "$@"; do
  out=$(./check "$c" 2>&1); code=$?
  echo "$c exit=$code :: $(echo "$out" | grep -E 'VIOLATION|KNOWN|BROKEN' | head -3 | tr '\n' ' ')"
done
git -C /repo checkout -- .
git -C /repo status --short | head -3
rm -rf evidence && cp -r "$save/evidence" evidence 2>/dev/null
rm -rf "$save"
