#!/usr/bin/env python3
"""regenerate MANIFEST.json from the table below (keeps it valid at all times)"""
import json, os, subprocess
HERE = os.path.dirname(os.path.dirname(os.path.abspath(__file__)))
props = [json.loads(l) for l in open(os.path.join(HERE, "properties.jsonl"))]

COMMON_NOTE = ("Trusted: Lean 4.33 kernel; axioms propext/Classical.choice/Quot.sound only (audited every run, no sorry/native_decide); "
               "harness/extract.py (tables regenerated from /repo each run); the differential harness. "
               "The theorems are about the hand-written Lean model; the tie to /repo is the regenerated tables plus the "
               "correspondence run, which is sampling (bounded-exhaustive + random), not proof. ")

CLI_NOTE = ("CLI correspondence: seeded command histories on real temporary projects (real gwf CLI in-process, fake sbatch/squeue/sacct/scancel on PATH sharing a simulated cluster); "
            "after every command the persistent state (file tree with contents, tracked-jobs file, spec-hash file, cluster jobs, scheduler call log, CLI output) is compared with the Lean world model's prediction from the state observed before the command. ")
POOL_NOTE = ("The theorems are about the labelled transition system GwfModel/Pool.lean (labels = the events observable on the real Scheduler). "
             "That asyncio realises only enabled transitions is VALIDATED by trace acceptance on the explored schedules (virtual clock, fake subprocess, instrumented semaphore/state table; fine-grained settling so cancels hit every await point), not proved. ")
CHECKS = {
 "C09": dict(
   text="Theorems over the model of an interrupted run (plan of any length, interruption after any number k of accepted-and-recorded submissions): the i-th recorded submission (i<k) is on disk under its target's name with the id the scheduler returned, whatever happened later (no_forgotten_job; uses that each target is submitted at most once, C02.submitted_once); a hard kill leaves the spec hashes exactly as they were, an exception saves hashes only for accepted targets (hash recorded only if accepted); no workflow file is touched; a recorded job that is still pending/running makes its target submitted/running, and such targets are never submitted (recorded_live_job_is_in_flight + in_flight_not_submitted, with C02.never_resubmits_in_flight); prerequisites of the remaining targets point at the recorded ids (C07.prereq_ids_exact). State files are replaced atomically, so the disk always holds one of the complete maps of the model.",
   note="Not claimed (the theorem's exclusion): the window between the scheduler accepting a job and gwf having recorded its id. os.replace atomicity is assumed. The correspondence runs the real gwf as a SUBPROCESS with, at every position k, failing sbatch/qsub/bsub (exit 1, 'error:' on stderr, garbage output), SIGKILL of gwf before/after the scheduler accepted, kills before/after/in the middle of every state-file write (harness-side launcher patching os.replace/json.dump, no source hook), failing queue/accounting queries with live jobs; then checks readability, recorded ids vs the model, hashes, and the next run.",
   technique="Lean 4 proof (prefix/fold lemmas over the world model) + fault and crash injection at every scheduler command and state-file write against subprocess runs",
   design="§6-C09"),
 "C10": dict(
   text="Theorems: the quoting theorem — for EVERY string wd, the script's cd line splits under POSIX quoting rules into exactly ['cd', wd] (cd_roundtrip, via a six-mode word-splitter model and shlex.quote; the unquoted form has a kernel-checked counter-example); option precedence: a later source that defines an option wins, a source that does not define it leaves the earlier value (update_defined / update_undefined over backend default < workflow default < template < per-target); resolved options contain only options the backend knows, none that resolved to None, and no option twice (resolved_options); the dropped names are exactly the unknown ones; in all three script generators the spec (plus at most a final newline) is the verbatim tail after cd and set -e (spec_is_tail_*); log directive paths are <project>/.gwf/logs/<target>.stdout|.stderr; clean_logs removes only files whose stem is not a current target name (cleanLogs_safe).",
   note="bash's execution of the body is run, not modelled (oracle: bash -e on the bare spec); scheduler-side redirection of stdout/stderr to the log paths is not emulated, `gwf logs` is covered by the path theorem only. Project directories with whitespace are outside the generator (directive values are unquoted). SGE per-core memory: kernel-checked instances of the floor conversion. Script text from the real `gwf run` (fake sbatch/qsub/bsub record stdin) is compared with the model byte for byte.",
   technique="Lean 4 proof (string state-machine round trip, association-list algebra) + byte-exact differential correspondence of generated scripts + real bash execution",
   design="§6-C10"),
 "C08": dict(
   text="Theorems (kernel-checked over the code tables regenerated from the source on every run): every documented Slurm squeue code, sacct state name (incl. 'CANCELLED by <uid>'), LSF STAT value, SGE state-letter combination and local pool state is mapped into the category the property names — queued→submitted, executing→running, failure→failed, cancellation→cancelled, success/no record→file-based (slurm_short_classified … local_classified); the live queue always wins over the accounting database (squeue_wins); with accounting off the database content is irrelevant; completed and unknown are treated identically by the scheduling pass; the state of a target depends only on the job with its tracked id, never on other jobs (own_job_only); batching the accounting query partitions the ids in order with batches ≤ batch size, for any number of tracked jobs (batched_eq_unbatched).",
   note="The documented tables (Cat per code) are hand-curated from the manuals and are the oracle (trusted); suspended/error-queue codes are unconstrained (DESIGN §7-N3); codes missing from gwf's own tables raise KeyError and are not part of the documented set (N1). The correspondence runs the real `gwf status` for EVERY documented code of every backend, queue×accounting combinations, foreign jobs, stale accounting rows, 2100 tracked jobs (observing each sacct call's id count), transitions across invocations and a restarted local pool.",
   technique="Lean 4 proof (decide over regenerated finite tables lifted by list lemmas; batching induction) + exhaustive differential correspondence through the CLI",
   design="§6-C08"),
 "C07": dict(
   text="Theorems: for every list of well-formed ids (any length) the scheduler-side reader recovers exactly the ids gwf renders — Slurm afterok:a:b (read_render_slurm), SGE -hold_jid a,b (read_render_sge), LSF -w 'done(a) && done(b)' (read_render_lsf), local task ids; no prerequisites ⇒ no flag; for any digit string the id stored from 'digits\\n' (sbatch --parsable, qsub -terse) is the digits, newline stripped, and well-formed (parseId_slurm_sge), and from 'Job <digits>…' whatever follows it is the digits (parseId_lsf); a target with a backend state is tracked and an accepted submission tracks the returned id, so the prerequisite ids are exactly the tracked ids of the named dependencies (prereq_ids_exact); for EVERY reachable state of an abstract scheduler with afterok/done semantics a started job's prerequisites all completed, with hold semantics they all left the queue (no_early_start_afterok / _hold, inductive invariant over all label sequences).",
   note=CLI_NOTE + "The abstract scheduler (Sch.clStep) encodes the documented semantics of afterok, -hold_jid and done(); real schedulers are not available (trusted). Local pool: a fake pool server records the real client's enqueue messages; the scheduler side is the C11 trace engine.",
   technique="Lean 4 proof (string splitting lemmas, inductive invariant of an abstract scheduler LTS) + CLI history correspondence on four backends + TrackingBackend id tests + pool trace validation",
   design="§6-C07"),
 "C19": dict(
   text="Theorems for ALL strings: a name is accepted iff non-empty, first char letter/underscore, rest letters/digits/underscore/dot (validName_iff; the regex literal and re.fullmatch are regenerated from the source — nameRegex_spec); a trailing newline is always rejected; a path is accepted iff non-empty and free of C0/C1 control characters (validPath_iff); a template/map target's working directory is the template's if given and non-empty, else the workflow's (targetWd_cases); with an absolute working directory the normalised path does not depend on the invoking directory (paths_cwd_independent); a batch of names is accepted iff pairwise distinct and new (addAll_ok_iff — covers collisions inside one map call); <base>_<i> naming is injective in i (map_names_distinct, from Nat.repr injectivity); the upward search for the workflow file returns the project root from the root and from every nested directory without its own workflow file (find_from_subdir).",
   note="unicodedata's Cc category is modelled as the two control blocks; PathLike handling (fspath) and the frame-inspection that determines Workflow().working_dir are exercised by the correspondence only. The project is loaded in-process from three directories and through the CLI; symlinked project directories are not generated.",
   technique="Lean 4 proof (list/string induction, Std Nat.repr_inj) + differential correspondence on generated names/paths and multi-directory loading",
   design="§6-C19"),
 "C20": dict(
   text="Theorems for ALL key/value strings and configurations: get after set returns the coerced value, also after dump;load (set_get); other keys are never disturbed by set or unset; unset makes the key read as its default; unset of an absent or default-only key is the identity (unset_absent_noop); coercion is total and is exactly: Python-int syntax → int, true/yes → True, false/no → False, else the text itself (tryConv_cases, with the converter order regenerated from CONVERTERS); get_namespace returns exactly the items whose key is ns + '.' + k' — no prefix-sharing key leaks (namespace_exact, via dropPrefix?_iff); precedence flag > config > default (precedence).",
   note="Python int() is modelled on ASCII (ws, sign, digits with single underscores); Unicode digits/whitespace are not generated. JSON round trip of int/bool/str dicts is assumed (dump;load = identity in the model) and exercised through the real file in the correspondence. Backend/verbosity/colour precedence and the reach of backend.slurm.* / backend.local.* are observed through the real CLI (which fake scheduler is called, debug/info lines, click's tty switch, sbatch scripts, sacct calls, the connect call).",
   technique="Lean 4 proof (association-list algebra, string-prefix lemma, kernel-evaluated examples) + differential correspondence with the real FileConfig and CLI",
   design="§6-C20"),
 "C06": dict(
   text="Theorems for ALL acyclic workflows: with no live/failed/cancelled job the submitted set is exactly the closure of the stale targets under 'depends on' (submits_is_stale_closure, rerun_exact: submitted iff transitively downstream of a stale target); convergence: if every target with outputs is file-wise up to date and jobs are all completed/unknown, every such target is reported completed and the next run submits exactly the targets without outputs (converges, by induction on rank); the file-level premise is proved for any execution order in which each job stamps its outputs after all its prerequisites (TouchLemmas.stampSeq_uptodate, arbitrary length) and lifted to the world model: the cluster finishing the tracked jobs of the submitted targets in ANY legal order leaves every drained target with outputs not stale and changes no other file nor the tracked map (drain_uptodate, drain_frame).",
   note=CLI_NOTE + "The glue between the abstract premises (no two producers, inputs produced earlier or existing) and the graph model is by C03/C04 theorems; it is not assembled into one end-to-end Lean statement (partial). Real kernel mtimes are replaced by os.utime stamps. Local worker pool backend is covered by C07/C11-C14 checks, not by this history engine.",
   technique="Lean 4 proof (closure characterisation, induction on rank, stamping lemma) + CLI history correspondence on Slurm/SGE/LSF fakes",
   design="§6-C06"),
 "C15": dict(
   text="Theorems for ALL worlds, workflows, selections: after clean a file is gone iff it existed and is a declared output of a cleaned target that does not protect it, every other file (sources, logs, state, unrelated) is untouched (clean_deletes_exactly, undeclared_files_untouched); without --all no endpoint is cleaned; cleaned targets are exactly the name-selected ones; their spec hashes are erased and all others kept (hashes_forgotten); tracked jobs/cluster/config untouched; protection compares normalised paths (spelling irrelevant).",
   note=CLI_NOTE + "The declined prompt is not modelled (no state transition exists for it); that it changes nothing is checked on every history with answers n / EOF.",
   technique="Lean 4 proof (fold lemmas over association lists) + CLI history correspondence",
   design="§6-C15"),
 "C16": dict(
   text="Theorems: touchVisit yields a duplicate-free post-order containing every requested target, for any acyclic graph (touch_postorder, fuel-adequate by rank); for ANY sequence of targets in which each input is produced earlier in the sequence or is an existing non-future file nobody in the sequence produces, and no file has two producers, stamping outputs with an increasing clock leaves every target's outputs present and no input newer than any output, so should_run is false (touch_makes_uptodate via stampSeq_uptodate + C01); files outside the touched outputs keep their stamps, tracked jobs and cluster untouched (touch_frame); specs recorded when hashing is on; a live/failed/cancelled job still determines the status.",
   note=CLI_NOTE + "Content preservation: contents are not part of the state the model's touch can write; checked by hashing every file before/after. The instantiation of the sequence premises from the graph theorems (C03 deps_iff, C04 no duplicate producer) is argued in DESIGN, not assembled in Lean (partial).",
   technique="Lean 4 proof (post-order DFS invariant, stamping lemma) + CLI history correspondence with instrumented Path.touch",
   design="§6-C16"),
 "C17": dict(
   text="Theorems: the cancel requests are exactly one per selected target, aimed at its tracked job id, none for other targets (cancel_exact: a map over the selection, so no request depends on the fate of another); after the scheduler carried out a cancel the target is reported neither submitted nor running on every backend (after_cancel_not_in_flight); jobs with other ids keep their state; a cancelled/failed target is submitted by the next pass whatever its files (cancelled_is_resubmitted); cancel touches no file, tracked id or hash.",
   note=CLI_NOTE + "'One failure stops nothing else' is structural in the model (map); for the implementation it is checked by injecting a failing scancel/qdel/bkill at positions 1-3.",
   technique="Lean 4 proof + CLI history correspondence with fault injection on Slurm/SGE/LSF fakes",
   design="§6-C17"),
 "C18": dict(
   text="Theorems: stale-by-spec iff hashing on and record ≠ current spec (or missing), never when disabled, everything stale on first use; an accepted submission records exactly that target's spec and nothing else, targets not among the accepted submissions keep their record (run_keeps_others — covers rejected submissions), a run while disabled changes nothing, touch records exactly the touched target, clean erases exactly the cleaned targets; status/dry-run return no state (C05); a stale target without a live job is submitted.",
   note=CLI_NOTE + "sha1 is modelled as the identity on spec text (no collisions assumed). Persistence across invocations is the JSON file, checked by re-reading it after every command in fresh CLI invocations.",
   technique="Lean 4 proof (fold lemmas) + CLI history correspondence over random command sequences",
   design="§6-C18"),
 "C05": dict(
   text="Theorems for ALL acyclic workflows / backend vectors / file states / selections: a target is in the submission log of the scheduling pass iff the same pass caches it as shouldrun/failed/cancelled (submitted_iff_shown_needing_run), targets cached submitted/running/completed are not submitted, any selection-restricted pass shows the same status as the full table (one table), run submits exactly the plan that dry-run announces (same function), each accepted submission adds one pending job with the tracked ids of its prerequisites and touches no file, every filter combination is the stated restriction of the one table (filters_restrict), and on an invalid workflow every command fails and yields no new state (commands_inert_on_error).",
   note=CLI_NOTE + "In the model the previews are pure by type (they return no World); that the real status/dry-run change nothing (file tree, logs, tracked ids, hashes, no submit/cancel calls) is checked on every explored history.",
   technique="Lean 4 proof (corollaries of the schedule refinement theorem over the world model) + CLI history correspondence",
   design="§6-C05"),
 "C11": dict(
   text="Theorems for EVERY reachable state of the pool LTS (any number of tasks, any DAG, any interleaving of exits with any code, time-outs, cancel requests at any point, late submissions, any core count): the start label is enabled only when every dependency is a finished COMPLETED task; a started task's dependencies all finished COMPLETED with exit code 0 (started_after_deps_completed); a finished task never changes, so a completed dependency stays completed; if a dependency ended failed/killed/cancelled the dependent is never started and never COMPLETED (failed_dep_blocks) and carries that dependency's state (dependent_inherits_state). Invariant proved by induction over all label sequences (step_ginv).",
   note=POOL_NOTE + "Trace oracle PoolSpec (C11 conjuncts) is evaluated on every observed trace independently of the model's guards.",
   technique="Lean 4 proof (inductive invariant over an LTS, all reachable states) + trace validation of the real asyncio scheduler + trace oracle",
   design="§6-C11..C13, App. A"),
 "C12": dict(
   text="Theorems for EVERY reachable state: at most c cores are handed out, a live process implies its task holds a core, hence #alive processes ≤ c (alive_le_cores, via duplicate-free holder list and pigeonhole); a core is released only by its holder and only after the process is gone; at quiescence a free core implies no ready task is waiting (work_conserving, by definition of the parked predicate, which the harness checks against the real scheduler at every idle point).",
   note=POOL_NOTE + "Work conservation is a statement about quiescent states; that the implementation's idle states are quiescent model states is validated at every explored idle point. Real-process runs check overlap with OS processes.",
   technique="Lean 4 proof (inductive invariant, pigeonhole) + trace validation + real-process runs",
   design="§6-C11..C13, App. A"),
 "C13": dict(
   text="Theorems for EVERY reachable state: a finished task is frozen under every label (final_stable), cancelling it is the identity (cancel_finished_noop), it is final, holds no core and has no process; state/history table: COMPLETED iff ran and exited 0 with logs written and not cancelled/timed out, FAILED/KILLED/CANCELLED only with the matching cause (final_matches); a process is started at most once; the core is given back only when the process is gone; when nothing can move, nothing is alive and no kill is pending, every task is finished (eventually_final, strong induction on task ids).",
   note=POOL_NOTE + "'None of the task's processes keeps running' (OS process groups) and log completeness with large outputs are checked with real processes only (2 quick / 12 thorough scenarios). eventually_final assumes >=1 core and dependencies on earlier task ids.",
   technique="Lean 4 proof (inductive invariant over an LTS) + trace validation + real-process runs",
   design="§6-C11..C13, App. A"),
 "C14": dict(
   text="Theorems for ALL request sequences on the server's handler model (any number of connections, any interleaving, any number of tasks): a request that is not a well-formed enqueue or a cancel of a known task - garbage, wrong-shaped JSON, unknown/incomplete requests, cancel of an unknown id, a disconnect - leaves the task table untouched (bad_request_leaves_pool, unknown_cancel_leaves_pool, inert_requests_invisible); cancel and pool progress change only the addressed task (cancel_frame, advance_frame); the table only grows, every accepted task gets the id = number of earlier tasks, so ids strictly increase and are unique over the whole history (tasks_monotone, enqueue_id_is_fresh, ids_strictly_increase, tids_unique); get_task_states returns exactly the table and get_task_state the entry under its own id (states_reply_true, get_state_own); after any history a well-formed enqueue is still accepted (still_accepts). Tied to the code by running the REAL Server+Scheduler on a loopback socket: deterministic sessions compared reply-by-reply with the model, and chaos runs with concurrent adversary threads checked against the theorem statements (unique ids, true final states, marker files on disk, fresh client served).",
   note="Modelled: Server.handle_connection as a function of the classified line; Scheduler.enqueue_task/cancel_task/get_task_state(s) on the state table. Not modelled: asyncio stream/transport internals (one handler coroutine per connection is assumed independent - validated by the runs), JSON parsing itself (lines are classified by the harness with the json module), the `shutdown` request. 'Runs every accepted task to its final state' is the pool theorem eventually_final (C13) plus the chaos runs here.",
   technique="Lean 4 proof (handler function + induction over request sequences) + live-server differential correspondence with protocol-level fault injection",
   design="§6-C14"),
 "C01": dict(
   text="Theorems for ALL file snapshots, timestamp assignments (ties included), input/output lists and spec flags: should_run is false iff spec unchanged ∧ ≥1 output ∧ every output exists ∧ no input strictly newer than any output (shouldRun_false_iff, via max/min lemmas), true otherwise, total when inputs exist; the decision depends only on the SET of declared paths, hence not on container shape (shouldRun_set_irrelevant/_shape_irrelevant over the inductive Shape type); with no live/failed/cancelled job and complete dependencies the status is completed iff not stale (status_file_based). Tied to the code by the exhaustive single-target enumeration + random DAGs through the real should_run/schedule/FileSpecHashes and the make-semantics predicate evaluated on every observed status map.",
   note="File system is an in-memory snapshot object with CachedFilesystem's interface; one-stat-per-path consistency of the real CachedFilesystem is only exercised by CLI correspondences. sha1 modelled as equality of spec text.",
   technique="Lean 4 proof (list induction, omega) + bounded-exhaustive and random differential correspondence with predicate oracle",
   design="§6-C01"),
 "C03": dict(
   text="Theorems for ALL target lists with unique names: on a successful build, A ∈ deps(B) iff some normalised input of B is a normalised output of A (deps_iff), provides maps every output to its single producer, dependents is the inverse relation, endpoints are exactly the targets nobody depends on; with an absolute working directory the normalised path is independent of the process cwd. The listed spellings are kernel-checked examples. Tied to the code by Graph.from_targets vs model on spelling-mutated projects (all container types incl. non-dict Mappings and PathLike) and by the Lean posixpath model vs os.path on generated strings.",
   note="General 'normPath p = normPath q iff same file' is by definition of lexical resolution in the model; symlinks/case-insensitive file systems are outside gwf's own logic. `gwf info` output is covered at CLI level (C05 correspondence).",
   technique="Lean 4 proof (closed forms of the construction folds) + differential correspondence with predicate oracle + path-model differential",
   design="§6-C03"),
 "C04": dict(
   text="Theorems for ALL target lists with unique names, any size: buildGraph succeeds iff no file has two producers ∧ every unproduced input exists ∧ the shared-path relation is acyclic (build_ok_iff), each error constructor implies its defect is present (error_kind_applies), self-loops are rejected, the three-colour DFS is sound and complete with exactly the fuel the model uses (pigeonhole on the duplicate-free recursion stack), and success yields a rank bounded by the number of targets so the scheduling theorems apply at any depth (graph_rank). Tied to the code by planted-defect differential runs with an independent Kahn-elimination predicate and by running the real code on chains of thousands of targets.",
   note="'Terminates without crashing at any size' concerns CPython's stack: proved for the model (total functions), validated for the code on chains of 3 000/20 000 targets in both definition orders. Inertness of commands on invalid workflows is checked at CLI level (C05/C15/C16 correspondences).",
   technique="Lean 4 proof (DFS invariants: post-order soundness, rank completeness, fuel adequacy) + differential correspondence with independent predicate",
   design="§6-C04"),
 "C02": dict(
   text="Theorems over ALL acyclic workflows, backend-state vectors, stale flags and endpoint selections (no size bound): the memoised DFS of the model computes the unique declarative status map on exactly the dependency cone (schedule_refines), submits a target iff cone ∧ (failed ∨ cancelled ∨ (not in flight ∧ (stale ∨ some dependency not completed))), never resubmits in-flight targets, each once, dependencies first, with exactly the not-completed direct dependencies as prerequisites; the requested set: a target is selected iff some pattern matches its name (mem_select), a metacharacter-free pattern matches exactly that name and '*' every name (glob_literal, glob_star, any length). Tied to the code by SUBMITTED_STATES regenerated from source and by running the real schedule() against the model plus the property predicate on every explored case.",
   note="Model covers scheduling._schedule/_cached_schedule/schedule, should_run, Graph.from_targets, _flatten/_norm_path. status_func assumed constant within an invocation. Name patterns: the fnmatch subset (*, ?, [..], [!..], ranges) is modelled in Glob.lean and compared with the real NameFilter on 6 000 [200 000] generated (pattern, name) pairs per run; names are restricted to valid target names.",
   technique="Lean 4 proof (induction on fuel/rank, DFS invariant, refinement to declarative fixpoint) + differential correspondence with property-predicate oracle",
   design="§6-C02"),
}

def main():
    checks = []
    for pid, c in CHECKS.items():
        checks.append({
            "property_id": pid,
            "quick_cmd": "./check %s --tier quick" % pid,
            "thorough_cmd": "./check %s --tier thorough" % pid,
            "evidence_file": "evidence/%s.json" % pid,
            "replay_cmd_template": "./check %s --replay {path}" % pid,
            "engine": "lean-model",
            "level_claimed": {"category": "proof", "text": c["text"], "design_ref": c["design"]},
            "level_note": COMMON_NOTE + c["note"],
            "technique": c["technique"],
        })
    try:
        commits = subprocess.run(["git", "-C", "/repo", "log", "--format=%h %s"], capture_output=True, text=True).stdout.splitlines()
    except Exception:
        commits = []
    m = {"version": 1,
         "setup_cmd": "./check setup",
         "hooks": {"guard": "GWF_VERIF",
                   "enable": "no source hooks are needed: every observation point is reachable from the harness process (replaceable attributes, asyncio loop subclass, executables on PATH); checks run the working tree via PYTHONPATH=/repo/src",
                   "baseline_off_cmd": "cd /repo && /venv/bin/python -m pytest -ra -q -p no:cacheprovider --timeout=900 --continue-on-collection-errors",
                   "source_commits": [], "add_only": True},
         "engines": [{"name": "lean-model", "path": "lean/", "serves_properties": sorted(CHECKS), "kind_free_text": "Lean 4 model (GwfModel), property theorems (GwfProps), line-protocol driver (Driver.lean)"},
                     {"name": "harness", "path": "harness/", "serves_properties": sorted(CHECKS), "kind_free_text": "table extraction, differential correspondence against the real gwf code, verdict/evidence"}],
         "checks": checks,
         "notes": "See DESIGN.md. Exit codes: 0 held, 1 violation (VIOLATION line), 2 the check itself is broken. fix: commits in /repo: " + "; ".join(c for c in commits if " fix:" in c),
         "not_applicable": [{"property_id": p["id"], "reason": "check not built yet (work in progress); will be claimed"} for p in props if p["id"] not in CHECKS]}
    json.dump(m, open(os.path.join(HERE, "MANIFEST.json"), "w"), indent=1, ensure_ascii=False)
    print("manifest: %d checks, %d not yet claimed" % (len(checks), len(m["not_applicable"])))

if __name__ == "__main__":
    main()
