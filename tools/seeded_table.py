#!/usr/bin/env python3
"""tools/seeded_table.py <matrix.tsv>... — render the seeded-change × check table (markdown) from the lines written by
tools/seeded_matrix.sh (id, check, exit code, seconds, first alarm line).  '1' = VIOLATION with a replay,
'1n' = VIOLATION … no-failing-input-found, '2' = the check itself broke, '.' = held."""
import collections
import json
import os
import sys

rows = collections.OrderedDict()
own_now = {}
args = sys.argv[1:]
if "--own" in args:
    i = args.index("--own")
    for line in open(args[i + 1]):
        parts = line.rstrip("\n").split("\t")
        if len(parts) >= 3:
            alarm = parts[4] if len(parts) > 4 else ""
            own_now[parts[0]] = "." if parts[2] == "0" else ("1n" if "no-failing-input-found" in alarm else parts[2])
    del args[i:i + 2]
for fn in args:
    for line in open(fn):
        parts = line.rstrip("\n").split("\t")
        if len(parts) < 4:
            continue
        sid, chk, code = parts[0], parts[1], parts[2]
        alarm = parts[4] if len(parts) > 4 else ""
        cell = "." if code == "0" else ("1n" if "no-failing-input-found" in alarm else code)
        rows.setdefault(sid, {})[chk] = cell
checks = ["C%02d" % i for i in range(1, 21)]
here = os.path.dirname(os.path.abspath(__file__))
print("| change | breaks | what it does (short) | own check | other checks that also alarm |")
print("|---|---|---|---|---|")
for sid in sorted(set(rows) | set(own_now)):
    if sid == "clean":
        continue
    rows.setdefault(sid, {})
    own = sid.split("-")[0]
    note = ""
    try:
        md = open(os.path.join(here, "..", "seeded", sid, "notes.md")).read().strip().splitlines()[0]
        note = md[:110].replace("|", "/")
    except OSError:
        pass
    r = rows[sid]
    others = [c + ("(n)" if r[c] == "1n" else "(broken)" if r[c] == "2" else "") for c in checks if c != own and r.get(c, ".") != "."]
    o = own_now.get(sid, r.get(own, "?"))
    if not r:
        others = ["(not in the matrix run)"]
    print("| %s | %s | %s | %s | %s |" % (sid, own, note, {"1": "caught (replay)", "1n": "caught (no-failing-input-found)", ".": "**missed**", "2": "check broke", "?": "not run"}[o], ", ".join(others) or "—"))
if "clean" in rows:
    bad = [c for c in checks if rows["clean"].get(c, ".") != "."]
    print("\nUnchanged tree in the same run: %s." % ("all 20 checks exit 0" if not bad else "ALARMS: " + ", ".join(bad)))
