#!/bin/bash
# tools/seeded_matrix.sh <repo-copy> <outfile> <seeded-id|clean>...
# Runs every registered quick check against each seeded change applied to <repo-copy> (a scratch copy or
# worktree of gwf, never /repo itself) and appends one line per (change, check): id, check, exit code, seconds, first alarm line.
repo="$1"; out="$2"; shift 2
cd "$(dirname "$0")/.."
[ "$(realpath "$repo")" = "/repo" ] && { echo "refusing to patch /repo"; exit 3; }
export GWF_REPO="$repo"
./check setup >/dev/null 2>&1 || { echo "setup failed"; exit 2; }
checks=${CHECKS:-$(seq -w 1 20 | sed 's/^/C/')}
for id in "$@"; do
  if [ "$id" != clean ]; then
    git -C "$repo" apply "$PWD/seeded/$id/patch.diff" || { echo -e "$id\t-\tAPPLYFAIL" >> "$out"; continue; }
  fi
  for c in $checks; do
    start=$(date +%s)
    o=$(./check "$c" --tier quick 2>&1); code=$?
    echo -e "$id\t$c\t$code\t$(( $(date +%s) - start ))\t$(echo "$o" | grep -E '^VIOLATION|^KNOWN|BROKEN' | head -1)" >> "$out"
  done
  git -C "$repo" checkout -- .
done
echo done >> "$out"
