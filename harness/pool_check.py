"""pool_check.py — engine shared by C11, C12, C13: drive the REAL local Scheduler with generated
operation sequences under a virtual clock, validate every observed trace against the Lean LTS
(GwfModel/Pool.lean) and evaluate the trace oracles (GwfModel/PoolSpec.lean)."""
import itertools
import random

import common
import pool_trace

OWNER = {  # which properties own a model guard (first rejected label of a trace)
    "dependency-not-completed": ("C11", "C13"), "inherited-state-wrong": ("C11", "C13"),
    "no-free-core": ("C12",), "core-not-held": ("C12",), "core-already-held": ("C12",),
    "more-processes-alive-than-cores": ("C12",), "free-core-idle-while-task-ready": ("C12",),
    "process-still-alive": ("C12", "C13"),          # a core given back while the task's process lives
    "finished-holding-core": ("C12", "C13"), "finished-with-process-alive": ("C12", "C13"),
    "kill-without-cancel-or-timeout": ("C13", "C17"),   # a task is torn down that nobody asked to cancel
}

# oracle conjuncts that a second property's statement covers as well: C13 says "failed if a dependency
# failed, cancelled if a dependency was cancelled; completed iff its process ran and exited 0", so a
# dependent that runs or ends wrongly after a bad dependency breaks C13 too (C11 owns the ordering)
ALSO = {
    "C13": ("C11:dependent-of-failed-task-wrong-final-state", "C11:started-although-dependency-did-not-complete",
            "C11:started-although-dependency-did-not-exit-0"),
    # C17: cancel reaches the selected targets' jobs and no other: on the local pool, a task ends CANCELLED only if it
    # or one of its dependencies was cancelled, and a cancelled live task does end CANCELLED
    "C17": ("C13:cancelled-without-cancel", "C13:cancelled-task-not-cancelled"),
}


def owners_of(reason):
    return OWNER.get(reason, ("C13",))


def owned_by(prop, conjunct):
    """conjunct: 'Cxx:name[=…]'"""
    return conjunct.startswith(prop + ":") or any(conjunct.startswith(a) for a in ALSO.get(prop, ()))


def gen_ops(rng, nops, fine):
    ops = []
    ntasks = 0
    for _ in range(nops):
        r = rng.random()
        if r < 0.35 or ntasks == 0:
            deps = sorted(set(rng.randrange(ntasks) for _ in range(rng.choice([0, 0, 1, 1, 2, 3])))) if ntasks else []
            if rng.random() < 0.04:
                deps = deps + [9999]
            ops.append(("enq", deps, rng.choice([None, None, None, 2, 5])))
            ntasks += 1
        elif r < 0.6:
            ops.append(("exit", rng.randrange(ntasks), rng.choice([0, 0, 0, 0, 1, 2, 3, -9, -15])))
        elif r < 0.76:
            ops.append(("cancel", rng.randrange(ntasks)))
        elif r < 0.9:
            # virtual time advances only while the loop is idle, and due timers run at once
            ops.append(("settle", None))
            ops.append(("tick", rng.choice([1, 1, 2, 5])))
            ops.append(("settle", None))
        elif r < 0.95:
            ops.append(("spawnfail", rng.random() < 0.5))
        else:
            ops.append(("settle", None))
            ops.append(("breaklogs", rng.random() < 0.5))
        if fine:
            ops.append(("settle", rng.choice([0, 0, 1, 1, 2, 3, 5, None, None])))
    return ops


def enum_ops(max_tasks, length, cores_list):
    """every sequence of `length` operations over at most max_tasks tasks (coarse settling)"""
    def rec(prefix, ntasks):
        if len(prefix) == length:
            yield list(prefix)
            return
        cands = []
        if ntasks < max_tasks:
            depsets = [[]] + [[d] for d in range(ntasks)] + ([[0, 1]] if ntasks >= 2 else [])
            for ds in depsets:
                cands.append((("enq", ds, None), ntasks + 1))
            if ntasks < 2:
                cands.append((("enq", [], 2), ntasks + 1))
        for t in range(ntasks):
            cands.append((("exit", t, 0), ntasks))
            cands.append((("exit", t, 1), ntasks))
            cands.append((("cancel", t), ntasks))
        if ntasks:
            cands.append((("tick", 2), ntasks))
        for op, nt in cands:
            prefix.append(op)
            yield from rec(prefix, nt)
            prefix.pop()
    for c in cores_list:
        for seq in rec([], 0):
            yield c, seq


def run_case(case):
    cores, ops, fine, yis = case
    try:
        r = pool_trace.run_ops(cores, ops, fine=fine, yield_in_spawn=yis)
    except Exception as exc:  # noqa
        return {"error": "%s: %s" % (type(exc).__name__, exc), "labels": [], "problems": ["harness: %r" % exc],
                "log_checks": [], "sem_value": cores, "max_alive": 0, "states": {}, "n_tasks": 0}
    return r


def nontrivial(ops, cores):
    kinds = [o[0] for o in ops]
    has_fault = ("cancel" in kinds) or any(o[0] == "exit" and o[2] != 0 for o in ops) or ("spawnfail" in kinds)
    competing = sum(1 for k in kinds if k == "enq") >= cores + 1
    return has_fault and competing


def check_pool(chk, prop, cases, label):
    results = common.pmap(run_case, cases, chunk=8)
    lines = ["pool.run %d %s" % (c[0], " ".join(r["labels"])) if r["labels"] else "ping" for c, r in zip(cases, results)]
    outs = common.run_driver_sharded(lines, shards=12)
    for i, (case, r, out) in enumerate(zip(cases, results, outs)):
        cores, ops, fine, yis = case
        chk.count(label)
        chk.case((cores, tuple(map(tuple, [tuple(map(str, o)) for o in ops])), fine, yis), nontrivial(ops, cores),
                 sample={"cores": cores, "ops": ops[:12], "labels": " ".join(r["labels"][:40]), "model": out[:160]} if i % 1501 == 11 else None)
        oracle = []
        issues = []
        if out != "pong":
            head, _, orc = out.partition(" oracle=")
            oracle = [x for x in orc.split(",") if x]
            if head.startswith("issues "):
                issues = [x for x in head.split(" ")[1:] if "@" in x]
            elif not head.startswith("ok"):
                raise common.Broken("driver: " + out[:300])
        # harness-level observations
        extra = []
        if r.get("error"):
            extra.append("C13:harness-exception:" + r["error"])
        for pr in r["problems"]:
            extra.append("C13:" + pr.replace(" ", "-")[:80])
        if not all(ok for _, ok in r["log_checks"]):
            extra.append("C13:log-files-incomplete")
        if r["labels"] and r["sem_value"] != cores:
            extra.append("C12:core-permits-after-drain=%s-configured=%s" % (r["sem_value"], cores))
        if r["max_alive"] > cores:
            extra.append("C12:more-processes-alive-than-cores")
        mine = [x for x in oracle + extra if owned_by(prop, x)]
        replay = {"kind": "history", "input": {"cores": cores, "ops": ops, "fine": fine, "yield_in_spawn": yis},
                  "labels": " ".join(r["labels"]), "model_verdict": out[:600], "final_states": r["states"]}
        if mine:
            sig = {"kind": "pool", "conjunct": mine[0].split(":", 1)[1].split("=")[0]}
            replay["what"] = "trace oracle fails on the real scheduler: " + ", ".join(mine)
            chk.violation(sig, replay)
        else:
            # only the FIRST issue of a trace is reliable: afterwards the model state was force-resynchronised
            owned = [x for x in issues[:1] if prop in owners_of(x.split(":")[1])]
            if owned:
                chk.count("model-rejects")
                chk.proof.ok = False
                msg = "trace validation: the LTS rejects %s" % owned[0]
                if msg not in chk.proof.failed:
                    chk.proof.failed.append(msg)
                if len(chk.notes) < 3:
                    chk.notes.append({"rejected_trace": replay})
            elif issues or oracle or extra:
                chk.count("issues-owned-by-other-properties")
    chk.traces = (chk.traces or 0) + len(cases)


def real_process_runs(chk, prop, n):
    """real processes (no fakes): overlap never exceeds the cores, big outputs are logged completely,
    children of cancelled / timed-out tasks do not survive"""
    import asyncio
    import os
    import shutil
    import tempfile
    from gwf.backends.local import Scheduler, LocalStatus

    async def scenario(wd, cores, seed):
        rng = random.Random(seed)
        s = Scheduler(wd, cores)
        marks = os.path.join(wd, "marks")
        os.makedirs(marks, exist_ok=True)
        tids = []
        big = rng.choice([300_000, 70_000])
        for k in range(cores + 2):
            # output is arbitrary bytes (0xF8 is not valid UTF-8): the log files must hold exactly what was produced
            script = ("echo start > %s/s%d; head -c %d /dev/zero | tr '\\0' '\\370'; head -c 1000 /dev/zero | tr '\\0' '\\351' 1>&2; "
                      "sleep 0.15; echo end > %s/e%d") % (marks, k, big, marks, k)
            tids.append(await s.enqueue_task("t%d" % k, script, wd, None, []))
        # a task that spawns a child and is cancelled; one that times out.  The children wait for a GO file
        # that is created only AFTER both tasks are final, so machine load cannot make a correctly killed
        # child look like a survivor (a survivor sees GO and writes its marker).
        late_c = os.path.join(marks, "late_c")
        late_t = os.path.join(marks, "late_t")
        go = os.path.join(marks, "GO")
        child = "(while [ ! -e %s ]; do sleep 0.05; done; echo late > %s) & wait"
        c = await s.enqueue_task("c", child % (go, late_c), wd, None, [])
        t = await s.enqueue_task("k", child % (go, late_t), wd, 0.3, [])
        max_over = 0
        for _ in range(3000):
            await asyncio.sleep(0.02)
            started = len([f for f in os.listdir(marks) if f.startswith("s")])
            ended = len([f for f in os.listdir(marks) if f.startswith("e")])
            max_over = max(max_over, started - ended)
            if s.task_states[c] == LocalStatus.RUNNING:
                await s.cancel_task(c)
            if all(s.task_states[x] not in (LocalStatus.SUBMITTED, LocalStatus.RUNNING) for x in s.task_states):
                break
        await s.wait_for(list(s.task_states), timeout=40)
        open(go, "w").close()
        for _ in range(30):
            await asyncio.sleep(0.05)
            if os.path.exists(late_c) or os.path.exists(late_t):
                break
        res = {"states": {k: v.name for k, v in s.task_states.items()}, "max_overlap": max_over, "cores": cores,
               "late_cancel_child": os.path.exists(late_c), "late_timeout_child": os.path.exists(late_t), "logs": []}
        for k in range(cores + 2):
            try:
                so = open(os.path.join(wd, ".gwf", "logs", "t%d.stdout" % k), "rb").read()
                se = open(os.path.join(wd, ".gwf", "logs", "t%d.stderr" % k), "rb").read()
                res["logs"].append(so == b"\xf8" * big and se == b"\xe9" * 1000)
            except OSError:
                res["logs"].append(False)
        return res

    async def startup_cancel(wd):
        """cancel while asyncio is still connecting the pipes of the freshly forked task process (only the speed of
        loop.connect_read_pipe is changed — a slow machine — everything else is the real code): the script's child
        must not survive, the worker must finish and give its core back"""
        loop = asyncio.get_running_loop()
        orig = loop.connect_read_pipe

        async def slow(*a, **kw):
            await asyncio.sleep(0.3)
            return await orig(*a, **kw)
        loop.connect_read_pipe = slow
        try:
            s = Scheduler(wd, 1)
            go, late = os.path.join(wd, "GO"), os.path.join(wd, "late")
            tid = await s.enqueue_task("c", "(while [ ! -e %s ]; do sleep 0.02; done; echo late > %s) & wait" % (go, late), wd, None, [])
            for _ in range(100000):
                if s.task_states[tid] == LocalStatus.RUNNING:
                    break
                await asyncio.sleep(0)
            await asyncio.sleep(0.1)
            await s.cancel_task(tid)
            done, pending = await asyncio.wait([s.tasks[tid]], timeout=8)
            free = s.cores_ressource._value
            open(go, "w").close()
            for _ in range(20):
                await asyncio.sleep(0.05)
                if os.path.exists(late):
                    break
            for t in pending:
                t.cancel()
            return {"state": s.task_states[tid].name, "worker_hung": bool(pending), "free_cores": free, "child_survived": os.path.exists(late)}
        finally:
            loop.connect_read_pipe = orig

    wd = tempfile.mkdtemp(prefix="gwfverif-real-")
    os.makedirs(os.path.join(wd, ".gwf", "logs"))
    try:
        res = asyncio.run(asyncio.wait_for(startup_cancel(wd), 60))
    except Exception as exc:  # noqa
        res = {"error": repr(exc)}
    finally:
        shutil.rmtree(wd, ignore_errors=True)
    chk.count("real-process-startup-cancel")
    fails = []
    if res.get("error"):
        fails.append("C13:real-run-did-not-finish:" + res["error"][:80])
    else:
        if res["child_survived"]:
            fails.append("C13:child-process-survives-cancel-or-timeout")
        if res["worker_hung"]:
            fails.append("C13:task-never-reaches-final-state")
        if res["worker_hung"] or res["free_cores"] != 1:
            fails.append("C12:core-not-given-back-after-cancel")
    mine = [f for f in fails if owned_by(prop, f)]
    if mine:
        chk.violation({"kind": "real-process", "conjunct": mine[0].split(":")[1]},
                      {"kind": "history", "input": {"real_process_scenario": "startup-cancel", "cores": 1}, "implementation": res,
                       "what": "cancel request while the task's process is being started: " + ", ".join(mine)})

    for i in range(n):
        wd = tempfile.mkdtemp(prefix="gwfverif-real-")
        os.makedirs(os.path.join(wd, ".gwf", "logs"))
        cores = 1 + i % 2
        try:
            res = asyncio.run(asyncio.wait_for(scenario(wd, cores, chk.seed * 100 + i), 120))
        except Exception as exc:  # noqa
            res = {"error": repr(exc)}
        finally:
            shutil.rmtree(wd, ignore_errors=True)
        chk.count("real-process-run")
        chk.case(("real", i, cores), True, sample={"real_process_run": res} if i == 0 else None)
        fails = []
        if res.get("error"):
            fails.append("C13:real-run-did-not-finish:" + res["error"][:80])
        else:
            if res["max_overlap"] > cores:
                fails.append("C12:more-processes-alive-than-cores")
            if not all(res["logs"]):
                fails.append("C13:log-files-incomplete")
            if res["late_cancel_child"] or res["late_timeout_child"]:
                fails.append("C13:child-process-survives-cancel-or-timeout")
            for k in range(cores + 2):
                if res["states"].get(k) != "COMPLETED":
                    fails.append("C13:task-that-exited-0-not-completed")
                    break
        mine = [f for f in fails if owned_by(prop, f)]
        if mine:
            chk.violation({"kind": "real-process", "conjunct": mine[0].split(":")[1]},
                          {"kind": "history", "input": {"real_process_scenario": i, "cores": cores}, "implementation": res,
                           "what": "real-process run violates: " + ", ".join(mine)})


def build_cases(chk):
    rng = chk.rng
    cases = []
    for fn, data in common.load_corpus("pool"):
        inp = data["input"]
        cases.append((inp["cores"], [tuple(o) for o in inp["ops"]], inp.get("fine", False), inp.get("yield_in_spawn", False)))
    ncorp = len(cases)
    length = 4 if chk.tier == "quick" else 5
    for c, seq in enum_ops(3, length, [1, 2] if chk.tier == "thorough" else [1]):
        cases.append((c, seq, False, False))
    nenum = len(cases) - ncorp
    nrand = 2500 if chk.tier == "quick" else 60000
    for i in range(nrand):
        fine = (i % 3 == 0)
        cores = rng.choice([1, 1, 2, 3, 4])
        nops = rng.randint(2, 40 if chk.tier == "quick" else 120)
        cases.append((cores, gen_ops(rng, nops, fine), fine, i % 2 == 0))
    return cases, ncorp, nenum


def run_prop(chk, prop, rule, assumptions, real_runs):
    chk.rule = rule
    chk.assumptions = assumptions
    cases, ncorp, nenum = build_cases(chk)
    check_pool(chk, prop, cases[:ncorp], "corpus")
    check_pool(chk, prop, cases[ncorp:ncorp + nenum], "enumerated")
    chk.exhaustive = True
    rest = cases[ncorp + nenum:]
    for k in range(0, len(rest), 5000):
        check_pool(chk, prop, rest[k:k + 5000], "random")
    if real_runs:
        real_process_runs(chk, prop, real_runs)
    if len(chk.distinct) < 200:
        raise common.Broken("degenerate generator: too few traces with a fault and competing tasks")


def cancel_subrun(chk, prop, n):
    """for C17: histories of the REAL pool scheduler that contain cancels of waiting and running tasks with dependencies"""
    cases, ncorp, nenum = build_cases(chk)
    sel = [c for c in cases if any(o[0] == "cancel" for o in c[1]) and any(o[0] == "enq" and o[1] for o in c[1])][:n]
    check_pool(chk, prop, sel, "pool-cancel-history")


def replay_prop(chk, prop, rule, data):
    chk.rule = rule
    inp = data["input"]
    if "ops" in inp:
        check_pool(chk, prop, [(inp["cores"], [tuple(o) for o in inp["ops"]], inp.get("fine", False), inp.get("yield_in_spawn", False))], "replay")
    else:
        rs = inp.get("real_process_scenario", 0)
        real_process_runs(chk, prop, (rs + 1) if isinstance(rs, int) else 0)
    return chk.finish()
