"""fakepool.py — a stand-in for the local worker pool server (gwf.backends.local.Server): it speaks
the same line-delimited JSON protocol on a loopback port, records every request, hands out task ids
0,1,2,… exactly like the real Scheduler (itertools.count) and keeps a task table the harness can
edit.  Used to observe what the REAL local backend client (Client/LocalOps/TrackingBackend) sends:
the dependency ids of every enqueue, which task a cancel names, and how reported states are mapped."""
import json
import socket
import threading

STATE_NAME = {"pending": "SUBMITTED", "running": "RUNNING", "completed": "COMPLETED", "failed": "FAILED",
              "cancelled": "CANCELLED", "killed": "KILLED"}


class FakePool:
    def __init__(self, first_id=0):
        self.lock = threading.Lock()
        self.st = {"next_id": first_id, "jobs": {}, "faults": [], "calls": {}, "foreign": []}
        self._log = []
        self.sock = socket.socket(socket.AF_INET, socket.SOCK_STREAM)
        self.sock.setsockopt(socket.SOL_SOCKET, socket.SO_REUSEADDR, 1)
        self.sock.bind(("127.0.0.1", 0))
        self.sock.listen(16)
        self.port = self.sock.getsockname()[1]
        self.closing = False
        self.active = 0
        self.thread = threading.Thread(target=self._serve, daemon=True)
        self.thread.start()

    # --- FakeCluster-compatible surface
    def settle(self, timeout=3.0):
        """wait until every accepted connection has been served to its end (the client's requests are
        asynchronous: cancel_task has no reply)"""
        import time
        t0 = time.time()
        while time.time() - t0 < timeout:
            with self.lock:
                if self.active == 0:
                    return
            time.sleep(0.002)

    def read(self):
        self.settle()
        with self.lock:
            return json.loads(json.dumps(self.st))

    def write(self, st):
        with self.lock:
            self.st = json.loads(json.dumps(st))

    def update(self, fn):
        st = self.read()
        fn(st)
        self.write(st)

    def log(self):
        self.settle()
        with self.lock:
            return list(self._log)

    def clear_log(self):
        with self.lock:
            self._log = []

    def env(self):
        return {"PATH": "/usr/bin:/bin", "HOME": "/tmp", "LC_ALL": "C.UTF-8", "NO_COLOR": "1"}

    def close(self):
        self.closing = True
        try:
            self.sock.close()
        except OSError:
            pass

    # --- server
    def _serve(self):
        while not self.closing:
            try:
                conn, _ = self.sock.accept()
            except OSError:
                return
            with self.lock:
                self.active += 1
            threading.Thread(target=self._handle, args=(conn,), daemon=True).start()

    def _handle(self, conn):
        f = conn.makefile("rwb")
        try:
            for raw in f:
                try:
                    msg = json.loads(raw)
                except ValueError:
                    return
                kind = msg.pop("__kind__", None)
                with self.lock:
                    self.st["calls"][kind] = self.st["calls"].get(kind, 0) + 1
                    nth = self.st["calls"][kind]
                    fault = None
                    for ft in self.st.get("faults", []):
                        if ft["cmd"] == kind and ft["nth"] == nth:
                            fault = ft["kind"]
                    entry = {"cmd": kind, "msg": msg, "nth": nth, "fault": fault, "argv": [], "stdin": msg.get("script", "")}
                    if kind == "enqueue_task":
                        if fault:
                            self._log.append(entry)
                            return      # drop the connection: the submission fails
                        tid = self.st["next_id"]
                        self.st["next_id"] += 1
                        self.st["jobs"][str(tid)] = {"id": str(tid), "state": "pending", "deps": [str(d) for d in msg.get("deps", [])],
                                                     "kind": "local", "name": msg.get("name"), "script": msg.get("script"), "argv": [],
                                                     "code": None, "acct": None, "order": len(self.st["jobs"]), "raw_deps": msg.get("deps")}
                        entry["reply"] = tid
                        self._log.append(entry)
                        reply = {"__kind__": "task_enqueued", "tid": tid}
                    elif kind == "get_task_states":
                        self._log.append(entry)
                        reply = {"__kind__": "task_states", "tasks": {j["id"]: STATE_NAME[j["state"]] for j in self.st["jobs"].values()}}
                    elif kind == "cancel_task":
                        tid = str(msg.get("tid"))
                        entry["argv"] = [tid]
                        self._log.append(entry)
                        j = self.st["jobs"].get(tid)
                        if j is None:
                            return      # the real server dies on this connection (KeyError)
                        if j["state"] in ("pending", "running") and not fault:
                            j["state"] = "cancelled"
                        reply = None
                    elif kind in ("close", "shutdown"):
                        return
                    else:
                        self._log.append(entry)
                        return
                if reply is not None:
                    f.write((json.dumps(reply) + "\n").encode())
                    f.flush()
        except OSError:
            pass
        finally:
            try:
                f.close()
                conn.close()
            except OSError:
                pass
            with self.lock:
                self.active -= 1
