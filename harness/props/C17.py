"""C17 — CLI-level history check (see history.py / history_check.py)."""
import history_check as HC

RULE = 'histories: gwf cancel (patterns incl. non-matching / none + --force / prompt y, n, EOF) on clusters with never-submitted, pending, running and finished jobs, a failing cancel command at position 1-3, then status, run, status; Slurm, SGE and LSF fakes and a fake pool server; plus 800 [20 000] operation sequences with cancels of waiting and running tasks that have dependencies on the REAL pool scheduler under a virtual clock; non-trivial = >=3 targets'
ASSUME = ["the simulated cluster (harness/fakes/fakecluster.py) stands for the schedulers; output formats and dependency semantics follow their documentation",
          "commands run in-process through click's CliRunner (same code path as the gwf executable)",
          "file modification times are set with os.utime to distinct integer seconds so that order is observable"]


def nontrivial(r):
    return r["info"] is not None and len(r["info"]["targets"]) >= 3


def run(chk):
    n = 200 if chk.tier == "quick" else 2500
    HC.run_prop(chk, "C17", ["C17", "C17:sge", "C17:lsf", "C17:local"], n, RULE, ASSUME, nontrivial)
    # what a cancel does inside the REAL local pool (the CLI histories above talk to a fake pool server): only the
    # cancelled task and the tasks waiting for it end CANCELLED; nothing it depends on is torn down
    import pool_check
    pool_check.cancel_subrun(chk, "C17", 800 if chk.tier == "quick" else 20000)


def replay(chk, data):
    if "ops" in data.get("input", {}):
        import pool_check
        return pool_check.replay_prop(chk, "C17", RULE, data)
    return HC.replay_prop(chk, "C17", data, RULE)
