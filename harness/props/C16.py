"""C16 — CLI-level history check (see history.py / history_check.py)."""
import history_check as HC

RULE = "histories: gwf touch (patterns incl. non-matching, or none) with Path.touch wrapped to stamp strictly increasing mtimes, followed by gwf status compared with the model's touch-then-status; sources dated in the future; diamonds/shared dependencies; contents hashed before/after; non-trivial = >=3 targets"
ASSUME = ["the simulated cluster (harness/fakes/fakecluster.py) stands for the schedulers; output formats and dependency semantics follow their documentation",
          "commands run in-process through click's CliRunner (same code path as the gwf executable)",
          "file modification times are set with os.utime to distinct integer seconds so that order is observable"]


def nontrivial(r):
    return r["info"] is not None and len(r["info"]["targets"]) >= 3


def run(chk):
    n = 240 if chk.tier == "quick" else 3000
    HC.run_prop(chk, "C16", ["C16"], n, RULE, ASSUME, nontrivial)


def replay(chk, data):
    return HC.replay_prop(chk, "C16", data, RULE)
