"""C03 — dependency graph = relation induced by shared (normalised) paths.
Correspondence: real Graph.from_targets vs the Lean model (wf.graph) on projects whose path
occurrences are rewritten by a spelling mutator; predicate p.C03 on the observed relations;
differential check of the Lean path functions against os.path."""
import os
import posixpath

import common
import gen
import impl_core
from common import hx

RULE = ("cases = corpus + seeded random projects (2-10 [<=30] targets, per-target working dirs, random definition order, container "
        "shapes, each path occurrence rewritten to one of: relative, './x', 'd/../x', absolute, absolute with '/./' or '/q/../', "
        "doubled slash) + generated path strings against os.path; a project is non-trivial when some dependency edge is created by "
        "two DIFFERENT spellings of one file; distinct by canonical encoding")


def impl_graph_line(proj):
    return impl_core.impl_graph(proj)[0]


def edge_by_different_spellings(proj):
    outs = {}
    for t in proj["targets"]:
        for p in gen.flatten_shape(t["outputs"]):
            outs.setdefault(posixpath.normpath(posixpath.join(t["wd"], p)), set()).add((t["wd"], p))
    for t in proj["targets"]:
        for p in gen.flatten_shape(t["inputs"]):
            k = posixpath.normpath(posixpath.join(t["wd"], p))
            if k in outs and any(sp != p for (_, sp) in outs[k]):
                return True
    return False


def observed_tokens(line):
    parts = dict(x.split("=", 1) for x in line[3:].split(" "))
    return "D L%s R L%s N L%s V L%s" % (parts["deps"], parts["dependents"], parts["endpoints"], parts["provides"])


def check_graphs(chk, projs, label):
    impl_lines = common.pmap(impl_graph_line, projs)
    dl = []
    for p, il in zip(projs, impl_lines):
        enc = impl_core.enc_proj(p)
        dl.append("wf.graph " + enc)
        dl.append(("p.C03 " + enc + " " + observed_tokens(il)) if il.startswith("ok ") else "ping")
    out = common.run_driver_sharded(dl)
    for i, (p, il) in enumerate(zip(projs, impl_lines)):
        ml, pred = out[2 * i], out[2 * i + 1]
        chk.count(label)
        chk.count("impl:" + " ".join(il.split(" ")[:2]) if il.startswith("err") else "impl:ok")
        chk.case(impl_core.enc_proj(p), edge_by_different_spellings(p),
                 sample={"project": p, "implementation": il, "model": ml} if i % 499 == 3 else None)
        if il.startswith("ok ") and pred != "ok":
            chk.violation({"kind": "graph", "conjunct": pred}, common.mismatch_replay(
                "input", p, il, ml, {"predicate": pred, "what": "p.C03 fails on the relations built by Graph.from_targets"}))
        elif il != ml:
            chk.count("divergence")
            if ml.startswith("ok ") and il.startswith("err"):
                # the model (whose graph satisfies the theorems) accepts and connects; the code rejects
                chk.violation({"kind": "graph-rejected", "impl": il}, common.mismatch_replay(
                    "input", p, il, ml, {"what": "the implementation rejects a workflow whose declared paths resolve consistently (spellings of one file did not connect or different files were identified)"}))
            elif ml.startswith("err") and il.startswith("ok "):
                chk.violation({"kind": "graph-accepted", "model": ml}, common.mismatch_replay(
                    "input", p, il, ml, {"what": "the implementation accepts a workflow the model rejects (see C04)"}))
            else:
                chk.proof.failed.append("correspondence wf.graph disagrees")
                chk.proof.ok = False
                chk.notes.append({"divergence": {"project": p, "implementation": il, "model": ml}})


def path_differential(chk, n):
    rng = chk.rng
    cases, lines = [], []
    for i in range(n):
        k = i % 3
        if k == 0:
            p = gen.rand_path_string(rng)
            cases.append(("normpath", p)); lines.append("path.normpath " + hx(p))
        elif k == 1:
            a, b = gen.rand_path_string(rng), gen.rand_path_string(rng)
            cases.append(("join", a, b)); lines.append("path.join %s %s" % (hx(a), hx(b)))
        else:
            cwd = posixpath.normpath("/" + rng.choice(["c", "c/d", "", "c/../e"]))
            wd = rng.choice(["/w", "/w/v", "rel", "rel/x", ".", "/w/", "/w//v", "/"])
            p = gen.rand_path_string(rng) or "x"
            cases.append(("norm", cwd, wd, p)); lines.append("path.norm %s %s %s" % (hx(cwd), hx(wd), hx(p)))
    out = common.run_driver_sharded(lines)
    from gwf.core import _norm_path
    real_getcwd = os.getcwd
    for c, o in zip(cases, out):
        got = common.unhx(o)
        if c[0] == "normpath":
            exp = os.path.normpath(c[1])
        elif c[0] == "join":
            exp = os.path.join(c[1], c[2])
        else:
            os.getcwd = lambda c=c: c[1]
            try:
                exp = _norm_path(c[2], c[3])
            finally:
                os.getcwd = real_getcwd
        chk.count("path:" + c[0])
        chk.case(("path",) + c, False)
        if got != exp:
            if c[0] == "norm":
                chk.violation({"kind": "norm_path", "case": c[0]}, common.mismatch_replay(
                    "input", list(c), exp, got, {"what": "_norm_path differs from the lexical normalisation the theorems are about"}))
            else:
                raise common.Broken("Lean path model disagrees with os.path on %r: %r vs %r" % (c, got, exp))


def run(chk):
    chk.rule = RULE
    chk.assumptions = ["symlinks and case-insensitive file systems are outside the model (and outside gwf's own logic: paths are compared lexically)",
                       "os.getcwd is replaced in the harness process to emulate the invoking directory"]
    for fn, data in common.load_corpus("C03"):
        check_graphs(chk, [data["input"] if "input" in data else data], "corpus")
    rng = chk.rng
    n = 4000 if chk.tier == "quick" else 150000
    nmax = 10 if chk.tier == "quick" else 30
    projs = [gen.gen_dag_project(rng, nmax=nmax if i % 4 else 4, spellings=True, multi_wd=(i % 2 == 0), p_missing=0.3,
                                 defects=({"multi"} if i % 17 == 0 else None)) for i in range(n)]
    for k in range(0, len(projs), 25000):
        check_graphs(chk, projs[k:k + 25000], "random")
    path_differential(chk, 20000 if chk.tier == "quick" else 1000000)
    if len(chk.distinct) < 200:
        raise common.Broken("degenerate generator: too few edges created by different spellings")
    # CLI level: the relation as `gwf info` (json and pretty) shows it, next to status / dry-run on the same project
    import history_check as HC
    rule, assume = chk.rule, chk.assumptions
    HC.run_prop(chk, "C03", ["C03", "C05", "C03"], 60 if chk.tier == "quick" else 900, rule, assume, lambda r: True)


def replay(chk, data):
    chk.rule = RULE
    if isinstance(data["input"], dict) and "focus" in data["input"]:
        import history_check as HC
        return HC.replay_prop(chk, "C03", data, RULE)
    if isinstance(data["input"], dict):
        check_graphs(chk, [data["input"]], "replay")
    return chk.finish()
