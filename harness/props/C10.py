"""C10 — job scripts run the spec faithfully with the resolved resource options.
(a) scripts handed to fake sbatch/qsub/bsub by the real `gwf run` vs the model's script text, for generated
    option layers (backend default < workflow default < template < per-target), None values, unknown options,
    odd working-directory names, multi-line specs, the Slurm log modes;
(b) the recorded Slurm scripts are EXECUTED with real bash from a foreign directory: working directory,
    stop at the first failing command, spec run verbatim;
(c) clean_logs: which log files a later run deletes; (d) shlex.quote / word-splitter model vs Python shlex."""
import json
import os
import shlex
import shutil
import subprocess

import cluster
import common
from common import hx

RULE = ("(a) seeded targets: option values from each of the four sources incl. None and unknown option names, working directories with spaces, "
        "quotes, ';', '$', '*', unicode, specs with several lines, quotes, '$' and with/without trailing newline, Slurm log modes full/merged/none, "
        "on the Slurm, SGE and LSF fakes; (b) each recorded Slurm script run with bash (spec with a failing command in the middle); (c) log "
        "directories with logs of current, removed and dotted-name targets; (d) generated strings through shlex.quote/shlex.split; "
        "non-trivial = the working directory or spec contains a shell metacharacter, or >=3 option sources disagree; distinct by case")

WDS = ["plain", "with space", "semi;colon", "dollar$HOME", "quote'single", 'quote"double', "star*glob", "ünï", "a&b", "(paren)", "back\\slash", "-dash", "~tilde", "new"]
SPECS = ["echo hi", "echo hi\n", "echo one\necho two\n", "echo \"$HOME\" 'single' $((1+1))\n", "printf '%s\\n' a b\n\n", "", "# only a comment",
         "echo before\nfalse\necho after\n", "x=1; echo $x\nexit 3\necho never\n"]
OPT_VALUES = {"cores": [1, 2, 8, None], "memory": ["1g", "8g", "16gb", "512m", None], "walltime": ["01:00:00", "12:00:00", None],
              "queue": ["normal", "short,long", None], "account": ["proj1", None], "nodes": [1, 2, None], "constraint": ["gen2", None],
              "qos": ["high", None], "bogus": [1, "x", None], "gres": ["gpu:1", None], "mail_user": ["a@b.c", None], "mail_type": ["END", None]}


def gen_case(rng, backend):
    def layer(p):
        d = {}
        for k, vals in OPT_VALUES.items():
            if rng.random() < p:
                d[k] = rng.choice(vals)
        return d
    wfd, tpl, kw = layer(0.25), layer(0.3), layer(0.3)
    for d in (wfd, tpl, kw):
        if backend in ("sge", "lsf"):
            if d.get("cores", 1) is None:
                d["cores"] = rng.choice([1, 2, 4])
        if backend == "sge" and d.get("memory", "1g") is None:
            d["memory"] = "4g"
    return {"backend": backend, "name": rng.choice(["A", "b_2", "align.sample1", "_x"]), "wd": rng.choice(WDS), "spec": rng.choice(SPECS),
            "wfd": wfd, "tpl": tpl, "kw": kw, "log_mode": rng.choice(["full", "merged", "none"]) if backend == "slurm" else "full"}


def enc_opts(d):
    def v(x):
        if x is None:
            return "N"
        if isinstance(x, bool):
            return "b1" if x else "b0"
        if isinstance(x, int):
            return "i%d" % x
        return "s" + hx(x)
    return common.mklist("%s=%s" % (hx(k), v(x)) for k, x in d.items())


def run_case(case):
    root = common.scratch_dir("gwfverif-c10-")
    try:
        proj = os.path.realpath(os.path.join(root, "proj"))
        os.makedirs(proj)
        wd = os.path.join(proj, case["wd"])
        os.makedirs(wd, exist_ok=True)
        src = ["from gwf import Workflow, AnonymousTarget", "gwf = Workflow(defaults=%r)" % case["wfd"],
               "t = AnonymousTarget(inputs=[], outputs=[], options=%r, working_dir=%r, spec=%r)" % (case["tpl"], wd, case["spec"]),
               "gwf.target_from_template(%r, t, **%r)" % (case["name"], case["kw"])]
        with open(os.path.join(proj, "workflow.py"), "w") as f:
            f.write("\n".join(src) + "\n")
        conf = {"backend": case["backend"]}
        if case["backend"] == "slurm":
            conf["backend.slurm.log_mode"] = case["log_mode"]
        with open(os.path.join(proj, ".gwfconf.json"), "w") as f:
            json.dump(conf, f)
        cl = cluster.FakeCluster(os.path.join(root, "cl"))
        code, out, err = cluster.run_gwf(["run"], proj, cl)
        subs = [e for e in cl.log() if e["cmd"] in ("sbatch", "qsub", "bsub")]
        script = subs[0]["stdin"] if subs else None
        res = {"code": code, "script": script, "err": err[-400:], "proj": proj, "wd": wd, "warned": sorted(set(
            m for m in __import__("re").findall(r"Option '([^']+)' used in", err)))}
        if script is not None and case["backend"] == "slurm" and case.get("execute"):
            foreign = os.path.join(root, "foreign")
            os.makedirs(foreign)
            marker = "\necho PWD=$(pwd)\n"
            r = subprocess.run(["bash", "-c", script.replace("set -e\n", "set -e\necho PWD=$(pwd)\n", 1)], cwd=foreign,
                               capture_output=True, text=True, timeout=30, env={"PATH": "/usr/bin:/bin", "HOME": "/nonexistent-home"})
            res["exec"] = {"rc": r.returncode, "out": r.stdout[-400:], "errtail": r.stderr[-200:]}
        return res
    except Exception:  # noqa
        import traceback
        return {"code": -1, "script": None, "err": traceback.format_exc()[-500:], "proj": "", "wd": "", "warned": []}
    finally:
        shutil.rmtree(root, ignore_errors=True)


def expected_exec(spec):
    """what running the spec under `set -e` prints and returns — from bash itself on the bare spec (the oracle
    for 'runs the spec verbatim and stops at the first failing command' is the shell's own behaviour)"""
    d = common.scratch_dir("gwfverif-c10x-")
    try:
        r = subprocess.run(["bash", "-e", "-c", spec], cwd=d, capture_output=True, text=True, timeout=30, env={"PATH": "/usr/bin:/bin", "HOME": "/nonexistent-home"})
        return r.returncode, r.stdout
    finally:
        shutil.rmtree(d, ignore_errors=True)


def nontrivial(c):
    meta = any(ch in c["wd"] + c["spec"] for ch in " ;$'\"*&()\\\t~")
    keys = set(c["wfd"]) & set(c["tpl"]) | set(c["tpl"]) & set(c["kw"]) | set(c["wfd"]) & set(c["kw"])
    return meta or bool(keys)


def part_scripts(chk, n):
    rng = chk.rng
    cases = []
    for i in range(n):
        c = gen_case(rng, ["slurm", "sge", "lsf"][i % 3])
        c["execute"] = (c["backend"] == "slurm" and i % 2 == 0)
        cases.append(c)
    results = common.pmap(run_case, cases, chunk=2)
    lines = []
    for c, r in zip(cases, results):
        lines.append("script %s %s %s %s %s %s %s %s %s" % (c["backend"], hx(r["proj"]), hx(c["log_mode"]), hx(c["name"]), hx(r["wd"]), hx(c["spec"]),
                                                             enc_opts(c["wfd"]), enc_opts(c["tpl"]), enc_opts(c["kw"])))
    outs = common.run_driver_sharded(lines)
    for c, r, o in zip(cases, results, outs):
        chk.count("script:" + c["backend"])
        mtext, _, unk = o.partition(" unknown=")
        mscript = common.unhx(mtext)
        munk = sorted(common.unhx(x) for x in unk.split(",") if x)
        chk.case(json.dumps(c, sort_keys=True), nontrivial(c), sample={"case": c, "script": (r["script"] or "")[:400]} if len(chk.samples) < 2 else None)
        if r["code"] != 0 or r["script"] is None:
            chk.violation({"kind": "run-failed", "backend": c["backend"]}, {"kind": "input", "input": c, "implementation": r, "what": "gwf run failed or submitted nothing"})
            continue
        if r["script"] != mscript:
            il, ml = r["script"].split("\n"), mscript.split("\n")
            k = next((j for j in range(min(len(il), len(ml))) if il[j] != ml[j]), min(len(il), len(ml)))
            chk.violation({"kind": "script", "backend": c["backend"], "line": (il[k] if k < len(il) else "<missing>").split("=")[0][:24]},
                          {"kind": "input", "input": c, "implementation": r["script"], "model": mscript, "first_differing_line": k,
                           "what": "the script handed to the scheduler differs from the model (resolved options / directives / cd / spec)"})
        if r["warned"] != munk:
            chk.violation({"kind": "unknown-option-warning"}, {"kind": "input", "input": c, "implementation": r["warned"], "model": munk,
                                                                 "what": "options the backend does not know are not (exactly) the ones warned about and dropped"})
        if "exec" in r:
            rc, out = expected_exec(c["spec"])
            got = r["exec"]
            pwd_line = "PWD=" + r["wd"] + "\n"
            if got["rc"] != rc or not got["out"].startswith(pwd_line[-400:] if len(pwd_line) > 400 else pwd_line) or got["out"][len(pwd_line):] != out[-(400 - len(pwd_line)):] and got["out"] != (pwd_line + out)[-400:]:
                chk.violation({"kind": "execution"}, {"kind": "input", "input": c, "implementation": got, "model": {"rc": rc, "out": pwd_line + out},
                                                        "what": "executed with bash the script does not run the spec verbatim in the target's working directory / does not stop at the first failure"})


def part_cleanlogs(chk, n):
    """`gwf run` deletes only logs of targets that are no longer in the workflow (and none with clean_logs off)"""
    rng = chk.rng
    for i in range(n):
        root = common.scratch_dir("gwfverif-c10l-")
        try:
            proj = os.path.join(root, "proj")
            names = rng.sample(["A", "B", "align.sample1", "align", "x.y.z", "_t"], rng.randint(1, 4))
            cluster.write_workflow(proj, [{"name": nm, "inputs": [], "outputs": [nm + ".out"], "spec": "touch x"} for nm in names])
            logs = os.path.join(proj, ".gwf", "logs")
            os.makedirs(logs)
            files = set()
            for nm in names + rng.sample(["Old", "align.sample2", "gone.target", "align", "A"], 3):
                for ext in (".stdout", ".stderr"):
                    if rng.random() < 0.8:
                        files.add(nm + ext)
            files |= set(rng.sample(["notes.txt", "README", ".hidden", "weird.name.log"], 2))
            for fn in files:
                open(os.path.join(logs, fn), "w").close()
            clean = rng.random() < 0.65
            cl = cluster.FakeCluster(os.path.join(root, "cl"))
            if rng.random() < 0.5:
                # the way a user switches it: `gwf config set clean_logs yes|no|true|false`
                with open(os.path.join(proj, ".gwfconf.json"), "w") as f:
                    json.dump({"backend": "slurm"}, f)
                spelling = rng.choice(["yes", "true"] if clean else ["no", "false"])
                c0, _, e0 = cluster.run_gwf(["config", "set", "clean_logs", spelling], proj, cl)
                if c0 != 0:
                    raise common.Broken("gwf config set clean_logs failed: " + e0[-200:])
            else:
                with open(os.path.join(proj, ".gwfconf.json"), "w") as f:
                    json.dump({"backend": "slurm", "clean_logs": clean}, f)
            dry = rng.random() < 0.2
            code, out, err = cluster.run_gwf(["run"] + (["--dry-run"] if dry else []), proj, cl)
            after = set(os.listdir(logs))
            deleted = sorted(files - after)
            m = common.run_driver(["cleanlogs %s %s" % (common.mklist(hx(f) for f in sorted(files)), common.mklist(hx(nm) for nm in names))])[0]
            exp = sorted(common.unhx(x) for x in common.unlist(m)) if (clean and not dry) else []
            chk.count("clean-logs")
            chk.case(("cleanlogs", tuple(sorted(files)), tuple(names), clean, dry), True,
                     sample={"log_files": sorted(files), "targets": names, "clean_logs": clean, "dry_run": dry, "deleted": deleted} if i == 0 else None)
            bad_del = [f for f in deleted if os.path.splitext(f)[0] in names]
            if code != 0 or sorted(deleted) != exp:
                chk.violation({"kind": "clean-logs", "deleted_current_target_log": bool(bad_del)},
                              {"kind": "input", "input": {"log_files": sorted(files), "targets": names, "clean_logs": clean, "dry_run": dry},
                               "implementation": deleted, "model": exp, "what": "gwf run deleted other log files than those of targets no longer in the workflow"})
        finally:
            shutil.rmtree(root, ignore_errors=True)


def part_shell(chk, n):
    rng = chk.rng
    alphabet = ["a", "B", "7", " ", "'", '"', "\\", "$", ";", "*", "\t", "\n", "-", "/", ".", "é", "&", "(", "`", "!", "~", "="]
    strs = ["", " ", "'", "a b", "it's", 'say "hi"', "a\\b", "$(rm -rf x)"] + ["".join(rng.choice(alphabet) for _ in range(rng.randint(0, 8))) for _ in range(n)]
    outs = common.run_driver_sharded(["shell.quote " + hx(s) for s in strs] + ["shell.words " + hx("cd " + shlex.quote(s)) for s in strs])
    for i, s in enumerate(strs):
        chk.count("shell-quote")
        chk.case(("quote", s), any(c in s for c in " '\"\\$;*"))
        q = common.unhx(outs[i])
        words = [common.unhx(x) for x in common.unlist(outs[len(strs) + i])]
        if q != shlex.quote(s):
            raise common.Broken("Lean Shell.quote differs from shlex.quote on %r: %r vs %r" % (s, q, shlex.quote(s)))
        try:
            pw = shlex.split("cd " + shlex.quote(s))
        except ValueError:
            pw = None
        if words != ["cd", s] or (pw is not None and pw != words):
            raise common.Broken("Lean word splitter disagrees on %r: %r (python: %r)" % (s, words, pw))


def run(chk):
    chk.rule = RULE
    chk.assumptions = ["bash's execution of the script body is run, not modelled: the oracle for 'stops at the first failing command' is bash -e on the bare spec",
                       "project directories (as opposed to target working directories) with whitespace are not generated: #SBATCH/#$/#BSUB directive values are not quoted by gwf",
                       "scheduler-side --output/--error redirection is not emulated; `gwf logs` reading those paths is covered by log_paths_agree (theorem) only"]
    part_scripts(chk, 240 if chk.tier == "quick" else 6000)
    part_cleanlogs(chk, 24 if chk.tier == "quick" else 400)
    part_shell(chk, 2000 if chk.tier == "quick" else 100000)


def replay(chk, data):
    chk.rule = RULE
    c = data["input"]
    if "backend" in c:
        r = run_case(c)
        o = common.run_driver(["script %s %s %s %s %s %s %s %s %s" % (c["backend"], hx(r["proj"]), hx(c["log_mode"]), hx(c["name"]), hx(r["wd"]), hx(c["spec"]),
                                                                      enc_opts(c["wfd"]), enc_opts(c["tpl"]), enc_opts(c["kw"]))])[0]
        m = common.unhx(o.partition(" unknown=")[0])
        print("--- implementation\n%s\n--- model\n%s" % (r["script"], m))
        if r["script"] != m:
            chk.violation({"kind": "script"}, {"kind": "input", "input": c, "implementation": r["script"], "model": m})
    else:
        part_cleanlogs(chk, 24)
    return chk.finish()
