"""C06 — CLI-level history check (see history.py / history_check.py)."""
import history_check as HC

RULE = 'histories: gwf run from a state without pending/running jobs (earlier failed/cancelled/completed jobs present), the simulated cluster then executes every job successfully in a seeded random legal order (each job re-creating its declared outputs with fresh stamps), gwf status, gwf run, then 1-2 rounds of {modify one source | delete one output}, dry-run, run, drain, status; on Slurm, SGE and LSF fakes, hashing on/off; non-trivial = >=3 targets'
ASSUME = ["the simulated cluster (harness/fakes/fakecluster.py) stands for the schedulers; output formats and dependency semantics follow their documentation",
          "commands run in-process through click's CliRunner (same code path as the gwf executable)",
          "file modification times are set with os.utime to distinct integer seconds so that order is observable"]


def nontrivial(r):
    return r["info"] is not None and len(r["info"]["targets"]) >= 3


def run(chk):
    n = 160 if chk.tier == "quick" else 2400
    HC.run_prop(chk, "C06", ["C06", "C06:sge", "C06:lsf", "C06:local"], n, RULE, ASSUME, nontrivial)


def replay(chk, data):
    return HC.replay_prop(chk, "C06", data, RULE)
