"""C11 — local worker pool (see pool_check.py)."""
import pool_check

PROP = "C11"
RULE = ("histories = corpus + every operation sequence of length 4 [5] over <=3 tasks (enqueue with dependency sets, exit 0/1, cancel, "
        "clock tick) on 1 [1-2] cores + seeded random sequences (<=40 [<=120] operations: enqueue incl. late submissions on finished tasks "
        "and unknown ids, exits with any code, cancels, ticks/time limits, spawn failures, unwritable logs; every third one with "
        "fine-grained settling so cancels hit every await point) on 1-4 cores, run on the REAL Scheduler under a virtual clock; "
        "non-trivial = the history contains a cancel / non-zero exit / spawn failure AND more tasks than cores; distinct by operation sequence")
ASSUME = ["asyncio realises only transitions the LTS allows: validated on the explored schedules (every observed label must be enabled in the model), not proved",
          "the fake subprocess mirrors asyncio.subprocess.Process (communicate/wait/returncode, ProcessLookupError after exit, SIGKILL takes effect at once)",
          "virtual time advances only while the loop is idle"]


def run(chk):
    pool_check.run_prop(chk, PROP, RULE, ASSUME, real_runs=0)
    # the other half of "a task starts only after its dependencies": the prerequisites gwf names must REACH the pool —
    # multi-invocation `gwf -b local run` histories against a pool server that records the enqueue messages
    # (fresh pools hand out id 0 first)
    import history_check as HC
    rule, assume = chk.rule, chk.assumptions
    HC.run_prop(chk, PROP, ["C07:local", "C06:local", "C07:local"], 48 if chk.tier == "quick" else 600,
                rule + "; plus 48 [600] CLI histories on the local backend (prerequisite ids in the enqueue messages)", assume, lambda r: True)


def replay(chk, data):
    if "focus" in data.get("input", {}):
        import history_check as HC
        return HC.replay_prop(chk, PROP, data, RULE)
    return pool_check.replay_prop(chk, PROP, RULE, data)
