"""C08 — a target's reported state is the scheduler's state of its own latest job.
Every documented state code of every backend (exhaustive, every run) through the real `gwf status`
against the fakes; Slurm queue x accounting combinations, accounting on/off, foreign jobs, stale
accounting rows, >1024 tracked jobs (batched sacct), state changes across invocations, restarted
local pool."""
import json
import os
import shutil

import cluster
import common
import history as H
from common import hx

RULE = ("exhaustive over the documented code tables (Slurm squeue codes, sacct state names incl. 'CANCELLED by <uid>', LSF STAT values, SGE "
        "state letters, local pool states) x stale/up-to-date target, plus seeded Slurm queue-code x accounting-state x accounting on/off "
        "combinations with foreign jobs and stale accounting rows, 2100 tracked jobs for batching, transitions across invocations, restarted "
        "local pool; non-trivial = the job has a queue code AND an accounting record that disagree, or a failure/cancel code; distinct by case")

SLURM_SHORT = ["PD", "R", "CA", "CD", "F", "TO", "OOM", "NF", "BF", "DL", "PR", "CF", "CG", "RQ", "RH", "RD", "RF", "RS", "SO", "S", "ST", "RV", "SE", "XX"]
SLURM_LONG = ["BOOT_FAIL", "CANCELLED", "CANCELLED by 4711", "COMPLETED", "DEADLINE", "FAILED", "NODE_FAIL", "OUT_OF_MEMORY", "PENDING",
              "PREEMPTED", "RUNNING", "REQUEUED", "RESIZING", "REVOKED", "SUSPENDED", "TIMEOUT"]
LSF = ["PEND", "RUN", "DONE", "EXIT", "WAIT", "PSUSP", "USUSP", "SSUSP", "ZOMBI", "UNKWN"]
SGE = ["qw", "hqw", "hRwq", "r", "t", "Rr", "Rt", "s", "S", "T", "Eqw", "dr", "dt", "dRr", "ts"]
LOCAL = ["pending", "running", "failed", "completed", "cancelled", "killed"]
LOCAL_NAME = {"pending": "submitted", "running": "running", "failed": "failed", "completed": "completed", "cancelled": "cancelled", "killed": "killed"}


def run_case(case):
    """case: dict(backend, jobs=[{target, stale, queue, acct}], accounting, foreign, steps)"""
    root = common.scratch_dir("gwfverif-c08-")
    try:
        backend = case["backend"]
        targets = []
        for j in case["jobs"]:
            targets.append({"name": j["target"], "inputs": [], "outputs": [j["target"] + ".out"], "spec": "touch x"})
        conf = {}
        via_cli = backend == "slurm" and case.get("accounting_via_cli")
        if backend == "slurm" and not via_cli:
            conf["backend.slurm.accounting_enabled"] = bool(case.get("accounting", True))
        proj = H.Project(root, targets, backend=backend, config=conf)
        if via_cli:
            # the way a user switches it: gwf config set backend.slurm.accounting_enabled yes|no|true|false
            c0, _, e0 = proj.gwf(["config", "set", "backend.slurm.accounting_enabled", case["accounting_via_cli"]])
            if c0 != 0:
                raise common.Broken("gwf config set failed: " + e0[-200:])
        for j in case["jobs"]:
            if not j["stale"]:
                proj.put_file(j["target"] + ".out")
        tracked = {}
        st = proj.cluster.read()
        base = 0 if backend == "local" else 1000
        for i, j in enumerate(case["jobs"]):
            jid = str(base + i)
            if j.get("tracked", True):
                tracked[j["target"]] = int(jid) if backend == "local" else jid
            if j.get("in_scheduler", True):
                job = {"id": jid, "state": "pending", "deps": [], "kind": "x", "name": j["target"], "script": "", "argv": [],
                       "code": j.get("queue") or "", "acct": j.get("acct") or "", "order": i, "no_acct": j.get("acct") is None}
                if backend == "local":
                    job["state"] = j.get("queue") or "pending"
                elif backend == "slurm" and j.get("queue") is None and j.get("acct") is None:
                    continue
                st["jobs"][jid] = job
        st["next_id"] = base + len(case["jobs"]) + 10
        st["foreign"] = case.get("foreign", [])
        st["stale_acct"] = case.get("stale_acct", {})
        proj.cluster.write(st)
        with open(proj.tracked_path(), "w") as f:
            json.dump(tracked, f)
        proj.cluster.clear_log()
        code, out, err = proj.gwf(["status"])
        log = proj.cluster.log()
        rows = H.parse_status_table(H.ANSI.sub("", out))
        sacct = [e for e in log if e["cmd"] == "sacct"]
        res = {"code": code, "rows": rows, "err": err[-300:], "sacct_calls": len(sacct),
               "sacct_batch_sizes": [len(e["argv"][e["argv"].index("--jobs") + 1].split(",")) for e in sacct if "--jobs" in e["argv"]]}
        if case.get("second"):
            # the scheduler moves on between two invocations
            st = proj.cluster.read()
            for jid, (q, a) in case["second"].items():
                if jid in st["jobs"]:
                    st["jobs"][jid]["code"] = q or ""
                    st["jobs"][jid]["acct"] = a or ""
                    st["jobs"][jid]["no_acct"] = a is None
                    if backend == "local":
                        st["jobs"][jid]["state"] = q
            proj.cluster.write(st)
            code2, out2, err2 = proj.gwf(["status"])
            res["rows2"] = H.parse_status_table(H.ANSI.sub("", out2))
            res["code2"] = code2
        return res
    except Exception as exc:  # noqa
        import traceback
        return {"code": -1, "rows": {}, "err": traceback.format_exc()[-600:], "sacct_calls": 0, "sacct_batch_sizes": []}
    finally:
        try:
            if case["backend"] == "local":
                proj.cluster.close()
        except Exception:  # noqa
            pass
        shutil.rmtree(root, ignore_errors=True)


def model_line(backend, j, accounting):
    stale = "1" if j["stale"] else "0"
    if not j.get("tracked", True) or not j.get("in_scheduler", True):
        return "c08.%s %s" % (backend, " ".join(["-"] * (3 if backend == "slurm" else 1)) + " " + stale) if backend != "slurm" else "c08.slurm - - %s %s" % ("1" if accounting else "0", stale)
    if backend == "slurm":
        return "c08.slurm %s %s %s %s" % (hx(j["queue"]) if j.get("queue") else "-", hx(j["acct"]) if j.get("acct") else "-", "1" if accounting else "0", stale)
    if backend == "local":
        return "c08.local %s %s" % (LOCAL_NAME[j["queue"]], stale)
    return "c08.%s %s %s" % (backend, hx(j["queue"]), stale)


def build_cases(chk):
    rng = chk.rng
    cases = []

    def two(backend, q, a=None, accounting=True, **kw):
        jobs = [{"target": "Fresh", "stale": False, "queue": q, "acct": a}, {"target": "Stale", "stale": True, "queue": q, "acct": a}]
        c = {"backend": backend, "jobs": jobs, "accounting": accounting}
        c.update(kw)
        return c
    foreign = [{"id": "77", "code": "R"}, {"id": "1000000", "code": "F"}]
    for q in SLURM_SHORT:
        for acc in (True, False):
            cases.append(two("slurm", q, None, acc, foreign=foreign))
    for a in SLURM_LONG:
        for acc in (True, False):
            cases.append(two("slurm", None, a, acc, stale_acct={"1000000": "FAILED", "5": "RUNNING"}))
    for _ in range(60 if chk.tier == "quick" else 600):
        cases.append(two("slurm", rng.choice(SLURM_SHORT), rng.choice(SLURM_LONG), rng.random() < 0.7, foreign=foreign))
    # accounting switched the way a user does it (`gwf config set … yes|no|true|false`): a job that left the queue with a
    # (stale or real) accounting record — with accounting off the record must not be consulted
    for sp, acc in (("no", False), ("false", False), ("yes", True), ("true", True)):
        for a in ("FAILED", "COMPLETED", "CANCELLED by 7"):
            cases.append(two("slurm", None, a, acc, accounting_via_cli=sp, stale_acct={"1000000": "FAILED"}))
        cases.append(two("slurm", "R", "FAILED", acc, accounting_via_cli=sp))
    for q in LSF:
        cases.append(two("lsf", q))
    for q in SGE:
        cases.append(two("sge", q, foreign=[{"id": "88", "code": "r"}]))
    for q in LOCAL:
        cases.append(two("local", q))
    # untracked target; tracked id the scheduler does not know (finished long ago / restarted pool)
    for b in ("slurm", "sge", "lsf", "local"):
        cases.append({"backend": b, "accounting": True, "jobs": [{"target": "Fresh", "stale": False, "queue": "R" if b == "slurm" else {"sge": "r", "lsf": "RUN", "local": "running"}[b], "acct": None, "tracked": False},
                                                                  {"target": "Stale", "stale": True, "queue": None, "acct": None, "in_scheduler": False}]})
    # a tracked job the scheduler has forgotten AHEAD of jobs it still knows: each target is judged by its own job
    for b, codes in (("lsf", ("EXIT", "RUN", "DONE")), ("sge", ("r", "qw", "Eqw")), ("slurm", ("F", "R", "PD"))):
        cases.append({"backend": b, "accounting": True, "jobs":
                      [{"target": "A0", "stale": False, "queue": None, "acct": None, "in_scheduler": False},
                       {"target": "B1", "stale": False, "queue": codes[0], "acct": None},
                       {"target": "C2", "stale": True, "queue": codes[1], "acct": None},
                       {"target": "D3", "stale": False, "queue": None, "acct": None, "in_scheduler": False},
                       {"target": "E4", "stale": True, "queue": codes[2], "acct": None}]})
    # transitions across invocations
    cases.append(two("slurm", "PD", "PENDING", True, second={"1000": ("R", "RUNNING"), "1001": (None, "FAILED")}))
    cases.append(two("slurm", "R", "RUNNING", True, second={"1000": (None, "COMPLETED"), "1001": (None, "CANCELLED by 0")}))
    cases.append(two("lsf", "PEND", second={"1000": ("RUN", None), "1001": ("EXIT", None)}))
    cases.append(two("local", "pending", second={"0": ("running", None), "1": ("failed", None)}))
    return cases


def nontrivial(c):
    j = c["jobs"][0]
    return bool(j.get("queue") and j.get("acct")) or (j.get("queue") in ("F", "TO", "OOM", "NF", "CA", "EXIT", "failed", "cancelled", "killed")) or \
        (j.get("acct") or "").split(" ")[0] in ("FAILED", "TIMEOUT", "CANCELLED", "NODE_FAIL", "OUT_OF_MEMORY")


def batching(chk):
    """more tracked jobs than one accounting query carries"""
    n = 2100
    jobs = [{"target": "T%04d" % i, "stale": False, "queue": None, "acct": "COMPLETED"} for i in range(n)]
    for i, a in ((3, "FAILED"), (1030, "TIMEOUT"), (2090, "CANCELLED"), (1023, "FAILED"), (1024, "NODE_FAIL")):
        jobs[i]["acct"] = a
    jobs[500]["queue"] = "R"
    for acc in (True, False):
        res = run_case({"backend": "slurm", "jobs": jobs, "accounting": acc})
        chk.count("batching-run")
        model = common.run_driver([model_line("slurm", j, acc) for j in jobs])
        exp = {j["target"]: m for j, m in zip(jobs, model)}
        chk.case(("batching", acc), True, sample={"tracked_jobs": n, "accounting": acc, "sacct_calls": res["sacct_calls"], "batch_sizes": res["sacct_batch_sizes"]})
        bad = {k: (res["rows"].get(k), v) for k, v in exp.items() if res["rows"].get(k) != v}
        if res["code"] != 0 or bad:
            chk.violation({"kind": "batching", "accounting": acc}, {"kind": "history", "input": {"tracked_jobs": n, "accounting": acc, "special": "failed/timeout/cancelled jobs in batches 1, 2, 3 and at the batch boundary"},
                          "implementation": {"exit": res["code"], "differing_rows": dict(list(bad.items())[:8]), "err": res["err"]},
                          "what": "states of tracked jobs differ when there are more tracked jobs than one sacct query carries"})
        if acc and (res["sacct_calls"] < 3 or any(b > 1024 for b in res["sacct_batch_sizes"])):
            chk.violation({"kind": "batching-shape"}, {"kind": "history", "input": {"tracked_jobs": n}, "implementation": res["sacct_batch_sizes"],
                                                        "what": "sacct queries are not batches of at most the batch size"})
        if not acc and res["sacct_calls"] != 0:
            chk.violation({"kind": "accounting-off-queried"}, {"kind": "history", "input": {"accounting": False}, "implementation": res["sacct_calls"],
                                                                "what": "the accounting database was consulted although accounting is disabled"})


def run(chk):
    chk.rule = RULE
    chk.assumptions = ["the documented code tables (GwfModel/States.lean: slurmDocumented, slurmLongDocumented, lsfDocumented, sgeDocumented, localDocumented) are hand-curated from the schedulers' manuals",
                       "state names missing from gwf's own tables (e.g. LSF PROV) make gwf raise KeyError; they are not in the documented tables used here (DESIGN §7-N1)",
                       "suspended / error-queue codes are 'unconstrained' (the property names five categories; DESIGN §7-N3)"]
    cases = build_cases(chk)
    results = common.pmap(run_case, cases, chunk=2)
    lines, idx = [], []
    for ci, c in enumerate(cases):
        for j in c["jobs"]:
            lines.append(model_line(c["backend"], j, c.get("accounting", True)))
            idx.append((ci, j["target"], 1))
        if c.get("second"):
            base = 0 if c["backend"] == "local" else 1000
            for k, j in enumerate(c["jobs"]):
                q, a = c["second"].get(str(base + k), (j.get("queue"), j.get("acct")))
                j2 = dict(j, queue=q, acct=a)
                lines.append(model_line(c["backend"], j2, c.get("accounting", True)))
                idx.append((ci, j["target"], 2))
    outs = common.run_driver_sharded(lines)
    exp = {}
    for (ci, t, phase), o in zip(idx, outs):
        exp.setdefault((ci, phase), {})[t] = o
    for ci, (c, r) in enumerate(zip(cases, results)):
        chk.count("backend:" + c["backend"])
        chk.case(json.dumps(c, sort_keys=True), nontrivial(c),
                 sample={"case": c, "shown": r["rows"], "model": exp[(ci, 1)]} if (ci % 41 == 0) else None)
        for phase, rows in ((1, r["rows"]), (2, r.get("rows2"))):
            if rows is None or (ci, phase) not in exp:
                continue
            e = exp[(ci, phase)]
            if "keyerror" in e.values():
                continue
            if r["code"] != 0 or rows != e:
                j = c["jobs"][0]
                chk.violation({"kind": "state", "backend": c["backend"], "queue": j.get("queue"), "acct": j.get("acct")},
                              {"kind": "history", "input": c, "invocation": phase, "implementation": {"exit": r["code"], "rows": rows, "err": r["err"]}, "model": e,
                               "what": "gwf status shows a state that is not the documented meaning of the scheduler's code for the target's own job"})
        if c["backend"] == "slurm" and not c.get("accounting", True) and r["sacct_calls"]:
            chk.violation({"kind": "accounting-off-queried"}, {"kind": "history", "input": c, "implementation": r["sacct_calls"],
                                                                "what": "the accounting database was consulted although accounting is disabled"})
    chk.exhaustive = True
    batching(chk)


def replay(chk, data):
    chk.rule = RULE
    c = data["input"]
    if "jobs" in c:
        r = run_case(c)
        model = common.run_driver([model_line(c["backend"], j, c.get("accounting", True)) for j in c["jobs"]])
        e = {j["target"]: m for j, m in zip(c["jobs"], model)}
        print("shown", r["rows"], "model", e)
        if r["rows"] != e:
            chk.violation({"kind": "state"}, {"kind": "history", "input": c, "implementation": r["rows"], "model": e})
    else:
        batching(chk)
    return chk.finish()
