"""C19 — workflow definition: paths and names mean the same wherever gwf is run."""
import os
import shutil
import sys
from pathlib import Path, PurePosixPath

import cluster
import common
from common import hx
from impl_core import PL

RULE = ("(1) candidate names from a grammar (valid cores ± trailing newline/dot/space, leading digit/dot, unicode letters and digits, control "
        "characters, empty) through is_valid_name and Target(); (2) path values (str, PathLike, pathlib.Path, bytes/int/None) with C0, DEL, C1, "
        "NBSP and unicode characters, empty, through Target() inputs/outputs/working_dir; (3) projects defining targets directly, from templates "
        "(no / explicit / empty working_dir) and by map (every naming mode), loaded from the project root, a nested directory and an unrelated "
        "directory: normalised paths, graph, status table and location of .gwf compared; (4) duplicate names incl. collisions inside one map call; "
        "non-trivial = a name with a character class boundary, a path with a control character, or a template/map target invoked from >=2 "
        "directories; distinct by input")


def gen_names(rng, n):
    heads = ["a", "Z", "_", "9", ".", "é", "-", " ", ""]
    mids = ["b", "Q", "_", "0", ".", "é", "-", " ", "\n", "\t", "١", "/", "$"]
    out = ["", "a", "_", "a\n", "a.b", "a..", "9a", ".a", "a b", "a-b", "aé", "a\r", "A" * 50, "a\n\n", "\na", "a\x00", "__init__", "a.1._"]
    while len(out) < n:
        s = rng.choice(heads) + "".join(rng.choice(mids) for _ in range(rng.randint(0, 4)))
        if rng.random() < 0.2:
            s += "\n"
        out.append(s)
    return out


def gen_paths(rng, n):
    special = ["\x00", "\x01", "\t", "\n", "\x1f", " ", "\x7f", "\x80", "\x85", "\x9f", "\xa0", "é", "​", " ", "/", ".", "$", "'"]
    out = ["", "a", "a/b", " ", "a b", "\t", "a\nb", "a\x7f", "\x80", "a\x9fb", "\xa0", "naïve/ü.txt"]
    while len(out) < n:
        out.append("".join(rng.choice(["a", "b", "/", "x.y"] + special) for _ in range(rng.randint(0, 5))))
    return out


def impl_name(s):
    from gwf.utils import is_valid_name
    from gwf import Target
    from gwf.exceptions import GWFError
    a = bool(is_valid_name(s))
    try:
        Target(name=s, inputs=[], outputs=[], options={}, working_dir="/w")
        b = True
    except GWFError:
        b = False
    return "1" if (a and b) else ("0" if (not a and not b) else "inconsistent:%s/%s" % (a, b))


def impl_path(case):
    kind, s = case
    from gwf import Target
    v = {"str": s, "pl": PL(s), "pathlib": None}[kind] if kind != "pathlib" else PurePosixPath(s)
    res = []
    for where in ("inputs", "outputs", "working_dir"):
        try:
            if where == "working_dir":
                if kind != "str":
                    res.append(None)
                    continue
                Target(name="T", inputs=[], outputs=[], options={}, working_dir=v)
            else:
                Target(name="T", options={}, working_dir="/w", **{where: [v], ("outputs" if where == "inputs" else "inputs"): []})
            res.append(True)
        except Exception as exc:  # noqa
            res.append("raise:" + type(exc).__name__ if not isinstance(exc, Exception) else False)
    return res


WF_TEMPLATE = '''
from gwf import Workflow, AnonymousTarget
gwf = Workflow()
def tpl(x):
    return AnonymousTarget(inputs=[x], outputs=[x + ".out"], options={}, spec="cp")
def tpl_wd(x):
    return AnonymousTarget(inputs=[x], outputs=[x + ".o2"], options={}, working_dir=%(abswd)r, spec="cp")
def tpl_empty(x):
    return AnonymousTarget(inputs=[x], outputs=[x + ".o3"], options={}, working_dir="", spec="cp")
class Cls:
    def __call__(self, x):
        return AnonymousTarget(inputs=[x], outputs=[x + ".o4"], options={}, spec="cp")
gwf.target("Direct", inputs=["src"], outputs=["sub/direct.out", "./d/../direct2"]) << "echo"
gwf.target_from_template("FromTpl", tpl("src"))
gwf.target_from_template("FromTplWd", tpl_wd("src"))
gwf.target_from_template("FromTplEmpty", tpl_empty("src"))
gwf.map(tpl, ["m0", "m1", "m2"])
gwf.map(tpl_wd, ["n0", "n1"], name="named")
gwf.map(tpl_empty, ["p0", "p1"], name=lambda idx, t: "fn%%d" %% (idx * 2))
gwf.map(Cls(), ["q0"])
'''


def part3(chk):
    """same project loaded from three directories, in-process and through the CLI"""
    root = common.scratch_dir("gwfverif-c19-")
    try:
        root = os.path.realpath(root)
        proj = os.path.join(root, "proj dir")
        nested = os.path.join(proj, "deep", "er")
        other = os.path.join(root, "elsewhere")
        abswd = os.path.join(root, "tplwd")
        for d in (nested, other, abswd):
            os.makedirs(d)
        with open(os.path.join(proj, "workflow.py"), "w") as f:
            f.write(WF_TEMPLATE % {"abswd": abswd})
        for s in ["src", "m0", "m1", "m2", "p0", "p1", "q0"]:
            open(os.path.join(proj, s), "w").close()
        for s in ["src", "n0", "n1"]:
            open(os.path.join(abswd, s), "w").close()
        from gwf.utils import load_workflow
        seen = {}
        old = os.getcwd()
        for cwd in (proj, nested, other):
            os.chdir(cwd)
            try:
                mods = set(sys.modules)
                wf = load_workflow(Path(os.path.join(proj, "workflow.py")), "gwf")
                for m in set(sys.modules) - mods:
                    sys.modules.pop(m, None)
            finally:
                os.chdir(old)
            seen[cwd] = {t.name: (t.working_dir, t.flattened_inputs(), t.flattened_outputs()) for t in wf.targets.values()}
        # model: names of map targets, working directories, normalised paths
        names = sorted(seen[proj])
        exp_names = sorted(["Direct", "FromTpl", "FromTplWd", "FromTplEmpty"]
                           + [common.unhx(x) for x in common.run_driver(["mapname %s %d" % (hx(b), i) for b, n in (("tpl", 3), ("named", 2), ("Cls", 1)) for i in range(n)])]
                           + ["fn0", "fn2"])
        chk.count("workflow-loaded-from-3-dirs")
        chk.case(("part3", "names"), True, sample={"targets": names})
        if names != exp_names:
            chk.violation({"kind": "map-names"}, {"kind": "input", "input": "map naming", "implementation": names, "model": exp_names,
                                                   "what": "map created other names than <base>_<index> / the naming function"})
        tw = {"Direct": None, "FromTpl": None, "FromTplWd": abswd, "FromTplEmpty": "", "tpl_0": None, "tpl_1": None, "tpl_2": None,
              "named_0": abswd, "named_1": abswd, "fn0": "", "fn2": "", "Cls_0": None}
        lines, keys = [], []
        for cwd in (proj, nested, other):
            for n in names:
                if n not in tw:
                    continue
                for kind, paths, raw in (("in", seen[cwd][n][1], None), ("out", seen[cwd][n][2], None)):
                    keys.append((cwd, n, kind))
        # expected: targetWd then normPath for the declared raw paths
        raw = {"Direct": (["src"], ["sub/direct.out", "./d/../direct2"]), "FromTpl": (["src"], ["src.out"]), "FromTplWd": (["src"], ["src.o2"]),
               "FromTplEmpty": (["src"], ["src.o3"]), "tpl_0": (["m0"], ["m0.out"]), "tpl_1": (["m1"], ["m1.out"]), "tpl_2": (["m2"], ["m2.out"]),
               "named_0": (["n0"], ["n0.o2"]), "named_1": (["n1"], ["n1.o2"]), "fn0": (["p0"], ["p0.o3"]), "fn2": (["p1"], ["p1.o3"]), "Cls_0": (["q0"], ["q0.o4"])}
        wd_lines = ["targetwd %s %s" % ("-" if tw[n] is None else hx(tw[n]), hx(proj)) for n in names if n in tw]
        wds = dict(zip([n for n in names if n in tw], [common.unhx(x) for x in common.run_driver(wd_lines)]))
        q, idx = [], []
        for cwd in (proj, nested, other):
            for n in wds:
                for k, plist in zip(("in", "out"), raw[n]):
                    for p in plist:
                        q.append("path.norm %s %s %s" % (hx(cwd), hx(wds[n]), hx(p)))
                        idx.append((cwd, n, k))
        res = common.run_driver(q)
        exp = {}
        for key, r in zip(idx, res):
            exp.setdefault(key, []).append(common.unhx(r))
        for cwd in (proj, nested, other):
            for n in wds:
                got = {"in": seen[cwd][n][1], "out": seen[cwd][n][2]}
                chk.case(("part3", cwd == proj, cwd == nested, n), cwd != proj and n != "Direct")
                for k in ("in", "out"):
                    if got[k] != exp[(cwd, n, k)] or seen[cwd][n][0] != wds[n]:
                        chk.violation({"kind": "paths-depend-on-cwd", "target": n},
                                      {"kind": "input", "input": {"invoked_from": cwd, "target": n, "project": proj},
                                       "implementation": {"working_dir": seen[cwd][n][0], k: got[k]}, "model": {"working_dir": wds[n], k: exp[(cwd, n, k)]},
                                       "what": "a target's paths depend on the directory gwf is invoked from (or ignore the workflow's working directory)"})
        # CLI: same table and same .gwf location from the three directories
        cl = cluster.FakeCluster(os.path.join(root, "cl"))
        outs = {}
        for cwd, args in ((proj, []), (nested, []), (other, ["-f", os.path.join(proj, "workflow.py")])):
            code, out, err = cluster.run_gwf(args + ["-b", "slurm", "status"], cwd, cl)
            outs[cwd] = (code, out)
            chk.count("cli-from-dir")
        if len(set(outs.values())) != 1 or outs[proj][0] != 0:
            chk.violation({"kind": "cli-depends-on-cwd"}, {"kind": "input", "input": {"project": proj}, "implementation": {k: v for k, v in outs.items()},
                                                             "what": "gwf status differs between invoking directories"})
        stray = [d for d in (nested, other) if os.path.exists(os.path.join(d, ".gwf"))]
        if stray or not os.path.isdir(os.path.join(proj, ".gwf")):
            chk.violation({"kind": "state-dir-location"}, {"kind": "input", "input": {"project": proj}, "implementation": {"stray_state_dirs": stray},
                                                             "what": "the project state directory is not next to the workflow file"})
    finally:
        shutil.rmtree(root, ignore_errors=True)


def part4(chk):
    """duplicate names: direct, template, and collisions inside one map call"""
    from gwf import Workflow, AnonymousTarget
    from gwf.exceptions import GWFError

    def tpl(x):
        return AnonymousTarget(inputs=[], outputs=[x], options={}, spec="")
    cases = [
        ("direct-twice", lambda w: (w.target("A", inputs=[], outputs=["a"]), w.target("A", inputs=[], outputs=["b"])), ["A", "A"]),
        ("template-vs-direct", lambda w: (w.target("A", inputs=[], outputs=["a"]), w.target_from_template("A", tpl("b"))), ["A", "A"]),
        ("map-vs-direct", lambda w: (w.target("tpl_1", inputs=[], outputs=["a"]), w.map(tpl, ["x", "y"])), ["tpl_1", "tpl_0", "tpl_1"]),
        ("map-internal-collision", lambda w: w.map(tpl, ["r1/s.txt", "r2/s.txt", "r3/t.txt"], name=lambda i, t: "S_" + os.path.basename(t.outputs[0]).split(".")[0]), ["S_s", "S_s", "S_t"]),
        ("map-twice", lambda w: (w.map(tpl, ["x"]), w.map(tpl, ["y"])), ["tpl_0", "tpl_0"]),
        ("distinct", lambda w: (w.target("A", inputs=[], outputs=["a"]), w.map(tpl, ["x", "y"], name="B")), ["A", "B_0", "B_1"]),
    ]
    model = common.run_driver(["addall " + " ".join(hx(n) for n in names) for _, _, names in cases])
    for (label, fn, names), m in zip(cases, model):
        w = Workflow(working_dir="/w")
        try:
            fn(w)
            got = "ok %d" % len(w.targets)
        except GWFError:
            got = "err"
        chk.count("duplicate-name-case")
        chk.case(("dup", label), True, sample={"case": label, "names": names, "implementation": got, "model": m} if label == "map-internal-collision" else None)
        if got != m:
            chk.violation({"kind": "duplicate-names", "case": label}, {"kind": "input", "input": {"case": label, "names": names}, "implementation": got,
                                                                        "model": m, "what": "duplicate target names are not rejected (or distinct ones are)"})


def run(chk):
    chk.rule = RULE
    chk.assumptions = ["unicodedata.category(c) == 'Cc' is exactly U+0000-001F and U+007F-009F (checked on the generated characters)",
                       "Workflow() computes its working directory from the calling frame's file (realpath); symlinked project directories are not generated"]
    rng = chk.rng
    n = 4000 if chk.tier == "quick" else 200000
    names = gen_names(rng, n)
    impl = common.pmap(impl_name, names)
    model = common.run_driver_sharded(["validname " + hx(s) for s in names])
    for s, i, m in zip(names, impl, model):
        chk.count("name")
        chk.case(("name", s), s.endswith("\n") or (len(s) > 0 and not s.isascii()) or "." in s)
        if i != m:
            chk.violation({"kind": "name", "trailing_newline": s.endswith("\n")}, common.mismatch_replay("input", {"name": s}, i, m, {"what": "is_valid_name / Target() accepts or rejects a name differently from the model"}))
    paths = gen_paths(rng, n)
    cases = [(k, s) for s in paths for k in ("str", "pl")] + [("pathlib", s) for s in paths[:200] if s and "\x00" not in s]
    impl = common.pmap(impl_path, cases)
    model = dict(zip(paths, common.run_driver_sharded(["validpath " + hx(s) for s in paths])))
    for (k, s), res in zip(cases, impl):
        chk.count("path:" + k)
        eff = os.fspath(PurePosixPath(s)) if k == "pathlib" else s
        exp = (common.run_driver(["validpath " + hx(eff)])[0] if k == "pathlib" and eff != s else model[s]) == "1"
        chk.case(("path", k, s), any(ord(c) < 32 or 127 <= ord(c) <= 160 for c in s))
        for where, r in zip(("inputs", "outputs", "working_dir"), res):
            if r is None:
                continue
            if bool(r) != exp:
                chk.violation({"kind": "path", "where": where, "type": k}, common.mismatch_replay(
                    "input", {"path": s, "as": k, "where": where}, r, exp, {"what": "Target() accepts or rejects a path value differently from the model"}))
    for bad in (b"bytes", 7, None, 3.5, object()):
        from gwf import Target
        try:
            Target(name="T", inputs=[bad] if bad is not None else None, outputs=[], options={}, working_dir="/w")
            ok = True
        except Exception:  # noqa
            ok = False
        chk.count("non-path-value")
        if ok:
            chk.violation({"kind": "non-path-accepted"}, {"kind": "input", "input": repr(bad), "what": "a value that is neither a string nor a path object was accepted as input"})
    part3(chk)
    part4(chk)


def replay(chk, data):
    chk.rule = RULE
    inp = data["input"]
    if isinstance(inp, dict) and "name" in inp:
        i, m = impl_name(inp["name"]), common.run_driver(["validname " + hx(inp["name"])])[0]
        print("implementation", i, "model", m)
        if i != m:
            chk.violation({"kind": "name"}, common.mismatch_replay("input", inp, i, m))
    else:
        run(chk)
    return chk.finish()
