"""C12 — local worker pool (see pool_check.py)."""
import pool_check

PROP = "C12"
RULE = ("histories = corpus + every operation sequence of length 4 [5] over <=3 tasks (enqueue with dependency sets, exit 0/1, cancel, "
        "clock tick) on 1 [1-2] cores + seeded random sequences (<=40 [<=120] operations: enqueue incl. late submissions on finished tasks "
        "and unknown ids, exits with any code, cancels, ticks/time limits, spawn failures, unwritable logs; every third one with "
        "fine-grained settling so cancels hit every await point) on 1-4 cores, run on the REAL Scheduler under a virtual clock; "
        "non-trivial = the history contains a cancel / non-zero exit / spawn failure AND more tasks than cores; distinct by operation sequence")
ASSUME = ["asyncio realises only transitions the LTS allows: validated on the explored schedules (every observed label must be enabled in the model), not proved",
          "the fake subprocess mirrors asyncio.subprocess.Process (communicate/wait/returncode, ProcessLookupError after exit, SIGKILL takes effect at once)",
          "virtual time advances only while the loop is idle"]


def workers_cli(chk):
    """"the configured number of workers": `gwf workers -n N` must hand exactly N to the pool — also above the machine's CPU
    count (a smaller pool leaves configured workers idle while ready tasks wait)"""
    import multiprocessing
    import os
    import shutil
    import cluster
    import common
    import gwf.plugins.workers as W
    root = common.scratch_dir("gwfverif-c12w-")
    seen = []
    real = W.start_cluster
    W.start_cluster = lambda *a, **kw: seen.append((a, kw))
    try:
        proj = os.path.join(root, "proj")
        cluster.write_workflow(proj, [{"name": "A", "inputs": [], "outputs": ["a"], "spec": "touch a"}])
        cl = cluster.FakeCluster(os.path.join(root, "cl"))
        cpus = multiprocessing.cpu_count()
        for n in (1, 2, 3, cpus, cpus + 1, cpus + 3, 97, None):
            del seen[:]
            args = ["workers", "-p", "23456"] + (["-n", str(n)] if n is not None else [])
            code, out, err = cluster.run_gwf(args, proj, cl)
            want = cpus if n is None else n
            got = seen[0][0][1] if seen and len(seen[0][0]) > 1 else seen[0][1].get("max_cores") if seen else None
            chk.count("workers-cli")
            chk.case(("workers", n), n is not None and n > cpus, sample={"requested": n, "pool_cores": got} if n == cpus + 3 else None)
            if code != 0 or got != want:
                chk.violation({"kind": "workers-cli"}, {"kind": "input", "input": {"workers_cli_n": n, "cpu_count": cpus}, "implementation": {"exit": code, "pool_cores": got, "err": err[-200:]},
                                                        "model": want, "what": "gwf workers -n %s starts a pool with %s cores" % (n, got)})
    finally:
        W.start_cluster = real
        shutil.rmtree(root, ignore_errors=True)


def run(chk):
    pool_check.run_prop(chk, PROP, RULE, ASSUME, real_runs=(2 if chk.tier == "quick" else 12))
    workers_cli(chk)


def replay(chk, data):
    if "workers_cli_n" in data.get("input", {}):
        chk.rule = RULE
        workers_cli(chk)
        return chk.finish()
    return pool_check.replay_prop(chk, PROP, RULE, data)
