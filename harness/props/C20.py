"""C20 — configuration round-trips, is project-local, reaches the selected backend.
(a) real FileConfig vs the Lean Config model on generated set/unset/get/namespace/reload sequences;
(b) `gwf config set/get/unset` through the CLI across invocations, from the project root and a subdirectory;
(c) precedence matrix flag x config x default for backend, verbosity, colour; Slurm log_mode /
    accounting switch and local host/port observed through scripts, sacct calls and the connect call."""
import json
import os
import random
import shutil

import cluster
import common
from common import hx

RULE = ("(a) seeded sequences of 4-25 set/unset/get/namespace/reload operations on the real FileConfig over a key pool with shared dotted "
        "prefixes (backend.slurm, backend.slurmx, backend.slurm.log_mode, …) and a value grammar (numeric-looking incl. signs, underscores, "
        "padding, 0x/1e3, boolean words in several cases, empty, text); (b) CLI round trips in fresh invocations from root and nested "
        "directories; (c) the full precedence matrices; non-trivial = the sequence unsets a default-only or absent key AND uses two keys "
        "sharing a prefix; distinct by operation sequence")

KEYS = ["backend", "verbose", "clean_logs", "use_spec_hashes", "no_color", "backend.slurm", "backend.slurm.log_mode",
        "backend.slurm.accounting_enabled", "backend.slurmx.foo", "backend.slurm.x.y", "backend.local.port", "backend.local.host",
        "backend.localx", "a", "a.b", "a.bc", "ab", "", ".", "backend.", "k ey", "ключ"]
VALUES = ["12", "-3", "+4", "0", "007", "1_000", "1__0", "_1", "1_", " 7 ", "\t8\n", "1e3", "0x1f", "1.5", "--1", "+", "-", "",
          "true", "yes", "false", "no", "True", "YES", "on", "off", "none", "None", "null", "info", "debug", "merged", "full",
          "localhost", "12345", "text with spaces", "naïve", "-0", "00", "9" * 30, "slurm", "sge"]


def py_show(v):
    if v is None:
        return "N"
    if isinstance(v, bool):
        return "b1" if v else "b0"
    if isinstance(v, int):
        return "i%d" % v
    return "s" + hx(str(v))


def gen_ops(rng):
    ops = []
    for _ in range(rng.randint(4, 25)):
        r = rng.random()
        k = rng.choice(KEYS)
        if r < 0.4:
            ops.append(("s", k, rng.choice(VALUES)))
        elif r < 0.55:
            ops.append(("u", k))
        elif r < 0.8:
            ops.append(("g", k))
        elif r < 0.92:
            ops.append(("n", rng.choice(["backend.slurm", "backend.local", "backend", "a", "a.b", "backend.slurmx", ""])))
        else:
            ops.append(("r",))
    return ops


def impl_ops(ops):
    from gwf.conf import FileConfig
    d = common.scratch_dir("gwfverif-conf-")
    try:
        path = os.path.join(d, ".gwfconf.json")
        cfg = FileConfig.load(path)
        out = []
        for op in ops:
            try:
                if op[0] == "s":
                    cfg[op[1]] = op[2]
                    out.append("ok")
                elif op[0] == "u":
                    del cfg[op[1]]
                    out.append("ok")
                elif op[0] == "g":
                    v = cfg.get(op[1], "\x00unset")
                    out.append("-" if v == "\x00unset" else py_show(v))
                elif op[0] == "n":
                    ns = cfg.get_namespace(op[1])
                    out.append(",".join(sorted("%s=%s" % (hx(k), py_show(v)) for k, v in ns.items())))
                else:
                    cfg.dump()
                    cfg = FileConfig.load(path)
                    out.append("ok")
            except Exception as exc:  # noqa
                out.append("EXC:" + type(exc).__name__)
        return ";".join(out)
    finally:
        shutil.rmtree(d, ignore_errors=True)


def enc_ops(ops):
    toks = []
    for op in ops:
        if op[0] == "s":
            toks.append("s:%s:%s" % (hx(op[1]), hx(op[2])))
        elif op[0] in ("u", "g", "n"):
            toks.append("%s:%s" % (op[0], hx(op[1])))
        else:
            toks.append("r")
    return "conf.ops " + " ".join(toks)


def nontrivial(ops):
    set_keys = set()
    unset_absent = False
    for op in ops:
        if op[0] == "s":
            set_keys.add(op[1])
        if op[0] == "u" and op[1] not in set_keys:
            unset_absent = True
    shared = any(a != b and (a.startswith(b) or b.startswith(a)) for a in set_keys for b in set_keys)
    return unset_absent and shared


def part_a(chk, n):
    rng = chk.rng
    cases = [gen_ops(rng) for _ in range(n)]
    impl = common.pmap(impl_ops, cases)
    model = common.run_driver_sharded([enc_ops(o) for o in cases])
    for ops, i, m in zip(cases, impl, model):
        chk.count("fileconfig-sequence")
        chk.case(tuple(ops), nontrivial(ops), sample={"ops": ops[:8], "implementation": i[:200], "model": m[:200]} if len(chk.samples) < 2 else None)
        if i != m:
            ii, mm = i.split(";"), m.split(";")
            k = next((j for j in range(min(len(ii), len(mm))) if ii[j] != mm[j]), 0)
            chk.violation({"kind": "fileconfig", "op": ops[k][0]},
                          common.mismatch_replay("history", {"ops": ops}, i, m, {"first_differing_op": k, "op": list(ops[k]),
                                                 "what": "FileConfig differs from the configuration model at operation %d %r" % (k, ops[k])}))


def render_cli(tok):
    if tok == "-":
        return "<not set>"
    if tok == "N":
        return "None"
    if tok.startswith("i"):
        return tok[1:]
    if tok.startswith("b"):
        return "True" if tok == "b1" else "False"
    return common.unhx(tok[1:])


def part_b(chk, n):
    """CLI round trips across invocations, from the root and from a nested directory"""
    rng = chk.rng
    keys = [k for k in KEYS if k and not k.startswith("-") and k not in ("backend", "verbose", "no_color")]
    # scripted histories, the same in every run: a value replaced by one that is EQUAL as a Python object but a different
    # setting (1 / true / yes, 0 / false / no, 10 / 1_0), also on keys that only have a built-in default, unset twice
    fixed = [
        [("s", "a.b", "1"), ("g", "a.b"), ("s", "a.b", "true"), ("g", "a.b"), ("s", "a.b", "1"), ("g", "a.b"), ("s", "a.b", "yes"), ("g", "a.b")],
        [("s", "a.b", "0"), ("g", "a.b"), ("s", "a.b", "no"), ("g", "a.b"), ("s", "a.b", "0"), ("g", "a.b"), ("s", "a.b", "false"), ("g", "a.b")],
        [("s", "ab", "10"), ("s", "ab", "1_0"), ("g", "ab"), ("s", "ab", " 10"), ("g", "ab"), ("s", "ab", "ten"), ("g", "ab")],
        [("g", "clean_logs"), ("s", "clean_logs", "0"), ("g", "clean_logs"), ("s", "clean_logs", "no"), ("g", "clean_logs"), ("u", "clean_logs"), ("g", "clean_logs"), ("u", "clean_logs")],
        [("g", "use_spec_hashes"), ("s", "use_spec_hashes", "0"), ("g", "use_spec_hashes"), ("s", "use_spec_hashes", "1"), ("g", "use_spec_hashes"), ("s", "use_spec_hashes", "true"), ("g", "use_spec_hashes")],
        [("u", "verbose"), ("u", "verbose"), ("g", "verbose"), ("s", "a", "x"), ("u", "a.b"), ("g", "a")],
    ]
    for h in range(-len(fixed), n):
        root = common.scratch_dir("gwfverif-cfgcli-")
        try:
            proj = os.path.join(root, "proj")
            cluster.write_workflow(proj, [{"name": "A", "inputs": [], "outputs": ["a"], "spec": "touch a"}])
            sub = os.path.join(proj, "deep", "er")
            os.makedirs(sub)
            cl = cluster.FakeCluster(os.path.join(root, "cl"))
            ops, toks = [], []
            # few keys per history (one of them usually a key that only has a built-in default) and values that are
            # EQUAL as Python objects although they are different settings (1 / true, 0 / no / false, 10 / 1_0 / " 10")
            hkeys = [rng.choice(["clean_logs", "use_spec_hashes"])] + rng.sample(keys, 2) if h % 2 else rng.sample(keys, 3)
            family = rng.choice([["1", "true", "yes", "01", "+1", "1"], ["0", "no", "false", "00", "-0", "0"], ["10", "1_0", " 10", "10 ", "010"]])
            plan = fixed[h + len(fixed)] if h < 0 else [None] * rng.randint(4, 9)
            for step in plan:
                k = rng.choice(hkeys) if step is None else step[1]
                r = rng.random() if step is None else {"s": 0.1, "u": 0.6, "g": 0.9}[step[0]]
                cwd = rng.choice([proj, sub])
                if r < 0.5:
                    if step is not None:
                        v = step[2]
                    else:
                        v = rng.choice(family) if h % 2 and rng.random() < 0.7 else rng.choice([x for x in VALUES if "\n" not in x and "\t" not in x])
                    code, out, err = cluster.run_gwf(["-b", "slurm", "config", "set", "--", k, v], cwd, cl)
                    ops.append(("s", k, v)); toks.append("s:%s:%s" % (hx(k), hx(v)))
                    got = "ok" if code == 0 else "EXIT%d %s" % (code, err[-200:])
                elif r < 0.7:
                    code, out, err = cluster.run_gwf(["-b", "slurm", "config", "unset", "--", k], cwd, cl)
                    ops.append(("u", k)); toks.append("u:%s" % hx(k))
                    got = "ok" if code == 0 else "EXIT%d %s" % (code, err[-200:])
                else:
                    code, out, err = cluster.run_gwf(["-b", "slurm", "config", "get", "--", k], cwd, cl)
                    ops.append(("g", k)); toks.append("g:%s" % hx(k))
                    got = out.rstrip("\n") if code == 0 else "EXIT%d %s" % (code, err[-200:])
                ops[-1] = ops[-1] + (got,)
            m = common.run_driver(["conf.ops " + " ".join(toks)])[0].split(";")
            chk.count("cli-config-history")
            chk.case(("cli", tuple(ops)), True, sample={"cli_ops": ops[:6]} if h == 0 else None)
            for op, mt in zip(ops, m):
                exp = render_cli(mt) if op[0] == "g" else "ok"
                if op[-1] != exp:
                    chk.violation({"kind": "cli-config", "op": op[0]}, {"kind": "history", "input": {"cli_ops": ops}, "implementation": op[-1],
                                                                        "model": exp, "what": "gwf config %r differs from the model" % (op[:-1],)})
                    break
            if os.path.exists(os.path.join(sub, ".gwfconf.json")) or (any(o[0] in "su" for o in ops) and not os.path.exists(os.path.join(proj, ".gwfconf.json"))):
                chk.violation({"kind": "cli-config-location"}, {"kind": "history", "input": {"cli_ops": ops},
                                                                  "what": "the configuration file is not next to the workflow file"})
        finally:
            shutil.rmtree(root, ignore_errors=True)


def observe_invocation(proj, cl, flags, env_extra=None):
    """run `gwf <flags> run --dry-run` in-process; observe backend used, verbosity, colour switch"""
    import click
    sentinel = lambda s: True  # noqa
    old = click._compat.isatty
    click._compat.isatty = sentinel
    cl.clear_log()
    try:
        code, out, err = cluster.run_gwf(list(flags) + ["run", "--dry-run"], proj, cl, extra_env=env_extra)
        no_color = click._compat.isatty is not sentinel
    finally:
        click._compat.isatty = old
    cmds = {e["cmd"] for e in cl.log()}
    backend = "slurm" if "squeue" in cmds else "sge" if "qstat" in cmds else "lsf" if "bjobs" in cmds else "?"
    plain = cluster_strip(err)
    level = "debug" if "Using '" in plain else ("info" if "Would submit" in plain else "warning-or-higher")
    return {"code": code, "backend": backend, "level": level, "no_color": no_color, "err": err[-300:]}


def cluster_strip(s):
    import re
    return re.sub(r"\x1b\[[0-9;]*m", "", s)


_PREC_CACHE = {}


def prec(flag, conf, dflt):
    """the model's `effective flag conf default` (memoised; one driver call per distinct triple)"""
    key = (flag or "-", conf or "-", dflt)
    if key not in _PREC_CACHE:
        _PREC_CACHE[key] = common.run_driver(["prec %s %s %s" % key])[0]
    return _PREC_CACHE[key]


def part_c(chk):
    # pre-compute all model answers in one batch
    triples = [(f or "-", c or "-", d) for d in ("slurm", "sge", "lsf", "local") for f in (None, "slurm", "sge", "lsf") for c in (None, "slurm", "sge", "lsf")]
    triples += [(f or "-", c or "-", "info") for f in (None, "debug", "warning", "info") for c in (None, "debug", "warning", "info")]
    triples += [(f or "-", c or "-", d) for f in (None, "1", "0") for c in (None, "1", "0") for d in ("0", "1")]
    outs = common.run_driver(["prec %s %s %s" % t for t in triples])
    _PREC_CACHE.update(dict(zip(triples, outs)))
    root = common.scratch_dir("gwfverif-prec-")
    try:
        proj = os.path.join(root, "proj")
        cluster.write_workflow(proj, [{"name": "A", "inputs": [], "outputs": ["a"], "spec": "touch a"}])
        cl = cluster.FakeCluster(os.path.join(root, "cl"))
        # tracked job so that LSF's bjobs is called as well
        os.makedirs(os.path.join(proj, ".gwf"), exist_ok=True)
        for b in ("slurm", "sge", "lsf"):
            with open(os.path.join(proj, ".gwf", "%s-backend-tracked.json" % b), "w") as f:
                json.dump({"A": "999"}, f)
        conf_path = os.path.join(proj, ".gwfconf.json")

        def set_conf(d):
            with open(conf_path, "w") as f:
                json.dump({k: v for k, v in d.items() if v is not None}, f)
        # default backend = gwf's own guess under this PATH
        old_env = dict(os.environ)
        os.environ.update(cl.env())
        try:
            from gwf.backends import guess_backend
            default_backend = guess_backend()[1]
        finally:
            os.environ.clear(); os.environ.update(old_env)
        for fb in (None, "slurm", "sge", "lsf"):
            for cb in (None, "slurm", "sge", "lsf"):
                set_conf({"backend": cb})
                o = observe_invocation(proj, cl, (["-b", fb] if fb else []))
                exp = prec(fb, cb, default_backend)
                chk.count("precedence-backend")
                chk.case(("backend", fb, cb), True, sample={"flag": fb, "config": cb, "observed": o["backend"], "model": exp} if (fb, cb) == ("sge", "lsf") else None)
                if o["backend"] != exp:
                    chk.violation({"kind": "precedence", "setting": "backend"}, {"kind": "input", "input": {"flag": fb, "config": cb, "default": default_backend},
                                  "implementation": o, "model": exp, "what": "backend precedence flag > config > default violated"})
        for fv in (None, "debug", "warning", "info"):
            for cv in (None, "debug", "warning", "info"):
                set_conf({"backend": "slurm", "verbose": cv})
                o = observe_invocation(proj, cl, (["-v", fv] if fv else []))
                eff = prec(fv, cv, "info")
                exp = {"debug": "debug", "info": "info", "warning": "warning-or-higher"}[eff]
                chk.count("precedence-verbosity")
                chk.case(("verbose", fv, cv), True)
                if o["level"] != exp:
                    chk.violation({"kind": "precedence", "setting": "verbose"}, {"kind": "input", "input": {"flag": fv, "config": cv, "default": "info"},
                                  "implementation": o, "model": exp, "what": "verbosity precedence flag > config > default violated"})
        for fc in (None, "--no-color", "--use-color"):
            for cc in (None, True, False):
                for envc in (None, "1"):
                    set_conf({"backend": "slurm", "no_color": cc})
                    o = observe_invocation(proj, cl, ([fc] if fc else []), env_extra=({"NO_COLOR": envc} if envc else {"NO_COLOR": ""}))
                    flag = None if fc is None else ("1" if fc == "--no-color" else "0")
                    conf = None if cc is None else ("1" if cc else "0")
                    exp = prec(flag, conf, "1" if envc else "0")
                    chk.count("precedence-colour")
                    chk.case(("colour", fc, cc, envc), True)
                    if ("1" if o["no_color"] else "0") != exp:
                        chk.violation({"kind": "precedence", "setting": "no_color"}, {"kind": "input", "input": {"flag": fc, "config": cc, "env_NO_COLOR": envc},
                                      "implementation": o, "model": exp, "what": "colour precedence flag > config > default violated"})
        # backend.<name>.* reaches the selected backend and only it
        for log_mode in ("full", "merged", "none"):
            for acct in (True, False):
                set_conf({"backend": "slurm", "backend.slurm.log_mode": log_mode, "backend.slurm.accounting_enabled": acct,
                          "backend.slurmx.log_mode": "none", "backend.sge.bogus": 1})
                # fresh cluster and tracked file for every combination
                cl.write({"next_id": 1000, "jobs": {}, "foreign": [], "faults": [], "calls": {}})
                with open(os.path.join(proj, ".gwf", "slurm-backend-tracked.json"), "w") as f:
                    json.dump({"A": "999"}, f)
                cl.clear_log()
                code, out, err = cluster.run_gwf(["run"], proj, cl)
                log = cl.log()
                sacct = any(e["cmd"] == "sacct" for e in log)
                scripts = [e["stdin"] for e in log if e["cmd"] == "sbatch"]
                chk.count("namespace-slurm")
                chk.case(("slurm-ns", log_mode, acct), True)
                ok_mode = bool(scripts) and all({"full": "--error=" in s and ".stdout" in s, "merged": "--error=" not in s and ".stdout" in s,
                                                 "none": "--output=/dev/null" in s}[log_mode] for s in scripts)
                if code != 0 or sacct != acct or not ok_mode:
                    chk.violation({"kind": "namespace", "backend": "slurm"}, {"kind": "input", "input": {"log_mode": log_mode, "accounting_enabled": acct},
                                  "implementation": {"exit": code, "sacct_called": sacct, "script_ok": ok_mode, "err": err[-300:]},
                                  "what": "backend.slurm.* settings did not reach the Slurm backend (or foreign keys did)"})
        import gwf.backends.local as L
        seen = []
        real = L.Client.connect

        def fake_connect(hostname=L.DEFAULT_HOST, port=L.DEFAULT_PORT, attempts=20):
            seen.append((hostname, port))
            raise ConnectionRefusedError()
        L.Client.connect = classmethod(lambda cls, *a, **k: fake_connect(*a, **k))
        try:
            for host, port in ((None, None), ("example.org", None), (None, 54321), ("10.0.0.7", 4242)):
                set_conf({"backend": "local", "backend.local.host": host, "backend.local.port": port, "backend.localx.port": 1, "backend.slurm.log_mode": "none"})
                del seen[:]
                code, out, err = cluster.run_gwf(["status"], proj, cl)
                chk.count("namespace-local")
                chk.case(("local-ns", host, port), True)
                exp = (host or L.DEFAULT_HOST, port or L.DEFAULT_PORT)
                if seen[:1] != [exp]:
                    chk.violation({"kind": "namespace", "backend": "local"}, {"kind": "input", "input": {"host": host, "port": port},
                                  "implementation": {"connect_calls": seen, "err": err[-300:]}, "model": list(exp),
                                  "what": "backend.local.host/port did not reach the local backend"})
        finally:
            L.Client.connect = real
    finally:
        shutil.rmtree(root, ignore_errors=True)


def run(chk):
    chk.rule = RULE
    chk.assumptions = ["Python's int() is modelled on ASCII strings (Unicode digits / Unicode white space are not generated)",
                       "json round-trips dicts of int/bool/str (dump;load is the identity in the model)"]
    for fn, data in common.load_corpus("C20"):
        ops = [tuple(o) for o in data["input"]["ops"]]
        i, m = impl_ops(ops), common.run_driver([enc_ops(ops)])[0]
        chk.case(tuple(ops), True)
        if i != m:
            chk.violation({"kind": "fileconfig"}, common.mismatch_replay("history", {"ops": ops}, i, m))
    part_a(chk, 5000 if chk.tier == "quick" else 200000)
    part_b(chk, 40 if chk.tier == "quick" else 600)
    part_c(chk)
    if len(chk.distinct) < 300:
        raise common.Broken("degenerate generator")


def replay(chk, data):
    chk.rule = RULE
    inp = data["input"]
    if "ops" in inp:
        ops = [tuple(o) for o in inp["ops"]]
        i, m = impl_ops(ops), common.run_driver([enc_ops(ops)])[0]
        print("implementation:", i)
        print("model:         ", m)
        if i != m:
            chk.violation({"kind": "fileconfig"}, common.mismatch_replay("history", {"ops": ops}, i, m))
    else:
        part_c(chk)
    return chk.finish()
