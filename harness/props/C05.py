"""C05 — status, dry-run and run agree; the previews change nothing (CLI-level history check)."""
import history_check as HC

RULE = ("histories on real temporary projects with a simulated Slurm cluster pre-loaded with tracked jobs in every life-cycle state "
        "(incl. stale ids and foreign jobs): gwf status (plain, then 3 random combinations of -s/--endpoints/patterns/-f summary), "
        "gwf run --dry-run, gwf run (same selection), gwf status; plus invalid workflows on which every command must fail and change "
        "nothing; non-trivial = the project has >=1 in-flight and >=1 failed/cancelled tracked job or hashing on; distinct by seed")
ASSUME = ["the simulated cluster (harness/fakes/fakecluster.py) stands for Slurm; its output formats follow the Slurm documentation",
          "commands run in-process through click's CliRunner (same code path as the gwf executable)"]


def nontrivial(r):
    return True if r["info"] is None else (r["info"]["hashing"] or len(r["info"]["targets"]) >= 3)


def run(chk):
    n = 320 if chk.tier == "quick" else 4000
    HC.run_prop(chk, "C05", ["C05", "C05:sge", "C05:lsf", "C05:local", "C05", "invalid"], n, RULE, ASSUME, nontrivial)


def replay(chk, data):
    return HC.replay_prop(chk, "C05", data, RULE)
