"""C14 — worker pool server survives misbehaving clients and keeps tasks and ids intact.

The REAL `local.Server` + `local.Scheduler` run on a loopback port in a thread of this process.
Part A (deterministic): one request at a time from several connections (two healthy `local.Client`s and
raw-socket adversaries); the same session, classified line by line, goes to the Lean handler model
(`Srv.handle`), whose replies and task table must equal what the healthy clients read.
Part B (chaos): adversaries hammer the server from threads while healthy clients work; the observed
behaviour is checked against the statements of the C14 theorems (unique ids, true states, every accepted
task reaches its final state, side effects on disk, the server still accepts tasks).
"""
import asyncio
import json
import os
import shutil
import socket
import struct
import threading
import time

import common

PROP = "C14"
RULE = ("(A) seeded sessions of 20-60 [40-200] requests over 2 healthy clients and up to 4 raw adversary connections against a live server "
        "(pool with 0 cores: tasks stay submitted; pool with 2 cores: every task runs to its final state before the next request, so a core that a badly shaped request leaks is missed at once): "
        "valid enqueue/state/states/cancel/close, enqueue with extra keys, with missing or wrong-typed fields, unknown kinds, objects without "
        "__kind__, non-objects, invalid UTF-8, truncated JSON, an unterminated partial line followed by a disconnect, a 100 kB line, "
        "cancel / state of unknown, negative, float, boolean, string and unhashable ids, resets (RST) with and without unread replies, "
        "half-closes; (B) chaos runs: 3-6 adversary threads doing the same at full speed (incl. dropping the connection at every point of an "
        "enqueue exchange) while 2 healthy clients submit 6-20 tasks writing marker files; "
        "non-trivial = the session contains >=2 kinds of misbehaviour AND a healthy request after them; distinct by request sequence")
ASSUME = ["the classification of a raw line into a request class (harness, mirroring json.loads + dict.pop) is trusted; it is exercised on every catalogue entry",
          "loopback TCP delivers a sent line before a later request on another connection is answered (two barrier round trips are made after every unanswered request)",
          "`shutdown` is a legitimate administrative request, not misbehaviour, and is not generated",
          "part B interleavings are those the OS produces in the run, not all of them; the theorems quantify over all"]

FIELDS = ("name", "script", "working_dir", "deps")


# ------------------------------------------------------------------ live server

class Live:
    """the REAL pool server (`local.Server` + `local.Scheduler`) in a forked child process on a loopback port; the harness
    talks to it through sockets only, and can always get rid of it (SIGKILL) — a server that a change has turned into a
    busy loop must not slow the rest of the check down"""

    def __init__(self, cores):
        import select
        import signal
        self.root = os.path.realpath(common.scratch_dir("gwfverif-c14-"))
        os.makedirs(os.path.join(self.root, ".gwf", "logs"))
        self.cores = cores
        r, w = os.pipe()
        self.pid = os.fork()
        if self.pid == 0:
            try:
                os.close(r)
                os.setsid()
                self._serve(w)
            finally:
                os._exit(0)
        os.close(w)
        ready, _, _ = select.select([r], [], [], 20)
        data = os.read(r, 64) if ready else b""
        os.close(r)
        if not data:
            self.stop()
            raise common.Broken("pool server did not start")
        self.port = int(data)
        self._signal = signal

    def _serve(self, w):
        import logging
        import warnings
        logging.getLogger("gwf").setLevel(logging.CRITICAL)
        logging.getLogger("asyncio").setLevel(logging.CRITICAL)
        warnings.simplefilter("ignore")
        devnull = os.open(os.devnull, os.O_WRONLY)
        os.dup2(devnull, 2)
        from gwf.backends import local
        loop = asyncio.new_event_loop()
        asyncio.set_event_loop(loop)
        loop.set_exception_handler(lambda loop, ctx: None)

        async def main():
            sched = local.Scheduler(self.root, self.cores)
            server = local.Server(sched)
            sock = socket.socket(socket.AF_INET, socket.SOCK_STREAM)
            sock.bind(("127.0.0.1", 0))
            port = sock.getsockname()[1]
            sock.close()
            fut = asyncio.ensure_future(server.start_server("127.0.0.1", port))
            for _ in range(400):
                await asyncio.sleep(0.01)
                if server.server is not None and server.server.is_serving():
                    break
            os.write(w, str(port).encode())
            os.close(w)
            await fut
        try:
            loop.run_until_complete(main())
        except BaseException:  # noqa
            pass

    def client(self):
        from gwf.backends import local
        s = socket.create_connection(("127.0.0.1", self.port), timeout=10)
        s.setsockopt(socket.IPPROTO_TCP, socket.TCP_NODELAY, 1)      # no Nagle delay: requests reach the server in the order sent
        return local.Client.from_socket(s)

    def raw(self):
        s = socket.create_connection(("127.0.0.1", self.port), timeout=10)
        s.setsockopt(socket.IPPROTO_TCP, socket.TCP_NODELAY, 1)
        return s

    def stop(self):
        import signal
        try:
            os.killpg(self.pid, signal.SIGKILL)       # the server and whatever its tasks still run
        except (ProcessLookupError, PermissionError):
            try:
                os.kill(self.pid, signal.SIGKILL)
            except ProcessLookupError:
                pass
        try:
            os.waitpid(self.pid, 0)
        except ChildProcessError:
            pass
        shutil.rmtree(self.root, ignore_errors=True)


class FakeTarget:
    def __init__(self, name, spec, wd):
        self.name, self.spec, self.working_dir = name, spec, wd


# ------------------------------------------------------------------ request catalogue & classification

def classify(data, ntasks):
    """request class of one received line, as `handle_connection` treats it"""
    if data == b"":
        return "eof"
    if len(data) > 2 ** 16:
        return "nj"       # StreamReader.readline raises on a line above its 64 KiB limit: the handler dies like on garbage
    try:
        msg = json.loads(data)
    except ValueError:
        return "nj"
    if not isinstance(msg, dict):
        return "no"
    if "__kind__" not in msg:
        return "nk"
    kind = msg["__kind__"]
    rest = {k: v for k, v in msg.items() if k != "__kind__"}

    def tid_of(v):
        try:
            hash(v)
        except TypeError:
            return None
        for k in range(ntasks):
            if k == v:
                return k
        return 10 ** 6
    if kind == "enqueue_task":
        if any(f not in rest for f in FIELDS):
            return "eb"
        return "en1" if set(rest) - set(FIELDS) - {"time_limit"} else "en0"
    if kind == "get_task_state":
        if "tid" not in rest:
            return "gsb"
        t = tid_of(rest["tid"])
        return "gsb" if t is None else "gs%d" % t
    if kind == "get_task_states":
        return "gss"
    if kind == "cancel_task":
        if "tid" not in rest:
            return "cab"
        t = tid_of(rest["tid"])
        return "ca%d" % (10 ** 6 if t is None else t)
    if kind == "close":
        return "cl"
    if kind == "shutdown":
        raise AssertionError("shutdown is not generated")
    return "uk1" if rest else "uk0"


def bad_lines(rng, ntasks, wd):
    """one misbehaving line (bytes, ending in a newline)"""
    j = lambda o: json.dumps(o).encode() + b"\n"  # noqa
    unknown = rng.choice([ntasks, ntasks + 7, 99999, -1, -ntasks - 1, 0.5, "0", None, [0], {"a": 1}, "zero", 1e308, True, False, 1.0])
    menu = [
        b"\n", b"   \n", b"\xff\xfe\xfa\n", b"\x00\x00\n", b"{\n", b'{"__kind__": "enqueue_task", "name": "x"\n', b"}{\n", b"not json at all\n",
        b'{"__kind__": "get_task_states"} trailing\n', b"NaN\n", b"[]\n", b"[1, 2, 3]\n", b'"enqueue_task"\n', b"42\n", b"null\n", b"true\n",
        b'["__kind__"]\n', b"{}\n", j({"kind": "enqueue_task"}), j({"__kind": "close"}), j({"tid": 0}),
        j({"__kind__": "bogus"}), j({"__kind__": "bogus", "x": 1}), j({"__kind__": None}), j({"__kind__": 5, "tid": 0}), j({"__kind__": ["enqueue_task"]}),
        j({"__kind__": "ENQUEUE_TASK"}), j({"__kind__": "enqueue_task "}), j({"__kind__": "task_enqueued", "tid": 0}), j({"__kind__": ""}),
        j({"__kind__": "enqueue_task"}), j({"__kind__": "enqueue_task", "name": "x", "script": "true"}),
        j({"__kind__": "enqueue_task", "name": "x", "script": "true", "working_dir": wd}),
        j({"__kind__": "enqueue_task", "name": "x", "script": "true", "deps": [], "time_limit": None}),
        j({"__kind__": "enqueue_task", "Name": "x", "script": "true", "working_dir": wd, "deps": []}),
        j({"__kind__": "get_task_state"}), j({"__kind__": "get_task_state", "id": 0}), j({"__kind__": "get_task_state", "tid": [0]}),
        j({"__kind__": "get_task_state", "tid": {"a": 0}}),
        j({"__kind__": "cancel_task"}), j({"__kind__": "cancel_task", "id": 0}),
        j({"__kind__": "cancel_task", "tid": unknown}), j({"__kind__": "cancel_task", "tid": unknown}),
        j({"__kind__": "get_task_state", "tid": unknown if not isinstance(unknown, (list, dict)) else 77}),
        b"x" * 100000 + b"\n", b'{"__kind__": "get_task_states", "pad": "' + b"y" * 70000 + b'"}\n',
    ]
    return rng.choice(menu)


def rst_close(s):
    try:
        s.setsockopt(socket.SOL_SOCKET, socket.SO_LINGER, struct.pack("ii", 1, 0))
    except OSError:
        pass
    s.close()


# ------------------------------------------------------------------ part A: deterministic sessions

class Session:
    def __init__(self, rng, cores, nreq):
        self.rng, self.cores, self.nreq = rng, cores, nreq
        self.tokens = []          # for the model
        self.log = []             # human-readable session
        self.reads = []           # (conn, observed reply string) for replies the harness read
        self.expect_state = {}    # tid -> expected final state name (64-core pool)
        self.kinds = set()
        self.healthy_after = False

    def run(self):
        live = Live(self.cores)
        try:
            return self._run(live)
        finally:
            live.stop()

    def barrier(self, live):
        for _ in range(2):
            self.ctl.send("get_task_states")
            self.ctl.recv()

    def same_conn_barrier(self, c, send, readline, t):
        """a cancel earns no reply: a state query on the same connection is answered only after it was handled"""
        send(json.dumps({"__kind__": "get_task_state", "tid": t}).encode() + b"\n")
        rep = json.loads(readline())
        self.tokens.append("%d:gs%d" % (c, t))
        self.reads.append((c, "state=" + ("null" if rep["state"] is None else rep["state"].lower())))

    def states_now(self):
        return {int(k): v.name for k, v in self.ctl.status().items()}

    def settle(self, tids):
        """64-core pool: wait until the given tasks are final; emit the model's pool-progress tokens"""
        if self.cores == 0:
            # only tasks failing before the core is requested make progress
            deadline = time.time() + 5
            want = {t: s for t, s in self.expect_state.items() if t in tids and s[1]}
            while time.time() < deadline:
                st = self.states_now()
                if all(st.get(t) not in ("SUBMITTED", "RUNNING") for t in want):
                    break
                time.sleep(0.005)
            for t in sorted(want):
                self.tokens.append("adv:%d:%s" % (t, want[t][0]))
            return
        deadline = time.time() + 6
        while time.time() < deadline:
            st = self.states_now()
            if all(st.get(t) not in ("SUBMITTED", "RUNNING") for t in tids):
                break
            time.sleep(0.005)
        else:
            self.stuck = getattr(self, "stuck", 0) + 1
            if self.stuck >= 2:
                raise RuntimeError("accepted tasks %r do not reach a final state" % (tids,))
        for t in sorted(tids):
            self.tokens.append("adv:%d:%s" % (t, self.expect_state[t][0]))

    def enqueue_payload(self, wd, ntasks, wrong):
        """(payload dict, (expected final state, decided before a core is needed))"""
        rng = self.rng
        ok = rng.random() < 0.7
        script = "exit 0" if ok else "exit 3"
        p = {"name": "t%d" % ntasks, "script": script, "working_dir": wd, "deps": [], "time_limit": None}
        exp = ("completed" if ok else "failed", False)
        if wrong:
            which = rng.choice(["deps-unknown", "deps-str", "deps-int", "deps-unhashable", "script-null", "wd-int", "name-int", "limit-str"])
            self.kinds.add("wrong-typed-enqueue")
            if which == "deps-unknown":
                p["deps"] = [ntasks + 50]; exp = ("failed", True)
            elif which == "deps-str":
                p["deps"] = "abc"; exp = ("failed", True)
            elif which == "deps-int":
                p["deps"] = 5; exp = ("failed", True)
            elif which == "deps-unhashable":
                p["deps"] = [[0]]; exp = ("failed", True)
            elif which == "script-null":
                p["script"] = None; exp = ("failed", False)
            elif which == "wd-int":
                p["working_dir"] = 7; exp = ("failed", False)
            elif which == "name-int":
                p["name"] = 5
            elif which == "limit-str":
                p["time_limit"] = "soon"; exp = ("failed", False)
        return p, exp

    def _run(self, live):
        rng = self.rng
        wd = live.root
        self.ctl = live.client()
        healthy = {0: live.client(), 9: live.client()}
        advs = {}
        readers = {}
        ended = set()
        ntasks = 0
        own = {0: [], 9: []}
        misbehaved = False
        for step in range(self.nreq):
            if rng.random() < 0.45 or not misbehaved and step > self.nreq // 2:
                # ---- adversary
                c = rng.choice([1, 2, 3, 4])
                if c in ended or c not in advs:
                    c = max(list(advs) + [10]) + 1 if c in ended else c
                    advs[c] = live.raw()
                    readers[c] = advs[c].makefile("rb")
                s = advs[c]
                rd = readers[c]
                act = rng.choice(["bad", "bad", "bad", "bad", "enq-extra", "enq-wrong", "enq-drop", "valid-cancel", "valid-states", "rst", "halfclose", "partial", "close"])
                misbehaved = True
                self.healthy_after = False
                try:
                    if act == "bad":
                        line = bad_lines(rng, ntasks, wd)
                        cls = classify(line, ntasks)
                        self.kinds.add(cls.rstrip("0123456789") if cls[:2] in ("gs", "ca") else cls)
                        s.sendall(line)
                        self.tokens.append("%d:%s" % (c, cls))
                        self.log.append("conn %d sends %r -> %s" % (c, line[:80], cls))
                        if cls.startswith("gs") and cls not in ("gsb", "gss"):
                            rep = json.loads(rd.readline())
                            self.reads.append((c, "state=" + ("null" if rep["state"] is None else rep["state"].lower())))
                        if ends(cls, ntasks):
                            ended.add(c)
                        elif cls.startswith("ca"):
                            self.same_conn_barrier(c, s.sendall, rd.readline, int(cls[2:]))
                    elif act in ("enq-extra", "enq-wrong", "enq-drop"):
                        p, exp = self.enqueue_payload(wd, ntasks, act == "enq-wrong")
                        if act == "enq-extra":
                            p["priority"] = "high"
                            self.kinds.add("en1")
                        msg = dict(__kind__="enqueue_task", **p)
                        line = json.dumps(msg).encode() + b"\n"
                        cls = classify(line, ntasks)
                        s.sendall(line)
                        self.tokens.append("%d:%s" % (c, cls))
                        self.log.append("conn %d sends %r -> %s" % (c, line[:120], cls))
                        tid = ntasks
                        ntasks += 1
                        self.expect_state[tid] = exp
                        if act == "enq-drop":
                            self.kinds.add("reset-with-unread-reply")
                            import select
                            select.select([s], [], [], 10)        # the reply is in our socket buffer (so the task was accepted), never read
                            self.reads.append((c, None))
                            rst_close(s)
                            self.tokens.append("%d:eof" % c)
                            self.log.append("conn %d resets without reading the reply" % c)
                            ended.add(c)
                        else:
                            rep = json.loads(rd.readline())
                            self.reads.append((c, "enq=%d" % rep["tid"]))
                            if ends(cls, ntasks):
                                ended.add(c)
                        self.barrier(live)
                        self.settle([tid])
                    elif act == "valid-cancel" and ntasks:
                        t = rng.randrange(ntasks)
                        s.sendall(json.dumps({"__kind__": "cancel_task", "tid": t}).encode() + b"\n")
                        self.tokens.append("%d:ca%d" % (c, t))
                        self.log.append("conn %d cancels %d" % (c, t))
                        self.same_conn_barrier(c, s.sendall, rd.readline, t)
                    elif act == "valid-states":
                        s.sendall(b'{"__kind__": "get_task_states"}\n')
                        rep = json.loads(rd.readline())
                        self.tokens.append("%d:gss" % c)
                        self.reads.append((c, "states=" + ",".join("%s.%s" % (k, v.lower()) for k, v in sorted(rep["tasks"].items(), key=lambda kv: int(kv[0])))))
                        self.log.append("conn %d asks for all states" % c)
                    elif act == "rst":
                        self.kinds.add("reset")
                        rst_close(s)
                        self.tokens.append("%d:eof" % c)
                        self.log.append("conn %d resets" % c)
                        ended.add(c)
                    elif act == "halfclose":
                        self.kinds.add("halfclose")
                        s.shutdown(socket.SHUT_WR)
                        self.tokens.append("%d:eof" % c)
                        self.log.append("conn %d half-closes" % c)
                        ended.add(c)
                    elif act == "partial":
                        self.kinds.add("partial-line")
                        s.sendall(b'{"__kind__": "enqueue_task", "name": "p", "script": "exit 0", "working_dir": "' + wd.encode())
                        s.close()
                        self.tokens.append("%d:nj" % c)
                        self.log.append("conn %d sends half an enqueue request and disconnects" % c)
                        ended.add(c)
                    elif act == "close":
                        s.sendall(b'{"__kind__": "close"}\n')
                        self.tokens.append("%d:cl" % c)
                        self.log.append("conn %d closes properly" % c)
                        ended.add(c)
                except (BrokenPipeError, ConnectionResetError, socket.timeout, ValueError) as exc:
                    # the server ended this connection earlier (the model says when); a later send on it is moot
                    self.log.append("conn %d: %s" % (c, type(exc).__name__))
                    ended.add(c)
                self.barrier(live)
            else:
                # ---- healthy client
                c = rng.choice([0, 9])
                cl = healthy[c]
                self.healthy_after = misbehaved
                act = rng.choice(["submit", "submit", "status", "state", "cancel"])
                if act == "submit":
                    ok = rng.random() < 0.7
                    deps = []
                    if self.cores and own[c] and rng.random() < 0.4:
                        deps = sorted(rng.sample(own[c], min(len(own[c]), rng.randint(1, 2))))
                    tid = cl.submit(FakeTarget("h%d" % ntasks, "exit 0" if ok else "exit 3", wd), deps)
                    self.tokens.append("%d:en0" % c)
                    self.reads.append((c, "enq=%d" % tid))
                    self.log.append("healthy %d submits (deps %s) -> %r" % (c, deps, tid))
                    exp = ("completed" if ok else "failed", False)
                    for d in deps:
                        if self.expect_state[d][0] != "completed":
                            exp = (self.expect_state[d][0], True)
                            break
                    self.expect_state[ntasks] = exp
                    own[c].append(ntasks)
                    ntasks += 1
                    self.settle([ntasks - 1])
                elif act == "status":
                    st = cl.status()
                    self.tokens.append("%d:gss" % c)
                    self.reads.append((c, "states=" + ",".join("%s.%s" % (k, v.name.lower()) for k, v in sorted(st.items(), key=lambda kv: int(kv[0])))))
                    self.log.append("healthy %d status" % c)
                elif act == "state" and ntasks:
                    t = rng.randrange(ntasks)
                    cl.send("get_task_state", tid=t)
                    kind, rep = cl.recv()
                    self.tokens.append("%d:gs%d" % (c, t))
                    self.reads.append((c, "state=" + ("null" if rep["state"] is None else rep["state"].lower())))
                    self.log.append("healthy %d state of %d" % (c, t))
                elif act == "cancel" and ntasks:
                    t = rng.randrange(ntasks)
                    cl.cancel(t)
                    self.tokens.append("%d:ca%d" % (c, t))
                    self.log.append("healthy %d cancels %d" % (c, t))
                    self.same_conn_barrier(c, lambda b: (cl.writer.write(b.decode()), cl.writer.flush()), cl.reader.readline, t)
        # closing observation by a fresh client: the table, and the server still accepts a task
        fresh = live.client()
        st = fresh.status()
        self.tokens.append("1000:gss")
        self.reads.append((1000, "states=" + ",".join("%s.%s" % (k, v.name.lower()) for k, v in sorted(st.items(), key=lambda kv: int(kv[0])))))
        tid = fresh.submit(FakeTarget("last", "exit 0", wd), [])
        self.tokens.append("1000:en0")
        self.reads.append((1000, "enq=%d" % tid))
        self.final_table = ",".join(v.name.lower() for k, v in sorted(st.items(), key=lambda kv: int(kv[0])))
        return self


def compare(sess, model_line):
    """model replies against what the harness read (None = a reply the client deliberately never read)"""
    if " | " not in model_line:
        return "model rejected the session: " + model_line
    replies = [r for r in model_line.split(" | ")[0].split(" ") if r]
    got = sess.reads
    for k in range(max(len(replies), len(got))):
        if k >= len(got):
            return "model reply %s was never delivered" % replies[k]
        c, rep = got[k]
        if k >= len(replies):
            return "implementation reply %s:%s is not predicted by the model" % (c, rep)
        mc, mrep = replies[k].split(":", 1)
        if int(mc) != c or (rep is not None and mrep != rep):
            return "reply differs: model %s, implementation %s:%s" % (replies[k], c, rep)
    return None


def ends(cls, ntasks):
    """request classes after which the harness never uses the connection again"""
    if cls in ("eof", "nj", "no", "nk", "uk1", "eb", "en1", "gsb", "cab", "cl"):
        return True
    return cls.startswith("ca") and int(cls[2:]) >= ntasks


def one_session(args):
    import random
    seed, cores, nreq = args
    sess = Session(random.Random(seed), cores, nreq)
    try:
        sess.run()
    except Exception as exc:  # noqa — a healthy client that gets no / a wrong answer is a finding, not a crash
        sess.crash = "%s: %s" % (type(exc).__name__, exc)
    return {"seed": seed, "cores": cores, "nreq": nreq, "tokens": sess.tokens, "reads": sess.reads, "log": sess.log,
            "kinds": sorted(sess.kinds), "healthy_after": sess.healthy_after, "crash": getattr(sess, "crash", None)}


def check_sessions(chk, results):
    model = common.run_driver(["srv " + " ".join(r["tokens"]) for r in results]) if results else []
    for r, m in zip(results, model):
        chk.count("session-cores-%d" % r["cores"])
        for k in r["kinds"]:
            chk.count("misbehaviour:" + k)
        chk.case(("A", tuple(r["tokens"])), len(r["kinds"]) >= 2 and r["healthy_after"],
                 sample={"session": r["log"][:12], "model": m[:200]} if len(r["kinds"]) >= 4 else None)

        class S:  # noqa
            pass
        s = S()
        s.reads, s.tokens = [tuple(x) for x in r["reads"]], r["tokens"]
        problem = r["crash"] and ("a healthy client failed: " + r["crash"]) or compare(s, m)
        if problem:
            chk.violation({"kind": "session", "problem": problem.split(":")[0]},
                          {"kind": "history", "part": "A", "seed": r["seed"], "cores": r["cores"], "nreq": r["nreq"], "session": r["log"],
                           "model_tokens": r["tokens"], "implementation_replies": r["reads"], "model": m, "what": problem})


# ------------------------------------------------------------------ part B: chaos

def chaos(args):
    import random
    seed, nadv, ntask = args
    rng = random.Random(seed)
    live = Live(4)
    out = {"seed": seed, "nadv": nadv, "ntask": ntask, "problems": [], "adv_actions": 0, "adv_tids": []}
    try:
        wd = live.root
        stop = threading.Event()
        lock = threading.Lock()

        def adversary(k):
            r = random.Random(seed * 100 + k)
            while not stop.is_set():
                try:
                    s = live.raw()
                    rd = s.makefile("rb")
                    for _ in range(r.randint(1, 4)):
                        act = r.choice(["bad", "bad", "enq-noread", "enq-rst-early", "enq-read", "partial", "rst", "cancel-unknown", "idle"])
                        with lock:
                            out["adv_actions"] += 1
                            if act.startswith("enq"):
                                out["adv_enq"] = out.get("adv_enq", 0) + 1
                                if out["adv_enq"] > 120:
                                    act = "bad"
                        time.sleep(0.0005)
                        if act == "bad":
                            while True:     # cancelling an EXISTING task is a legitimate request, not misbehaviour: only unknown ids here
                                line = bad_lines(r, 10 ** 5, wd)
                                cls = classify(line, 10 ** 5)
                                if not (cls.startswith("ca") and cls != "cab" and int(cls[2:]) < 10 ** 5):
                                    break
                            s.sendall(line)
                        elif act in ("enq-noread", "enq-rst-early", "enq-read"):
                            marker = os.path.join(wd, "adv-%d-%d" % (k, r.randrange(10 ** 9)))
                            s.sendall(json.dumps({"__kind__": "enqueue_task", "name": "a%d" % k, "script": "echo x > %s" % marker, "working_dir": wd,
                                                  "deps": [], "time_limit": None}).encode() + b"\n")
                            if act == "enq-read":
                                for _ in range(6):      # earlier lines of this connection may have earned replies too
                                    rep = json.loads(rd.readline())
                                    if rep.get("__kind__") == "task_enqueued":
                                        with lock:
                                            out["adv_tids"].append(rep["tid"])
                                        break
                            elif act == "enq-rst-early":
                                rst_close(s)
                                break
                            else:
                                s.close()
                                break
                        elif act == "partial":
                            s.sendall(b'{"__kind__": "cancel_task", "tid"')
                            s.close()
                            break
                        elif act == "rst":
                            rst_close(s)
                            break
                        elif act == "cancel-unknown":
                            s.sendall(json.dumps({"__kind__": "cancel_task", "tid": r.choice([10 ** 6, -5, "x", None, [1]])}).encode() + b"\n")
                        elif act == "idle":
                            time.sleep(0.001)
                    else:
                        r.choice([s.close, lambda: rst_close(s), lambda: None])()
                except (OSError, ValueError):
                    pass
        threads = [threading.Thread(target=adversary, args=(k,), daemon=True) for k in range(nadv)]
        for t in threads:
            t.start()
        results = {}

        def healthy(k):
            r = random.Random(seed * 1000 + k)
            try:
                cl = live.client()
                mine = {}
                for i in range(ntask):
                    ok = r.random() < 0.75
                    marker = os.path.join(wd, "h-%d-%d" % (k, i))
                    deps = []
                    if mine and r.random() < 0.3:
                        deps = [r.choice(list(mine))]
                    tid = cl.submit(FakeTarget("h%d_%d" % (k, i), ("echo x > %s" % marker) + ("" if ok else "; exit 2"), wd), deps)
                    exp = "COMPLETED" if ok else "FAILED"
                    if deps and mine[deps[0]][0] != "COMPLETED":
                        exp, marker = mine[deps[0]][0], None
                    mine[tid] = (exp, marker)
                    if r.random() < 0.5:
                        st = cl.status()
                        for t in mine:
                            if str(t) not in st:
                                results.setdefault("problems", []).append("task %r submitted by a healthy client is missing from the state table" % t)
                    if r.random() < 0.2:
                        time.sleep(0.002)
                results[k] = mine
                cl.close()
            except Exception as exc:  # noqa
                results.setdefault("problems", []).append("healthy client %d failed: %s: %s" % (k, type(exc).__name__, exc))
        hs = [threading.Thread(target=healthy, args=(k,), daemon=True) for k in range(2)]
        for t in hs:
            t.start()
        for t in hs:
            t.join(30)
            if t.is_alive():
                out["problems"].append("a healthy client got no answer within 30 s")
        stop.set()
        for t in threads:
            t.join(10)
        out["problems"] += results.get("problems", [])
        # quiescence, then the truth from a fresh client
        fresh = None
        try:
            fresh = live.client()
            deadline = time.time() + 30
            while True:
                st = fresh.status()
                if all(v.name not in ("SUBMITTED", "RUNNING") for v in st.values()) or time.time() > deadline:
                    break
                time.sleep(0.02)
            live_left = [k for k, v in st.items() if v.name in ("SUBMITTED", "RUNNING")]
            if live_left:
                out["problems"].append("accepted tasks never reached a final state: %s" % live_left[:5])
            all_tids = []
            for k in (0, 1):
                for tid, (exp, marker) in results.get(k, {}).items():
                    all_tids.append(tid)
                    got = st.get(str(tid))
                    if got is None or got.name != exp:
                        out["problems"].append("task %r of healthy client %d: state %s, expected %s" % (tid, k, got and got.name, exp))
                    if marker and not os.path.exists(marker):
                        out["problems"].append("task %r of healthy client %d left no marker file" % (tid, k))
            all_tids += out["adv_tids"]
            if len(set(all_tids)) != len(all_tids):
                out["problems"].append("two accepted tasks share an id: %s" % sorted(t for t in set(all_tids) if all_tids.count(t) > 1)[:5])
            if sorted(int(k) for k in st) != list(range(len(st))):
                out["problems"].append("state table keys are not 0..n-1")
            tid = fresh.submit(FakeTarget("after", "exit 0", wd), [])
            if tid in all_tids or str(tid) in st:
                out["problems"].append("a new task got the id %r of an earlier task" % tid)
            out["tasks"] = len(st)
        except Exception as exc:  # noqa
            out["problems"].append("the server no longer answers a fresh client: %s: %s" % (type(exc).__name__, exc))
    finally:
        live.stop()
    return out


def run(chk):
    chk.rule = RULE
    chk.assumptions = ASSUME
    quick = chk.tier == "quick"
    base = chk.rng.randrange(10 ** 9)
    # catalogue self-test: every classified class is one the model knows
    import random
    r0 = random.Random(1)
    classes = set()
    for _ in range(2000):
        classes.add(classify(bad_lines(r0, 3, "/w"), 3).rstrip("0123456789"))
    chk.count("catalogue-classes", len(classes))
    for fn, entry in common.load_corpus(PROP):
        if entry.get("part") == "A":
            check_sessions(chk, [one_session((entry["seed"], entry["cores"], entry["nreq"]))])
        elif entry.get("part") == "B":
            res = chaos((entry["seed"], entry["nadv"], entry["ntask"]))
            if res["problems"]:
                chk.violation({"kind": "chaos", "corpus": fn}, dict(entry, problems=res["problems"][:10], what="under misbehaving clients: " + res["problems"][0]))
        chk.count("corpus")
    nA = 240 if quick else 4000
    args = [(base + i, 0 if i % 2 else 2, chk.rng.randint(20, 60) if quick else chk.rng.randint(40, 200)) for i in range(nA)]
    for k in range(0, len(args), 48):        # in batches: a broken server makes every session wait for its time-outs
        check_sessions(chk, common.pmap(one_session, args[k:k + 48], procs=12))
        if chk.violations:
            chk.notes.append("stopped after the first batch with violations")
            break
    nB = 32 if quick else 400
    if chk.violations:
        nB = 2
    for res in common.pmap(chaos, [(base + 7 * i, 3 + i % 4, 6 + (i * 5) % 15) for i in range(nB)], procs=8, chunk=1):
        chk.count("chaos-run")
        chk.count("chaos-adversary-actions", res["adv_actions"])
        chk.count("chaos-tasks", res.get("tasks", 0))
        chk.case(("B", res["seed"]), res["adv_actions"] > 20, sample={"adversary_actions": res["adv_actions"], "tasks": res.get("tasks")} if res["seed"] == base else None)
        if res["problems"]:
            chk.violation({"kind": "chaos", "problem": res["problems"][0].split(":")[0][:60]},
                          {"kind": "history", "part": "B", "seed": res["seed"], "nadv": res["nadv"], "ntask": res["ntask"], "problems": res["problems"][:10],
                           "what": "under misbehaving clients: " + res["problems"][0]})


def replay(chk, data):
    chk.rule = RULE
    if data.get("part") == "A":
        check_sessions(chk, [one_session((data["seed"], data["cores"], data["nreq"]))])
    elif data.get("part") == "B":
        res = chaos((data["seed"], data["nadv"], data["ntask"]))
        print("problems:", res["problems"])
        if res["problems"]:
            chk.violation({"kind": "chaos"}, dict(data, problems=res["problems"]))
    else:
        run(chk)
    return chk.finish()
