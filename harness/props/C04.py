"""C04 — validation accepts exactly well-formed workflows and names the defect otherwise.
Correspondence: real Graph.from_targets on target sets with planted defects vs the Lean model;
predicate p.C04 (independent duplicate / source / Kahn-acyclicity tests) on the observed verdict;
depth runs (thousands of chained targets) through from_targets, get_status_map, touch_workflow."""
import os
import tempfile
import shutil

import common
import gen
import impl_core
from props import C02

RULE = ("cases = corpus + seeded random target sets with planted defects (self-loop, k-cycle at a random position reachable or not "
        "from the first-defined target, duplicate producer through different spellings, missing source) and without; plus chains of "
        "thousands of targets in forward and reverse definition order, and ladders (40 [200] layers of 2 targets, each reading both "
        "outputs of the layer below: 2**layers dependency paths) that must return within 60 s; non-trivial = the set has a planted defect or a dependency "
        "whose producer is defined AFTER its consumer; distinct by canonical encoding")


def impl_verdict(proj):
    line = impl_core.impl_graph(proj)[0]
    if line.startswith("ok "):
        return "ok"
    return line.split(" ", 1)[1]


def back_reference(proj):
    seen_out = set()
    for t in proj["targets"]:
        for p in gen.flatten_shape(t["inputs"]):
            base = os.path.basename(p.rstrip("/"))
            if base.startswith("o") and base not in seen_out:
                return True
        for p in gen.flatten_shape(t["outputs"]):
            seen_out.add(os.path.basename(p.rstrip("/")))
    return False


def check_sets(chk, projs, label):
    verdicts = common.pmap(impl_verdict, projs)
    dl = []
    for p, v in zip(projs, verdicts):
        enc = impl_core.enc_proj(p)
        dl.append("wf.graph " + enc)
        dl.append("p.C04 %s K %s" % (enc, v if v in ("ok", "multi", "unresolved", "cycle") else "other"))
    out = common.run_driver_sharded(dl)
    for i, (p, v) in enumerate(zip(projs, verdicts)):
        ml, pred = out[2 * i], out[2 * i + 1]
        mv = "ok" if ml.startswith("ok ") else ml.split(" ", 1)[1]
        chk.count(label)
        chk.count("verdict:" + v)
        chk.case(impl_core.enc_proj(p), bool(p.get("planted")) or back_reference(p),
                 sample={"project": p, "implementation": v, "model": mv} if i % 397 == 5 else None)
        if pred != "ok":
            chk.violation({"kind": "verdict", "conjunct": pred, "impl": v}, common.mismatch_replay(
                "input", p, v, mv, {"predicate": pred, "what": "p.C04 fails on the verdict of Graph.from_targets"}))
        elif v != mv:
            # both verdicts name a defect that applies (several defects present): harmless precedence difference
            chk.count("divergence")
            chk.proof.failed.append("correspondence wf.graph (verdict) disagrees: impl=%s model=%s" % (v, mv))
            chk.proof.ok = False
            chk.notes.append({"divergence": {"project": p, "implementation": v, "model": mv}})


def chain_project(n, reverse, cyc=False):
    ts = []
    for i in range(n):
        ts.append({"name": "T%05d" % i, "wd": "/w", "inputs": ["f%d" % i], "outputs": ["f%d" % (i + 1)], "protect": [],
                   "spec": "", "bstat": "u", "specflag": 0})
    if cyc:
        ts[0]["inputs"] = ["f%d" % n]
    if reverse:
        ts = ts[::-1]
    return {"cwd": "/w", "targets": ts, "fs": {} if cyc else {"/w/f0": 0}, "endpoints": None, "hashing": False,
            "planted": ["cycle%d" % n] if cyc else []}


def depth_runs(chk, n):
    """the real code on deep chains: graph building, status map, touch"""
    from gwf.core import Graph, NoopSpecHashes
    from gwf.plugins.touch import touch_workflow
    for reverse in (False, True):
        for cyc in (False, True):
            p = chain_project(n, reverse, cyc)
            chk.count("depth-run")
            il = C02.impl_case(p)
            ml = common.run_driver(["wf.plan " + impl_core.enc_proj(p)], timeout=900)[0]
            chk.case(("depth", n, reverse, cyc), True, sample={"chain_length": n, "reverse_definition_order": reverse, "cycle": cyc,
                                                               "implementation": il[:60], "model": ml[:60]})
            if il != ml:
                sig = {"kind": "depth", "impl": il.split(" ")[0]}
                chk.violation(sig, {"kind": "input", "input": {"chain_length": n, "reverse": reverse, "cycle": cyc},
                                    "implementation": il[:300], "model": ml[:300],
                                    "what": "graph building / status computation crashes or differs on a deep chain"})
        # touch on a real directory
        d = common.scratch_dir()
        try:
            p = chain_project(n, reverse)
            for t in p["targets"]:
                t["wd"] = d
            p["fs"] = {os.path.join(d, "f0"): 0}
            open(os.path.join(d, "f0"), "w").close()
            targets = impl_core.make_targets(p)
            from gwf.core import CachedFilesystem
            try:
                g = Graph.from_targets({t.name: t for t in targets}, CachedFilesystem())
                touch_workflow(g.endpoints(), g, NoopSpecHashes())
                made = len(os.listdir(d))
            except RecursionError:
                made = -1
            chk.count("depth-touch")
            if made != n + 1:
                chk.violation({"kind": "depth-touch"}, {"kind": "input", "input": {"chain_length": n, "reverse": reverse},
                                                        "implementation": "files=%d" % made, "model": "files=%d" % (n + 1),
                                                        "what": "gwf touch crashes or misses outputs on a deep chain"})
        finally:
            shutil.rmtree(d, ignore_errors=True)


def ladder_project(layers, width, reverse, cyc=False):
    """`layers` layers of `width` targets, each reading ALL outputs of the layer below: few targets, but the number of
    dependency PATHS is width**layers — validation must cost per target, not per path"""
    ts = []
    for k in range(layers):
        for j in range(width):
            ins = ["src"] if k == 0 else ["o%d_%d" % (k - 1, x) for x in range(width)]
            ts.append({"name": "L%03d_%d" % (k, j), "wd": "/w", "inputs": ins, "outputs": ["o%d_%d" % (k, j)], "protect": [],
                       "spec": "", "bstat": "u", "specflag": 0})
    if cyc:
        ts[0]["inputs"] = ["o%d_0" % (layers - 1)]
    if reverse:
        ts = ts[::-1]
    return {"cwd": "/w", "targets": ts, "fs": {"/w/src": 0}, "endpoints": None, "hashing": False, "planted": ["cycle"] if cyc else []}


class _Timeout(BaseException):
    pass


def width_runs(chk, layers):
    """wide-and-deep DAGs: the real graph building + scheduling pass must return (within 60 s) with the model's verdict"""
    import signal

    def on_alarm(signum, frame):
        raise _Timeout()
    old = signal.signal(signal.SIGALRM, on_alarm)
    try:
        for reverse in (False, True):
            for cyc in (False, True):
                p = ladder_project(layers, 2, reverse, cyc)
                chk.count("width-run")
                signal.alarm(60)
                try:
                    il = C02.impl_case(p)
                except _Timeout:
                    il = "did-not-terminate-within-60s"
                finally:
                    signal.alarm(0)
                ml = common.run_driver(["wf.plan " + impl_core.enc_proj(p)], timeout=900)[0]
                chk.case(("width", layers, reverse, cyc), True, sample={"layers": layers, "width": 2, "reverse_definition_order": reverse, "cycle": cyc,
                                                                        "implementation": il[:60], "model": ml[:60]} if not reverse and not cyc else None)
                if C02.canon_plan(il) != C02.canon_plan(ml):
                    chk.violation({"kind": "width", "impl": il.split(" ")[0]},
                                  {"kind": "input", "input": {"ladder_layers": layers, "width": 2, "reverse": reverse, "cycle": cyc},
                                   "implementation": il[:300], "model": ml[:300],
                                   "what": "graph building / cycle check / scheduling does not return or differs on a DAG with %d targets and 2**%d dependency paths" % (2 * layers, layers)})
    finally:
        signal.signal(signal.SIGALRM, old)


def run(chk):
    chk.rule = RULE
    chk.assumptions = ["'terminates without crashing at any size' is a statement about the interpreter's stack: the theorems prove termination and "
                       "the verdict of the model for every size; the real code is run on chains of 3 000 (quick) / 20 000 (thorough) targets",
                       "invalid-workflow histories run the real CLI (status, dry-run, run, touch, clean, cancel) against a simulated Slurm cluster"]
    for fn, data in common.load_corpus("C04"):
        check_sets(chk, [data["input"] if "input" in data else data], "corpus")
    rng = chk.rng
    n = 4000 if chk.tier == "quick" else 120000
    projs = []
    for i in range(n):
        r = i % 10
        defects = {0: {"cycle"}, 1: {"self"}, 2: {"multi"}, 3: {"missing"}, 4: {"cycle", "multi"}, 5: {"cycle", "missing"}}.get(r)
        projs.append(gen.gen_dag_project(rng, nmax=9 if chk.tier == "quick" else 25, spellings=(i % 2 == 0), multi_wd=(i % 3 == 0),
                                         defects=defects, p_missing=0.3))
    for k in range(0, len(projs), 25000):
        check_sets(chk, projs[k:k + 25000], "random")
    depth_runs(chk, 3000 if chk.tier == "quick" else 20000)
    width_runs(chk, 40 if chk.tier == "quick" else 200)
    # CLI level: every command on an invalid workflow fails with the graph's error and changes nothing
    import history_check as HC
    rule, assume = chk.rule, chk.assumptions
    HC.run_prop(chk, "C04", ["invalid", "C05", "invalid", "C16"], 96 if chk.tier == "quick" else 900, rule, assume, lambda r: True)
    for v in ("ok", "multi", "unresolved", "cycle"):
        if chk.counters.get("verdict:" + v, 0) < 20:
            raise common.Broken("degenerate generator: verdict %s hardly reached" % v)


def replay(chk, data):
    chk.rule = RULE
    if "focus" in data.get("input", {}):
        import history_check as HC
        return HC.replay_prop(chk, "C04", data, RULE)
    if "ladder_layers" in data.get("input", {}):
        width_runs(chk, data["input"]["ladder_layers"])
        return chk.finish()
    if "targets" in data.get("input", {}):
        check_sets(chk, [data["input"]], "replay")
    else:
        depth_runs(chk, data["input"]["chain_length"])
    return chk.finish()
