"""C18 — CLI-level history check (see history.py / history_check.py)."""
import history_check as HC

RULE = 'histories of 5-12 steps among run (with a rejected submission at position 1-2), dry-run, status, touch, clean, spec edit, enable/disable hashing, rename/remove a target; the spec-hash file is parsed after every command; non-trivial = hashing was on at some point and >=3 targets'
ASSUME = ["the simulated cluster (harness/fakes/fakecluster.py) stands for the schedulers; output formats and dependency semantics follow their documentation",
          "commands run in-process through click's CliRunner (same code path as the gwf executable)",
          "file modification times are set with os.utime to distinct integer seconds so that order is observable"]


def nontrivial(r):
    return r["info"] is not None and len(r["info"]["targets"]) >= 3


def run(chk):
    n = 160 if chk.tier == "quick" else 1500
    HC.run_prop(chk, "C18", ["C18"], n, RULE, ASSUME, nontrivial)


def replay(chk, data):
    return HC.replay_prop(chk, "C18", data, RULE)
