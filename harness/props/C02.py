"""C02 — submission plan.  Correspondence: real schedule() vs the Lean model (status map and
multiset of submissions), plus the property predicate p.C02 evaluated on the implementation's
observed behaviour for every explored case."""
import itertools
import random

import common
from common import hx
import gen
import impl_core

RULE = ("cases = corpus + bounded-exhaustive small DAGs (all edge sets on <=3 topologically numbered targets x "
        "backend-state vectors x stale flags x endpoint choices) + seeded random DAG projects (spellings, shapes, "
        "diamonds, several endpoints, disconnected parts) + (pattern, name) pairs with patterns derived from names by "
        "glob mutations (*, ?, classes, negations, ranges incl. reversed and dangling, unclosed brackets) through the real NameFilter "
        "+ CLI histories with pattern selections; a case is non-trivial when at least one target is in flight "
        "or failed/cancelled AND at least one target is stale or missing an output; distinct by canonical encoding")


def small_project(n, edges, order, bst, stale, eps):
    """abstract DAG realised with files: target i produces o<i>; stale = output missing"""
    names = ["T%d" % order[i] for i in range(n)]
    targets = []
    fs = {}
    for i in range(n):
        if not stale[i]:
            fs["/w/o%d" % i] = 0
    for i in range(n):
        targets.append({"name": names[i], "wd": "/w", "inputs": ["o%d" % j for j in range(n) if (j, i) in edges],
                        "outputs": ["o%d" % i], "protect": [], "spec": "", "bstat": bst[i], "specflag": 0})
    return {"cwd": "/w", "targets": targets, "fs": fs, "endpoints": None if eps is None else [names[i] for i in eps],
            "hashing": False}


def enumerate_small(tier):
    nmax = 3
    bset = "usrcfx" if tier == "thorough" else "usfc"
    for n in range(1, nmax + 1):
        pairs = [(i, j) for i in range(n) for j in range(i + 1, n)]
        orders = list(itertools.permutations(range(n))) if tier == "thorough" else [tuple(range(n)), tuple(reversed(range(n)))]
        for k in range(len(pairs) + 1):
            for edges in itertools.combinations(pairs, k):
                es = set(edges)
                for order in orders:
                    for bst in itertools.product(bset, repeat=n):
                        for stale in itertools.product([0, 1], repeat=n):
                            ep_choices = [None] + [[i] for i in range(n)]
                            if tier == "thorough" and n == 3:
                                ep_choices += [[0, 1], [0, 2], [1, 2]]
                            for eps in ep_choices:
                                yield small_project(n, es, order, bst, stale, eps)


def nontrivial(proj):
    b = [t["bstat"] for t in proj["targets"]]
    inflight_or_failed = any(x in "srfx" for x in b)
    outs = [p for t in proj["targets"] for p in gen.flatten_shape(t["outputs"])]
    stale = any(t["specflag"] for t in proj["targets"]) or len(proj["fs"]) < len(outs) + 0
    return inflight_or_failed and stale


def impl_case(proj):
    return impl_core.impl_plan(proj)


def canon_plan(line):
    """status map + sorted multiset of (target, sorted prerequisites)"""
    if not line.startswith("ok "):
        return line
    parts = dict(x.split("=", 1) for x in line[3:].split(" "))
    log = sorted((e.split(":")[0], ",".join(sorted(e.split(":")[1].split(",")))) for e in parts["log"].split(";") if e)
    return "ok status=%s log=%s" % (parts["status"], log)


def observed_tokens(line):
    parts = dict(x.split("=", 1) for x in line[3:].split(" "))
    return "S L%s G L%s" % (parts["status"], parts["log"])


def check_cases(chk, projs, label):
    impl_lines = common.pmap(impl_case, projs)
    dl = []
    for p, il in zip(projs, impl_lines):
        enc = impl_core.enc_proj(p)
        dl.append("wf.plan " + enc)
        dl.append(("p.C02 " + enc + " " + observed_tokens(il)) if il.startswith("ok ") else "ping")
    out = common.run_driver_sharded(dl)
    for i, (p, il) in enumerate(zip(projs, impl_lines)):
        ml, pred = out[2 * i], out[2 * i + 1]
        chk.count(label)
        chk.count("impl:" + il.split(" ")[0] + (":" + il.split(" ")[1] if il.startswith("err") else ""))
        chk.case(impl_core.enc_proj(p), nontrivial(p), sample={"project": p, "implementation": il, "model": ml} if i % 997 == 0 else None)
        if il.startswith("ok ") and pred != "ok":
            chk.violation({"kind": "plan", "conjunct": pred},
                          common.mismatch_replay("input", p, il, ml, {"predicate": pred, "what": "property predicate p.C02 fails on the implementation's observed plan"}))
        elif canon_plan(il) != canon_plan(ml):
            chk.count("divergence")
            if il in ("raise", "recursion") or il.startswith("err other"):
                chk.violation({"kind": "crash", "impl": il}, common.mismatch_replay("input", p, il, ml, {"what": "scheduling pass raised on a validated workflow"}))
            else:
                chk.proof.failed.append("correspondence wf.plan disagrees on a case where p.C02 holds")
                chk.proof.ok = False
                chk.notes.append({"harmless_divergence": {"project": p, "implementation": il, "model": ml}})


class _Named:
    def __init__(self, name):
        self.name = name

    def __hash__(self):
        return hash(self.name)


def gen_pattern_pair(rng):
    """(pattern, name): the pattern is derived from a name by glob-style mutations, so matches are frequent"""
    alpha = "AaBb1_.9"
    name = rng.choice("AaBb_") + "".join(rng.choice(alpha) for _ in range(rng.randint(0, 5)))
    base = name if rng.random() < 0.7 else rng.choice("AaBb_") + "".join(rng.choice(alpha) for _ in range(rng.randint(0, 5)))
    out = []
    i = 0
    while i < len(base):
        c = base[i]
        r = rng.random()
        if r < 0.45:
            out.append(c)
        elif r < 0.55:
            out.append("?")
        elif r < 0.70:
            out.append("*")
            i += rng.randint(0, 2)
        elif r < 0.90:
            body = rng.choice([c, c + "x", "x" + c, "A-Z", "a-z", "0-9", "a-b-c", c + "-", "-" + c, "z-a", "]" + c, "^" + c, "!" + c, "!x", "!", "", "A-" + c, "_."])
            out.append("[" + body + "]" if rng.random() < 0.9 else "[" + body)
        else:
            out.append(rng.choice(["]", "-", "!", "^", "[", "**", ""]))
        i += 1
    return "".join(out), name


def glob_part(chk):
    """name patterns: the real NameFilter (fnmatch.filter) against the Lean matcher, pair by pair and as whole selections"""
    from gwf.filtering import NameFilter
    rng = chk.rng
    n = 6000 if chk.tier == "quick" else 200000
    pairs = [gen_pattern_pair(rng) for _ in range(n)]
    impl = [bool(NameFilter([p]).apply([_Named(nm)])) for p, nm in pairs]
    model = common.run_driver_sharded(["glob %s %s" % (hx(p), hx(nm)) for p, nm in pairs])
    for (p, nm), i, m in zip(pairs, impl, model):
        chk.count("pattern-pair")
        if i:
            chk.count("pattern-pair-matching")
        chk.case(("glob", p, nm), any(c in p for c in "*?["), sample={"pattern": p, "name": nm, "selected": i} if i and "[" in p and "*" in p else None)
        if ("1" if i else "0") != m:
            chk.violation({"kind": "name-pattern", "pattern": p},
                          common.mismatch_replay("input", {"pattern": p, "name": nm}, i, m,
                                                 {"what": "a name pattern selects a target the model says it does not match (or the reverse): the requested set of a run differs"}))


def run(chk):
    chk.rule = RULE
    chk.assumptions = ["status_func is a fixed table during one invocation (TrackingBackend queries the scheduler once)",
                       "CPython dict/set/sorted semantics", "name-pattern selection: Lean glob model (GwfModel/Glob.lean) validated against the real NameFilter on generated (pattern, name) pairs and through the CLI histories; only names that are valid target names are generated"]
    for fn, data in common.load_corpus("C02"):
        check_cases(chk, [data["input"] if "input" in data else data], "corpus")
    small = list(enumerate_small(chk.tier))
    check_cases(chk, small, "enumerated")
    chk.exhaustive = True
    rng = chk.rng
    nrand = 3000 if chk.tier == "quick" else 100000
    nmax = 12 if chk.tier == "quick" else 40
    projs = []
    for i in range(nrand):
        projs.append(gen.gen_dag_project(rng, nmax=nmax if i % 5 else 4, spellings=(i % 3 == 0), multi_wd=(i % 4 == 0),
                                         specflags=(i % 4 == 1), bstat_weights=(6, 2, 2, 2, 2, 2)))
    for k in range(0, len(projs), 20000):
        check_cases(chk, projs[k:k + 20000], "random")
    if chk.counters.get("impl:ok", 0) < 0.5 * chk.evaluations:
        raise common.Broken("degenerate generator: too few valid workflows")
    glob_part(chk)
    # CLI level: `gwf run [patterns]` (plugin glue, fnmatch selection, TrackingBackend) against a simulated cluster
    import history_check as HC
    rule, assume = chk.rule, chk.assumptions
    HC.run_prop(chk, "C02", ["C05", "C07", "C07:local", "C01", "C05:local", "C07:sge", "C01:lsf", "C07:lsf"], 120 if chk.tier == "quick" else 1800, rule, assume, lambda r: True)


def replay(chk, data):
    chk.rule = RULE
    if "focus" in data["input"]:
        import history_check as HC
        return HC.replay_prop(chk, "C02", data, RULE)
    if "pattern" in data["input"]:
        from gwf.filtering import NameFilter
        p, nm = data["input"]["pattern"], data["input"]["name"]
        i = bool(NameFilter([p]).apply([_Named(nm)]))
        m = common.run_driver(["glob %s %s" % (hx(p), hx(nm))])[0]
        print("implementation", i, "model", m)
        if ("1" if i else "0") != m:
            chk.violation({"kind": "name-pattern", "pattern": p}, common.mismatch_replay("input", data["input"], i, m))
        return chk.finish()
    check_cases(chk, [data["input"]], "replay")
    return chk.finish()
