"""C07 — prerequisites reach each scheduler intact (CLI histories on Slurm, SGE, LSF fakes and a fake
local pool server; TrackingBackend with unusual ids)."""
import history_check as HC
import common

RULE = ("histories of 2-4 gwf run invocations with name-pattern selections on real projects, the simulated scheduler making random legal "
        "progress in between (so later submissions name prerequisites submitted in EARLIER invocations), on Slurm, SGE, LSF fakes and a fake "
        "local pool server; recorded argv / enqueue messages, tracked ids and the scheduler's dependency lists compared with the model; plus "
        "TrackingBackend driven directly with falsy and odd job ids (0, '', '0', ints, strings); non-trivial = >=3 targets")
ASSUME = ["the fakes print ids in each scheduler's documented output format (sbatch --parsable, qsub -terse, 'Job <n> is submitted…')",
          "the dependency semantics of afterok / -hold_jid / done() are the documented ones (Sch.clStep); real schedulers are not available"]


def tracking_backend_ids(chk):
    """TrackingBackend must pass on exactly the ids the scheduler returned — whatever they look like"""
    import os
    import shutil
    from gwf import Target
    from gwf.backends.base import TrackingBackend
    for ids in ([0, 1, 2], ["0", "", "x y"], [7, 0, 3], ["a", 0, ""], [0, 0.5, "1"]):
        d = common.scratch_dir("gwfverif-tb-")
        try:
            os.makedirs(os.path.join(d, ".gwf"))
            calls = []
            pool = list(ids)

            class Ops:
                target_defaults = {}

                def get_job_states(self, tracked):
                    return {}

                def submit_target(self, target, dependency_ids):
                    calls.append((target.name, list(dependency_ids)))
                    return pool.pop(0)

                def close(self):
                    pass
            ts = [Target(name=n, inputs=[], outputs=[], options={}, working_dir=d) for n in ("A", "B", "C")]
            with TrackingBackend(d, name="x", ops=Ops()) as b:
                b.submit(ts[0], [])
                b.submit(ts[1], [ts[0]])
                b.submit(ts[2], [ts[0], ts[1]])
            exp = [("A", []), ("B", [ids[0]]), ("C", [ids[0], ids[1]])]
            chk.count("tracking-backend-ids")
            chk.case(("tb", repr(ids)), True, sample={"ids_returned": [repr(i) for i in ids], "dependency_ids_passed": repr(calls)} if ids[0] == 0 and ids[1] == 1 else None)
            if calls != exp:
                chk.violation({"kind": "tracking-backend-ids"}, {"kind": "history", "input": {"returned_ids": [repr(i) for i in ids]},
                              "implementation": repr(calls), "model": repr(exp),
                              "what": "TrackingBackend did not pass on exactly the ids the scheduler returned for the prerequisites"})
        finally:
            shutil.rmtree(d, ignore_errors=True)


def nontrivial(r):
    return r["info"] is not None and len(r["info"]["targets"]) >= 3


def run(chk):
    n = 200 if chk.tier == "quick" else 3000
    HC.run_prop(chk, "C07", ["C07", "C07:sge", "C07:lsf", "C07:local"], n, RULE, ASSUME, nontrivial)
    tracking_backend_ids(chk)
    # local pool: the scheduler side of "never starts if a prerequisite failed or was cancelled" (shared with C11):
    # late submissions on finished tasks, failures, cancels — trace oracle conjuncts C11:* count for C07 here
    import pool_check
    rng = chk.rng
    cases = []
    for i in range(600 if chk.tier == "quick" else 20000):
        fine = (i % 3 == 0)
        cases.append((rng.choice([1, 2, 3]), pool_check.gen_ops(rng, rng.randint(3, 30), fine), fine, i % 2 == 0))
    pool_check.check_pool(chk, "C11", cases, "local-pool-history")


def replay(chk, data):
    return HC.replay_prop(chk, "C07", data, RULE)
