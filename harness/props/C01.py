"""C01 — up-to-date decision.  Correspondence: real schedule()/should_run (real Target, real
FileSpecHashes, in-memory file snapshot) vs the Lean model, plus predicate p.C01 (make semantics
computed from the declared path SETS) evaluated on the implementation's observed status map."""
import itertools

import common
import gen
import impl_core
from props import C02

RULE = ("cases = corpus + bounded-exhaustive single targets (<=2 inputs x <=2 outputs x timestamps {0,1,2} x present/missing "
        "x spec {hashing off, unchanged, changed, never recorded} x 6 container shapes per side) + seeded random DAG projects "
        "with hashing on/off; non-trivial = the decision reaches the timestamp comparison (all outputs present, spec unchanged, "
        ">=1 input and >=1 output) or the declaration uses a nested/dict/empty-member shape; distinct by canonical encoding")

SHAPES = [
    lambda ps: list(ps),
    lambda ps: ps[0] if len(ps) == 1 else [list(ps)],
    lambda ps: {"k%d" % i: p for i, p in enumerate(ps)},
    lambda ps: {"A": list(ps), "B": []},
    lambda ps: [[p] for p in ps] + [[]],
    lambda ps: [list(ps), {}],
]


def single_targets():
    for nin in range(3):
        for its in itertools.product([0, 1, 2], repeat=nin):
            for nout in range(3):
                for ots in itertools.product([None, 0, 1, 2], repeat=nout):
                    for spec in ("off", "same", "other", "none"):
                        for si, so in itertools.product(range(len(SHAPES)), repeat=2):
                            ins = ["i%d" % k for k in range(nin)]
                            outs = ["o%d" % k for k in range(nout)]
                            fs = {"/w/i%d" % k: its[k] for k in range(nin)}
                            fs.update({"/w/o%d" % k: ots[k] for k in range(nout) if ots[k] is not None})
                            t = {"name": "T", "wd": "/w", "inputs": SHAPES[si](ins), "outputs": SHAPES[so](outs), "protect": [],
                                 "spec": "echo x\n", "bstat": "u", "specflag": 0 if spec in ("off", "same") else 1,
                                 "hashrec": None if spec == "off" else spec}
                            yield {"cwd": "/w", "targets": [t], "fs": fs, "endpoints": None, "hashing": spec != "off",
                                   "shapes": (si, so)}


def nontrivial(p):
    for t in p["targets"]:
        ins = gen.flatten_shape(t["inputs"])
        outs = gen.flatten_shape(t["outputs"])
        shaped = isinstance(t["inputs"], dict) or isinstance(t["outputs"], dict) or any(isinstance(x, (list, dict)) for x in (t["outputs"] if isinstance(t["outputs"], list) else []))
        if t["specflag"] == 0 and ins and outs and shaped:
            return True
        if t["specflag"] == 0 and ins and outs and p.get("hashing"):
            return True
    return False


def check_cases(chk, projs, label):
    impl_lines = common.pmap(C02.impl_case, projs)
    dl = []
    for p, il in zip(projs, impl_lines):
        enc = impl_core.enc_proj(p)
        dl.append("wf.plan " + enc)
        if il.startswith("ok "):
            parts = dict(x.split("=", 1) for x in il[3:].split(" "))
            dl.append("p.C01 " + enc + " S L" + parts["status"])
        else:
            dl.append("ping")
    out = common.run_driver_sharded(dl)
    for i, (p, il) in enumerate(zip(projs, impl_lines)):
        ml, pred = out[2 * i], out[2 * i + 1]
        chk.count(label)
        chk.case(impl_core.enc_proj(p), nontrivial(p),
                 sample={"project": p, "implementation": il, "model": ml} if i % 1499 == 7 else None)
        if il.startswith("ok ") and pred != "ok":
            chk.violation({"kind": "decision", "conjunct": pred.split(":")[0]},
                          common.mismatch_replay("input", p, il, ml, {"predicate": pred, "what": "make-semantics predicate p.C01 fails on the implementation's observed status map"}))
        elif il in ("raise", "recursion") or il.startswith("err other"):
            chk.violation({"kind": "crash", "impl": il}, common.mismatch_replay("input", p, il, ml, {"what": "status computation raised on a validated workflow"}))
        else:
            st_i = il.split(" log=")[0]
            st_m = ml.split(" log=")[0]
            if st_i != st_m:
                chk.count("divergence")
                chk.proof.failed.append("correspondence wf.plan (status map) disagrees on a case where p.C01 holds")
                chk.proof.ok = False
                chk.notes.append({"harmless_divergence": {"project": p, "implementation": il, "model": ml}})


def run(chk):
    chk.rule = RULE
    chk.assumptions = ["file snapshot is an in-memory object with CachedFilesystem's interface (integer mtimes); the real CachedFilesystem/os.stat path is exercised by the CLI correspondences (C05)",
                       "sha1 of equal specs is equal (FileSpecHashes is the real class on a temp file)"]
    for fn, data in common.load_corpus("C01"):
        check_cases(chk, [data["input"] if "input" in data else data], "corpus")
    singles = list(single_targets())
    check_cases(chk, singles, "enumerated-single-target")
    chk.exhaustive = True
    rng = chk.rng
    nrand = 3000 if chk.tier == "quick" else 150000
    projs = [gen.gen_dag_project(rng, nmax=8 if chk.tier == "quick" else 20, spellings=(i % 3 == 0), multi_wd=(i % 4 == 0),
                                 specflags=(i % 2 == 0), ts_range=2, p_missing=0.1, bstat_weights=(12, 1, 1, 3, 1, 1))
             for i in range(nrand)]
    for k in range(0, len(projs), 25000):
        check_cases(chk, projs[k:k + 25000], "random-dag")
    if len(chk.distinct) < 1000:
        raise common.Broken("degenerate generator: too few cases reach the timestamp comparison")
    # CLI level: what `gwf status` reports for targets whose cone has no live/failed/cancelled job, across histories with
    # spec edits, rejected submissions, touch, clean, drains with tied time stamps (real CachedFilesystem, FileSpecHashes file)
    import history_check as HC
    rule, assume = chk.rule, chk.assumptions
    HC.run_prop(chk, "C01", ["C01", "C01:sge", "C06", "C01", "C18", "C01:local", "C16", "C01:lsf"], 96 if chk.tier == "quick" else 1500, rule, assume, lambda r: True)


def replay(chk, data):
    chk.rule = RULE
    if "focus" in data["input"]:
        import history_check as HC
        return HC.replay_prop(chk, "C01", data, RULE)
    check_cases(chk, [data["input"]], "replay")
    return chk.finish()
