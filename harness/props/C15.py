"""C15 — CLI-level history check (see history.py / history_check.py)."""
import history_check as HC

RULE = 'histories: gwf clean with every combination of --all, --force/prompt answers (y, n, EOF), name patterns (incl. non-matching), protect entries spelled differently from the outputs (relative, ./, q/../, absolute, absolute unnormalised), unrelated files and logs present; full tree + spec-hash snapshot compared; non-trivial = >=3 targets'
ASSUME = ["the simulated cluster (harness/fakes/fakecluster.py) stands for the schedulers; output formats and dependency semantics follow their documentation",
          "commands run in-process through click's CliRunner (same code path as the gwf executable)",
          "file modification times are set with os.utime to distinct integer seconds so that order is observable"]


def nontrivial(r):
    return r["info"] is not None and len(r["info"]["targets"]) >= 3


def run(chk):
    n = 200 if chk.tier == "quick" else 3000
    HC.run_prop(chk, "C15", ["C15"], n, RULE, ASSUME, nontrivial)


def replay(chk, data):
    return HC.replay_prop(chk, "C15", data, RULE)
