"""C09 — interrupted runs neither forget nor duplicate jobs the scheduler accepted.
Real `gwf run` SUBPROCESSES against the fakes with, at every position k: a failing scheduler command
(non-zero exit / 'error:' on stderr / garbage output), a hard kill of gwf before or after the scheduler
accepted the k-th job, and a kill before / after / in the middle of each state-file write; failing
queue and accounting queries.  Afterwards: state files readable, recorded ids vs the model's
interrupted-run state, spec hashes, and the next run (no second job for a live recorded job)."""
import json
import os
import random
import shutil
import subprocess

import cluster
import common
import history as H
import history_check as HC
from common import hx, mklist

RULE = ("scenarios = seeded projects (2-6 targets, chains and diamonds, hashing on/off, earlier tracked jobs) x every submission position k x "
        "{exit 1, 'error:' on stderr with exit 0, garbage output, SIGKILL of gwf before the scheduler accepts, SIGKILL after it accepted} and "
        "x every state-file write n x {kill before the atomic replace, after it, in the middle of writing the temporary file}, plus failing "
        "squeue/sacct/qstat/bjobs; on Slurm, SGE and LSF fakes; non-trivial = >=1 job accepted before the interruption and >=1 target left; "
        "distinct by scenario")

LAUNCH = r'''
import os, sys, json
spec = os.environ.get("VERIF_HARNESS_CRASH")
if spec:
    kind, n = spec.split(":"); n = int(n)
    real_replace, real_dump, cnt = os.replace, json.dump, [0, 0]
    def replace(a, b):
        cnt[0] += 1
        if cnt[0] == n and kind == "before":
            os._exit(137)
        real_replace(a, b)
        if cnt[0] == n and kind == "after":
            os._exit(137)
    def dump(obj, fp, **kw):
        cnt[1] += 1
        if cnt[1] == n and kind == "midwrite":
            s = json.dumps(obj, **kw)
            fp.write(s[: max(1, len(s) // 2)]); fp.flush(); os._exit(137)
        return real_dump(obj, fp, **kw)
    os.replace = replace
    json.dump = dump
from gwf.cli import main
sys.argv[0] = "gwf"
main()
'''


def gwf_subprocess(proj, args, crash=None):
    env = dict(proj.cluster.env())
    env["PYTHONPATH"] = os.path.join(common.REPO, "src")
    env["PYTHONDONTWRITEBYTECODE"] = "1"
    if crash:
        env["VERIF_HARNESS_CRASH"] = crash
    r = subprocess.run([common.PY, "-c", LAUNCH] + list(args), cwd=proj.dir, env=env, capture_output=True, text=True, timeout=120)
    return r.returncode, r.stdout, r.stderr


def scenario(job):
    seed, backend, fault_cmd, fault_kind, k, crash = job
    rng = random.Random("C09-%s-%s" % (seed, backend))
    root = common.scratch_dir("gwfverif-c09-")
    out = {"job": job, "error": None}
    try:
        desc = H.gen_cli_project(rng, nmax=6, hashing=(seed % 2 == 0), spellings=False)
        while len(desc["targets"]) < 2:
            desc = H.gen_cli_project(rng, nmax=6, hashing=(seed % 2 == 0), spellings=False)
        proj = H.materialise_project(root, desc, rng, backend=backend, p_present=0.2)
        H.seed_cluster_history(proj, rng, p_tracked=0.6 if (fault_cmd and fault_cmd != H.SUBMIT_CMD[backend]) else 0.3)
        if fault_cmd and fault_cmd != H.SUBMIT_CMD[backend]:
            # the interesting case for a failing queue/accounting query: jobs that ARE still pending or running
            def live(st):
                for i, j in enumerate(sorted(st["jobs"].values(), key=lambda j: j["order"])):
                    j["state"] = "pending" if i % 2 == 0 else "running"
            proj.cluster.update(live)
        pre = proj.observe()
        out["pre_jobs"] = pre["jobs"]
        if fault_cmd:
            def add(st):
                st["faults"] = [{"cmd": fault_cmd, "nth": st["calls"].get(fault_cmd, 0) + k, "kind": fault_kind}]
            proj.cluster.update(add)
        proj.cluster.clear_log()
        code, so, se = gwf_subprocess(proj, ["run"], crash=crash)
        log = proj.cluster.log()
        sub_cmd = H.SUBMIT_CMD[backend]
        accepted = []
        for e in log:
            if e["cmd"] == sub_cmd and (not e.get("fault") or e["fault"] in ("kill_parent_after",)):
                import re
                m = re.search(r"(?:#SBATCH --job-name=|#\$ -N |#BSUB -J )(\S+)", e["stdin"])
                accepted.append((m.group(1) if m else "?", (re.search(r"(\d+)", e.get("reply") or "") or [None, None])[1] if True else None))
        post = proj.observe_safe() if hasattr(proj, "observe_safe") else None
        # (a) state files must be readable: a fresh status must start
        def clear(st):
            st["faults"] = []
        proj.cluster.update(clear)
        scode, sout, serr = gwf_subprocess(proj, ["status"])
        out.update({"run_code": code, "run_err": se[-300:], "status_code": scode, "status_err": serr[-300:], "accepted": accepted})
        try:
            post = proj.observe()
        except Exception as exc:  # noqa
            out["unreadable"] = repr(exc)
            return out
        out["pre_tracked"], out["tracked"], out["pre_hashes"], out["hashes"], out["hashing"] = pre["tracked"], post["tracked"], pre["hashes"], post["hashes"], proj.hashing
        out["jobs"] = post["jobs"]
        # model of the interrupted run: how many submissions were accepted AND recorded
        line_full, _, _ = proj.model("run", pre, mklist([]), "-")
        out["model_lines"] = {"full": line_full}
        for kk in range(0, len(accepted) + 1):
            l, _, _ = proj.model("run", pre, mklist([]), str(kk))
            out["model_lines"][kk] = l
        # (d) the next run, compared with the model from the observed state
        step = H.step_run(proj)
        out["next"] = step
        out["info"] = {"targets": proj.targets, "hashing": proj.hashing}
        return out
    except Exception:  # noqa
        import traceback
        out["error"] = traceback.format_exc()[-1200:]
        return out
    finally:
        shutil.rmtree(root, ignore_errors=True)


def build_jobs(chk):
    jobs = []
    nseeds = 6 if chk.tier == "quick" else 60
    for seed in range(chk.seed * 1000, chk.seed * 1000 + nseeds):
        backend = ["slurm", "slurm", "sge", "lsf"][seed % 4]
        sub = H.SUBMIT_CMD[backend]
        for k in (1, 2, 3):
            for kind in ("exit1", "stderr_error", "garbage", "kill_parent", "kill_parent_after"):
                jobs.append((seed, backend, sub, kind, k, None))
        for n in (1, 2, 3, 4):
            for kind in ("before", "after", "midwrite"):
                jobs.append((seed, backend, None, None, 0, "%s:%d" % (kind, n)))
        q = {"slurm": ["squeue", "sacct"], "sge": ["qstat"], "lsf": ["bjobs"]}[backend]
        for cmd in q:
            for kind in ("exit1", "stderr_error"):
                jobs.append((seed, backend, cmd, kind, 1, None))
        jobs.append((seed, backend, None, None, 0, None))     # uninterrupted control run
    return jobs


def run(chk):
    chk.rule = RULE
    chk.assumptions = ["the window between the scheduler accepting a job and gwf having recorded its id is not claimed: a kill inside it may leave one accepted job unrecorded (it is then excluded from the duplicate check)",
                       "os.replace is atomic (POSIX rename)",
                       "'garbage output' means the scheduler printed something unparsable and did NOT accept the job"]
    jobs = build_jobs(chk)
    results = common.pmap(scenario, jobs, chunk=1)
    evaluate(chk, results)
    # plus: uninterrupted multi-invocation histories (a later invocation must not submit a target whose accepted job
    # is still pending/running — also on a fresh local pool, whose first job id is 0), shared history engine
    rule, assume = chk.rule, chk.assumptions
    HC.run_prop(chk, "C09", ["C07:local", "C07", "C07:local", "C06:local"], 48 if chk.tier == "quick" else 800, rule, assume, lambda r: True)
    chk.exhaustive = True


def evaluate(chk, results):
    lines, idx = [], []
    for ri, r in enumerate(results):
        if r.get("error") or "model_lines" not in r:
            continue
        for kk, l in r["model_lines"].items():
            lines.append(l); idx.append((ri, "m", str(kk)))
        lines.append(r["next"]["line"]); idx.append((ri, "next", 0))
    outs = common.run_driver_sharded(lines, shards=12)
    mo = {}
    for key, o in zip(idx, outs):
        mo[key] = o
    for ri, r in enumerate(results):
        seed, backend, fcmd, fkind, k, crash = r["job"]
        if r.get("error"):
            raise common.Broken("scenario %r crashed in the harness:\n%s" % (r["job"], r["error"]))
        chk.count("scenario")
        chk.count("kind:%s" % (fkind or (crash.split(":")[0] if crash else "none")))
        acc = r.get("accepted", [])
        nontriv = len(acc) >= 1 and r.get("next") is not None and len(r["next"]["subs"]) >= 1
        chk.case(r["job"], nontriv, sample={"scenario": r["job"], "accepted": acc, "tracked_on_disk": r.get("tracked"), "run_exit": r.get("run_code")} if ri % 29 == 0 else None)

        def viol(kind, what, extra=None):
            d = {"kind": "crash_point", "input": {"seed": seed, "backend": backend, "fault_cmd": fcmd, "fault_kind": fkind, "k": k, "crash": crash},
                 "what": what, "accepted": acc, "run_exit": r.get("run_code"), "run_err": r.get("run_err")}
            d.update(extra or {})
            chk.violation({"kind": kind, "fault": fkind or crash}, d)
        # a target whose job was live BEFORE this run must not get a second job in this run either —
        # in particular not when the queue / accounting query failed and gwf could not know
        live_before = {j["name"] for j in r.get("pre_jobs", []) if j["st"] in ("pending", "running") and r.get("pre_tracked", {}).get(j["name"]) == j["id"]}
        dup_now = sorted(n for n, _ in acc if n in live_before)
        if dup_now:
            viol("duplicate-in-faulty-run", "a run in which a scheduler command failed submitted a second job for targets whose job is still pending/running: %r" % dup_now)
            continue
        if "unreadable" in r or r["status_code"] != 0:
            viol("state-unreadable", "after the interruption the next gwf invocation does not start (state file unreadable?)",
                 {"status_exit": r.get("status_code"), "status_err": r.get("status_err"), "unreadable": r.get("unreadable")})
            continue
        # (b) recorded ids (C09.tracked_at / no_forgotten_job): the tracked map on disk is the earlier map updated with
        #     exactly the accepted (target, id) pairs — all of them, or all but the last one if the interruption fell
        #     into the accept→record window.  Which targets may be submitted at all comes from the model's full plan;
        #     the ORDER among independent targets is the implementation's (the properties do not fix it).
        full = H.parse_model(mo.get((ri, "m", "full"), "ok"))
        if "_err" in full:
            continue
        planned = [common.unhx(e.split(":")[0]) for e in full.get("subs", "").split(";") if e]
        names_acc = [n for n, _ in acc]
        if sorted(set(names_acc)) != sorted(names_acc) or not set(names_acc) <= set(planned):
            viol("unplanned-submission", "the interrupted run submitted %r; the plan is %r (each at most once)" % (names_acc, planned))
            continue
        cands = [acc]
        if fkind == "kill_parent_after" or (crash and crash.split(":")[0] in ("before", "midwrite")):
            cands.append(acc[:-1])
        specs = {t["name"]: t["spec"] for t in r["info"]["targets"]}
        killed = (fkind in ("kill_parent", "kill_parent_after")) or crash
        ok_tracked = False
        for cand in cands:
            exp_tracked = dict(r["pre_tracked"])
            exp_tracked.update({n: i for n, i in cand})
            if exp_tracked == r["tracked"]:
                ok_tracked = True
                exp_h = dict(r["pre_hashes"])
                exp_h.update({n: specs[n] for n, _ in cand})
                # (c) hashes: a kill leaves them as they were (or, if the final save was reached, those of the accepted
                #     submissions); an exception saves exactly those of the accepted ones
                if r["hashing"] and r["hashes"] != exp_h and r["hashes"] != r["pre_hashes"]:
                    viol("hashes", "spec hashes on disk are neither the old ones nor those of the accepted submissions", {"hashes": r["hashes"], "expected": exp_h})
                if r["hashing"] and not killed and r["hashes"] != exp_h:
                    viol("hashes", "after a failing scheduler command the saved spec hashes are not exactly those of the accepted submissions", {"hashes": r["hashes"], "expected": exp_h})
                break
        if not ok_tracked:
            viol("forgotten-job", "the tracked-jobs file does not record exactly the jobs the scheduler accepted before the interruption",
                 {"tracked_on_disk": r["tracked"], "pre_tracked": r["pre_tracked"], "accepted": acc})
            continue
        # (d) the next run
        nxt = r["next"]
        for (p, msg) in H.compare(nxt, mo[(ri, "next", 0)]):
            if p in ("C02", "C07", "C18", "C09"):
                viol("next-run", "the invocation after the interruption differs from the model: [%s] %s" % (p, msg[:300]))
                break
        live = {j["name"] for j in r["jobs"] if j["st"] in ("pending", "running") and r["tracked"].get(j["name"]) == j["id"]}
        dup = [s["name"] for s in nxt["subs"] if s["name"] in live]
        if dup:
            viol("duplicate", "the next run submitted a second job for targets whose recorded job is still pending/running: %r" % dup)


def replay(chk, data):
    chk.rule = RULE
    inp = data["input"]
    if "focus" in inp:
        return HC.replay_prop(chk, "C09", data, RULE)
    r = scenario((inp["seed"], inp["backend"], inp["fault_cmd"], inp["fault_kind"], inp["k"], inp["crash"]))
    print(json.dumps({k: v for k, v in r.items() if k not in ("next", "model_lines")}, indent=1, default=str)[:3000])
    evaluate(chk, [r])
    return chk.finish()
