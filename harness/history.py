"""history.py — engine for command histories on REAL temporary gwf projects with a simulated cluster:
generate a project, run real CLI commands (status / run / dry-run / touch / clean / cancel /
config edits / cluster progress / file perturbations), observe the persistent state after every
step and compare it with what the Lean world model (GwfModel/World.lean) predicts from the state
observed BEFORE the step.  Discrepancies are tagged with the property they concern.
"""
import fnmatch
import hashlib
import json
import os
import random
import re
import shutil

import cluster
import common
from common import hx, mklist
from impl_core import enc_shape

BASE_T = 1_000_000_000
ANSI = re.compile(r"\x1b\[[0-9;]*m")


def sha(spec):
    return hashlib.sha1(spec.encode("utf-8")).hexdigest()


class Project:
    """targets: list of dicts name, inputs, outputs, protect, spec (paths relative to the project dir)"""

    def __init__(self, root, targets, hashing=False, backend="slurm", config=None):
        self.root = root
        self.dir = os.path.realpath(os.path.join(root, "proj"))
        os.makedirs(self.dir, exist_ok=True)
        self.targets = [dict(t) for t in targets]
        self.backend = backend
        self.config = dict(config or {})
        self.config["backend"] = backend
        if backend == "local":
            import fakepool
            self.cluster = fakepool.FakePool()
            self.config["backend.local.port"] = self.cluster.port
            self.config["backend.local.host"] = "127.0.0.1"
        else:
            self.cluster = cluster.FakeCluster(os.path.join(root, "cl"))
        if hashing:
            self.config["use_spec_hashes"] = True
        self.intent = {}
        self.known_specs = {}
        self.stamp = BASE_T
        self.write()

    def set_flag(self, key, value, rng=None, via_cli=None):
        """switch a boolean setting on or off — half of the time the way a user does it, with `gwf config set KEY yes|no|
        true|false` (whatever gwf then stores is kept verbatim), otherwise by writing the JSON boolean"""
        self.intent[key] = bool(value)
        if via_cli if via_cli is not None else (rng is not None and rng.random() < 0.5):
            self.write()
            spelling = (rng or random).choice(["yes", "true"] if value else ["no", "false"])
            code, out, err = self.gwf(["config", "set", key, spelling])
            if code != 0:
                raise RuntimeError("gwf config set %s %s failed: %s" % (key, spelling, err[-200:]))
            with open(os.path.join(self.dir, ".gwfconf.json")) as f:
                self.config = json.load(f)
        else:
            self.config[key] = bool(value)
            self.write()

    # --- files
    def write(self):
        for t in self.targets:
            self.known_specs[sha(t["spec"])] = t["spec"]
        cluster.write_workflow(self.dir, self.targets)
        with open(os.path.join(self.dir, ".gwfconf.json"), "w") as f:
            json.dump(self.config, f)
        os.makedirs(os.path.join(self.dir, ".gwf", "logs"), exist_ok=True)

    @property
    def hashing(self):
        """what the user asked for (the model's view); the implementation reads its own stored value"""
        if "use_spec_hashes" in self.intent:
            return self.intent["use_spec_hashes"]
        return bool(self.config.get("use_spec_hashes"))

    def next_stamp(self):
        self.stamp += 1
        return self.stamp

    def put_file(self, rel, stamp=None, content=None):
        p = os.path.join(self.dir, rel)
        os.makedirs(os.path.dirname(p), exist_ok=True)
        if content is not None or not os.path.exists(p):
            with open(p, "w") as f:
                f.write(content if content is not None else "content of %s\n" % rel)
        s = stamp if stamp is not None else self.next_stamp()
        os.utime(p, (s, s))

    def gwf(self, args, input=None, in_process=True):
        return cluster.run_gwf(list(args), self.dir, self.cluster, input=input, in_process=in_process)

    # --- observation
    def tracked_path(self):
        return os.path.join(self.dir, ".gwf", "%s-backend-tracked.json" % self.backend)

    def observe(self):
        files = {}
        contents = {}
        for rel, (size, mt) in cluster.snapshot_tree(self.dir, skip=()).items():
            if rel in ("workflow.py", ".gwfconf.json") or (rel.startswith(".gwf/") and not rel.startswith(".gwf/logs/")):
                continue
            files[os.path.join(self.dir, rel)] = mt
            with open(os.path.join(self.dir, rel), "rb") as f:
                contents[os.path.join(self.dir, rel)] = hashlib.sha1(f.read()).hexdigest()
        tracked = {k: str(v) for k, v in (cluster.read_json(self.tracked_path()) or {}).items()}
        raw_hashes = cluster.read_json(os.path.join(self.dir, ".gwf", "spec-hashes.json"))
        st = self.cluster.read()
        jobs = sorted(st["jobs"].values(), key=lambda j: j["order"])
        logs = sorted(os.listdir(os.path.join(self.dir, ".gwf", "logs")))
        return {"dir": self.dir, "hashing": self.hashing, "files": files, "contents": contents, "tracked": tracked,
                "hashes_raw": raw_hashes, "hashes": {k: self.known_specs.get(v, "?" + str(v)) for k, v in (raw_hashes or {}).items()},
                "jobs": [{"id": j["id"], "st": j["state"], "deps": list(j["deps"]), "name": j["name"]} for j in jobs],
                "next_id": st["next_id"], "logs": logs,
                "conf": cluster.read_json(os.path.join(self.dir, ".gwfconf.json")),
                "workflow_src": open(os.path.join(self.dir, "workflow.py")).read()}

    # --- encoding for the driver
    def ids(self):
        return {n: i for i, n in enumerate(sorted(t["name"] for t in self.targets))}

    def enc_wf(self):
        ids = self.ids()
        parts = ["X"]
        for t in self.targets:
            parts += ["t", hx(t["name"]), str(ids[t["name"]]), "I", enc_shape(t["inputs"]), "O", enc_shape(t["outputs"]),
                      "P", enc_shape(list(t.get("protect") or [])), "S", hx(t["spec"])]
        parts.append("Y")
        return " ".join(parts)

    def rank_files(self, files):
        """dense ranks of the mtimes, spread out by a factor so that the model's touch/finish stamps
        (clock+1, clock+2, …) fall strictly between the present and any future-dated file; the clock is
        the rank of "now" (the harness' stamp counter)"""
        now = self.stamp * 1_000_000_000
        vals = sorted(set(files.values()) | {now})
        rk = {v: (i + 1) * 100000 for i, v in enumerate(vals)}
        return {p: rk[v] for p, v in files.items()}, rk[now]

    def enc_world(self, obs):
        ranked, clock = self.rank_files(obs["files"])
        parts = ["W", hx(obs["dir"]), "1" if obs["hashing"] else "0", self.backend, str(obs["next_id"]), str(clock),
                 mklist("%s=%d" % (hx(p), r) for p, r in sorted(ranked.items())),
                 mklist("%s=%s" % (hx(k), hx(str(v))) for k, v in sorted(obs["tracked"].items())),
                 mklist("%s=%s" % (hx(k), hx(v)) for k, v in sorted(obs["hashes"].items())),
                 mklist(("%s:%s:%s:%s" % (hx(j["id"]), j["st"], "+".join(hx(d) for d in j["deps"]), hx(j["name"])) for j in obs["jobs"]), ";")]
        return " ".join(parts), ranked, clock

    def model(self, cmd, obs, *args):
        w, ranked, clock = self.enc_world(obs)
        line = "world %s %s %s %s" % (cmd, w, self.enc_wf(), " ".join(args))
        return line.strip(), ranked, clock


def parse_model(line):
    if not line.startswith("ok"):
        return {"_err": line}
    out = {}
    for part in line[3:].split(" "):
        if "=" in part:
            k, v = part.split("=", 1)
            out[k] = v
    return out


def unkv(s):
    out = {}
    for kv in (s.split(",") if s else []):
        k, v = kv.split("=")
        out[common.unhx(k)] = common.unhx(v)
    return out


def unfiles(s):
    out = {}
    for kv in (s.split(",") if s else []):
        k, v = kv.split("=")
        out[common.unhx(k)] = int(v)
    return out


def new_ids(pre_ids, jobs):
    """ids of the jobs created by this run -> 'new:<target name>' (the numbers depend on the order of submission,
    which the properties do not fix)"""
    return {j["id"]: "new:" + j["name"] for j in jobs if j["id"] not in pre_ids}


def canon_kv(kv, cid):
    return {k: cid.get(v, v) for k, v in kv.items()}


def canon_jobs(jobs, cid):
    return sorted(({"id": cid.get(j["id"], j["id"]), "st": j["st"], "deps": sorted(cid.get(d, d) for d in j["deps"]), "name": j["name"]}
                   for j in jobs), key=lambda j: j["id"])


def canon_args(args, cid, all_ids):
    """per submitted target: the argument templates with job ids replaced by '#', plus the sorted canonical ids"""
    out = []
    for name, argv in args:
        ids, tmpl = [], []
        for a in argv:
            parts = re.split(r"(\d+)", a)
            t = ""
            for chunk in parts:
                if chunk in all_ids:
                    ids.append(cid.get(chunk, chunk))
                    t += "#"
                else:
                    t += chunk
            tmpl.append(t)
        out.append((name, tmpl, sorted(ids)))
    return sorted(out)


def unjobs(s):
    out = []
    for e in (s.split(";") if s else []):
        jid, st, deps, name = e.split(":")
        out.append({"id": common.unhx(jid), "st": st, "deps": [common.unhx(d) for d in deps.split("+")] if deps else [],
                    "name": common.unhx(name)})
    return out


def parse_status_table(out):
    rows = {}
    for line in ANSI.sub("", out).splitlines():
        parts = line.split()
        if len(parts) == 3:
            rows[parts[1]] = parts[2]
    return rows


def parse_would_submit(err):
    return [m.group(1) for m in re.finditer(r"Would submit (\S+)", ANSI.sub("", err))]


def semantic_state(obs):
    """what the previews must leave unchanged (semantically)"""
    return {"files": obs["files"], "contents": obs["contents"], "tracked": obs["tracked"], "hashes": obs["hashes_raw"] or {},
            "jobs": obs["jobs"], "logs": obs["logs"], "conf": obs["conf"], "workflow": obs["workflow_src"]}


class PatchedTouch:
    """make the order of `Path.touch` calls observable: every call stamps a strictly increasing
    integer mtime (kernel clocks are too coarse) and the call order is recorded"""

    def __init__(self, proj):
        self.proj = proj
        self.calls = []

    def __enter__(self):
        import pathlib
        self.orig = pathlib.Path.touch
        outer = self

        def touch(self_path, mode=0o666, exist_ok=True):
            outer.orig(self_path, mode=mode, exist_ok=exist_ok)
            s = outer.proj.next_stamp()
            os.utime(str(self_path), (s, s))
            outer.calls.append(str(self_path))
        pathlib.Path.touch = touch
        return self

    def __exit__(self, *a):
        import pathlib
        pathlib.Path.touch = self.orig


# ------------------------------------------------------------------ project generation

def gen_cli_project(rng, nmax=6, hashing=None, spellings=True):
    """a small valid DAG workflow with relative paths inside the project directory"""
    import gen
    n = rng.randint(1, nmax)
    names = gen.name_pool(rng, n)
    srcs = ["src%d" % i for i in range(rng.randint(0, 2))]
    outs, ins = {}, {}
    k = 0
    for t in range(n):
        outs[t] = []
        for _ in range(rng.choice([0, 1, 1, 1, 2])):
            outs[t].append(rng.choice(["", "", "sub/"]) + "o%d" % k)
            k += 1
        pool = [p for u in range(t) for p in outs[u]] + srcs
        ins[t] = []
        for _ in range(rng.choice([0, 1, 1, 2]) if pool else 0):
            p = rng.choice(pool)
            if p not in ins[t]:
                ins[t].append(p)
    order = list(range(n))
    rng.shuffle(order)

    def sp(p):
        if not spellings:
            return p
        c = rng.randint(0, 5)
        return p if c <= 3 else ("./" + p if c == 4 else "d/../" + p)
    targets = []
    for t in order:
        o = [sp(p) for p in outs[t]]
        i = [sp(p) for p in ins[t]]
        spec = "".join("mkdir -p $(dirname %s); echo %s > %s\n" % (p, names[t], p) for p in outs[t]) or "echo %s\n" % names[t]
        targets.append({"name": names[t], "inputs": gen.shape_of(rng, i) if rng.random() < 0.5 else i,
                        "outputs": gen.shape_of(rng, o) if rng.random() < 0.5 else o,
                        "protect": [sp(p) for p in outs[t] if rng.random() < 0.25], "spec": spec,
                        "_outs": outs[t], "_ins": ins[t]})
    return {"targets": targets, "sources": srcs, "hashing": (rng.random() < 0.4) if hashing is None else hashing}


def materialise_project(root, desc, rng, backend="slurm", p_present=0.6):
    targets = [{k: v for k, v in t.items() if not k.startswith("_")} for t in desc["targets"]]
    proj = Project(root, targets, hashing=False, backend=backend)
    if desc["hashing"] or rng.random() < 0.2:
        proj.set_flag("use_spec_hashes", desc["hashing"], rng)       # incl. an explicit "no"
    # a file restored from an archive may carry the epoch as its time stamp: mtime 0 is a time stamp like any other
    epoch = rng.choice(["", "", "", "src", "out", "out"])
    for s in desc["sources"]:
        proj.put_file(s, stamp=0 if (epoch == "src" and rng.random() < 0.6) else BASE_T + rng.randint(1, 4))
    for t in desc["targets"]:
        for o in t["_outs"]:
            if rng.random() < p_present:
                proj.put_file(o, stamp=0 if (epoch == "out" and rng.random() < 0.5) else BASE_T + rng.randint(1, 4))
    proj.stamp = BASE_T + 10
    return proj


def seed_cluster_history(proj, rng, p_tracked=0.5):
    """pretend earlier runs: tracked ids with jobs in assorted states (and stale ids, foreign jobs)"""
    st = proj.cluster.read()
    tracked = {}
    for t in proj.targets:
        if rng.random() < p_tracked:
            jid = str(st["next_id"])
            st["next_id"] += 1
            # "gone" = the scheduler no longer knows the id; for the local pool that would mean a restarted pool,
            # which is outside the histories considered here (DESIGN §7-N2)
            state = rng.choice(["pending", "running", "completed", "failed", "cancelled"] + ([] if proj.backend == "local" else ["gone"]))
            if state != "gone":
                st["jobs"][jid] = {"id": jid, "state": state, "deps": [], "kind": {"slurm": "afterok", "sge": "hold", "lsf": "done", "local": "local"}[proj.backend], "name": t["name"], "script": "",
                                   "argv": [], "code": None, "acct": None, "order": len(st["jobs"])}
            tracked[t["name"]] = jid
    st["foreign"] = [{"id": str(5000 + i), "code": rng.choice(["R", "PD", "qw", "r"])} for i in range(rng.randint(0, 2))]
    proj.cluster.write(st)
    if tracked:
        with open(proj.tracked_path(), "w") as f:
            json.dump({k: (int(v) if proj.backend == "local" else v) for k, v in tracked.items()}, f)
    if proj.hashing and rng.random() < 0.7:
        hashes = {}
        for t in proj.targets:
            r = rng.random()
            if r < 0.5:
                hashes[t["name"]] = sha(t["spec"])
            elif r < 0.7:
                old = t["spec"] + "# old version\n"
                proj.known_specs[sha(old)] = old
                hashes[t["name"]] = sha(old)
        with open(os.path.join(proj.dir, ".gwf", "spec-hashes.json"), "w") as f:
            json.dump(hashes, f)


# ------------------------------------------------------------------ steps (run in worker processes)

def step_status(proj, opts=()):
    """opts: dict(statuses=[...], endpoints=bool, patterns=[...], fmt='default'|'summary')"""
    o = dict(statuses=[], endpoints=False, patterns=[], fmt="default")
    o.update(dict(opts))
    pre = proj.observe()
    args = ["status"]
    for s in o["statuses"]:
        args += ["-s", s]
    if o["endpoints"]:
        args.append("--endpoints")
    if o["fmt"] != "default":
        args += ["-f", o["fmt"]]
    args += o["patterns"]
    proj.cluster.clear_log()
    code, out, err = proj.gwf(args)
    calls = [e["cmd"] for e in proj.cluster.log()]
    post = proj.observe()
    line, _, _ = proj.model("statusf", pre, mklist(o["statuses"]), "1" if o["endpoints"] else "0", mklist(hx(p) for p in o["patterns"]))
    return {"kind": "status", "line": line, "opts": o, "code": code, "out": ANSI.sub("", out), "err": err[-400:],
            "pure": semantic_state(pre) == semantic_state(post), "calls": calls, "ids": proj.ids()}


def step_info(proj, patterns=(), fmt="json"):
    """`gwf info`: the dependency relation as the user sees it"""
    pre = proj.observe()
    code, out, err = proj.gwf(["info", "-f", fmt] + list(patterns))
    post = proj.observe()
    line, _, _ = proj.model("info", pre)
    return {"kind": "info", "line": line, "patterns": list(patterns), "fmt": fmt, "code": code, "out": ANSI.sub("", out), "err": err[-400:],
            "pure": semantic_state(pre) == semantic_state(post), "ids": proj.ids(), "calls": []}


def parse_info_pretty(out):
    """{name: {"Dependents": [...]}} from the pretty format"""
    res, cur, label = {}, None, None
    for ln in out.splitlines():
        if not ln.strip():
            continue
        if not ln.startswith(" "):
            label = ln.strip().rstrip(":")
            continue
        v = ln.strip()
        if label == "Name":
            cur = v
            res[cur] = {"Dependents": []}
        elif label == "Dependents" and cur is not None and v != "-":
            res[cur]["Dependents"].append(v)
    return res


def step_dry(proj, patterns=()):
    pre = proj.observe()
    proj.cluster.clear_log()
    code, out, err = proj.gwf(["run", "--dry-run"] + list(patterns))
    calls = [e["cmd"] for e in proj.cluster.log()]
    post = proj.observe()
    line, _, _ = proj.model("dry", pre, mklist(hx(p) for p in patterns))
    return {"kind": "dry", "line": line, "patterns": list(patterns), "code": code, "would": parse_would_submit(err), "err": err[-400:],
            "pure": semantic_state(pre) == semantic_state(post), "calls": calls}


SUBMIT_CMD = {"slurm": "sbatch", "sge": "qsub", "lsf": "bsub", "local": "enqueue_task"}
CANCEL_CMD = {"slurm": "scancel", "sge": "qdel", "lsf": "bkill", "local": "cancel_task"}


def step_run(proj, patterns=(), reject_nth=None, backend_cmd=None):
    """reject_nth: the n-th submission of this run is refused by the scheduler (non-zero exit)"""
    pre = proj.observe()
    backend_cmd = backend_cmd or SUBMIT_CMD[proj.backend]

    def add(st):
        st["faults"] = [{"cmd": backend_cmd, "nth": st["calls"].get(backend_cmd, 0) + reject_nth, "kind": "exit1"}] if reject_nth else []
    proj.cluster.update(add)
    proj.cluster.clear_log()
    code, out, err = proj.gwf(["run"] + list(patterns))
    log = proj.cluster.log()
    post = proj.observe()
    subs = []
    for e in log:
        if e["cmd"] in ("sbatch", "qsub", "bsub"):
            m = re.search(r"(?:#SBATCH --job-name=|#\$ -N |#BSUB -J )(\S+)", e["stdin"])
            if not e.get("fault"):
                subs.append({"name": m.group(1) if m else "?", "argv": e["argv"], "reply": e["reply"]})
        elif e["cmd"] == "enqueue_task" and not e.get("fault"):
            subs.append({"name": e["msg"].get("name"), "argv": [], "reply": e.get("reply"), "deps": e["msg"].get("deps")})
    rejected = any(e.get("fault") for e in log)
    line, _, _ = proj.model("run", pre, mklist(hx(p) for p in patterns), str(len(subs)) if rejected else "-")
    def nolog(d):
        return {k: v for k, v in d.items() if "/.gwf/" not in k}
    files_same = (nolog(pre["files"]) == nolog(post["files"]) and nolog(pre["contents"]) == nolog(post["contents"]))
    return {"rejected": rejected, "same": semantic_state(pre) == semantic_state(post), "calls": [e["cmd"] for e in log], "kind": "run", "line": line, "patterns": list(patterns), "code": code, "subs": subs, "err": err[-400:],
            "tracked": post["tracked"], "hashes": post["hashes"], "jobs": post["jobs"], "files_same": files_same,
            "pre_tracked": pre["tracked"], "pre_jobs": pre["jobs"]}


def step_touch(proj, patterns=()):
    pre = proj.observe()
    with PatchedTouch(proj) as pt:
        code, out, err = proj.gwf(["touch"] + list(patterns))
    post = proj.observe()
    line, ranked, clock = proj.model("touch", pre, mklist(hx(p) for p in patterns))
    return {"same": semantic_state(pre) == semantic_state(post), "calls": [], "kind": "touch", "line": line, "patterns": list(patterns), "code": code, "err": err[-400:], "calls": pt.calls,
            "pre_files": pre["files"], "post_files": post["files"], "pre_contents": pre["contents"], "post_contents": post["contents"],
            "hashes": post["hashes"], "clock": clock, "pre_ranks": ranked, "tracked_same": pre["tracked"] == post["tracked"], "jobs_same": pre["jobs"] == post["jobs"]}


def step_touch_then_status(proj, patterns=()):
    """C16's claim proper: after touch, status reports the cone completed (model: touch ; status from the pre-state)"""
    pre = proj.observe()
    with PatchedTouch(proj):
        code, out, err = proj.gwf(["touch"] + list(patterns))
    code2, out2, err2 = proj.gwf(["status"])
    line, _, _ = proj.model("touchstatus", pre, mklist(hx(p) for p in patterns))
    return {"kind": "touchstatus", "line": line, "patterns": list(patterns), "code": code or code2, "err": (err + err2)[-400:],
            "out": ANSI.sub("", out2), "ids": proj.ids(), "same": True, "calls": []}


def step_clean(proj, patterns=(), all_=False, force=True, answer=None):
    pre = proj.observe()
    args = ["clean"] + (["--all"] if all_ else []) + (["--force"] if force else []) + list(patterns)
    code, out, err = proj.gwf(args, input=answer)
    post = proj.observe()
    line, _, _ = proj.model("clean", pre, "1" if all_ else "0", mklist(hx(p) for p in patterns))
    prompted = (not patterns) and (not force)
    return {"kind": "clean", "line": line, "patterns": list(patterns), "all": all_, "force": force, "answer": answer, "prompted": prompted,
            "code": code, "err": err[-400:], "pre_files": pre["files"], "post_files": post["files"],
            "pre_contents": pre["contents"], "post_contents": post["contents"], "pre_hashes": pre["hashes"], "hashes": post["hashes"],
            "same": semantic_state(pre) == semantic_state(post), "calls": []}


def step_cancel(proj, patterns=(), force=True, answer=None, fail_nth=None, fail_kind="exit1"):
    """fail_kind: "exit1" (non-zero exit) or "stderr_error" (exit 0 with an `error:` line — for `scancel --verbose` after the
    line that announces the job)"""
    pre = proj.observe()

    ccmd = CANCEL_CMD[proj.backend]
    if proj.backend == "local":
        fail_kind = "exit1"

    def add(st):
        st["faults"] = [{"cmd": ccmd, "nth": st["calls"].get(ccmd, 0) + fail_nth, "kind": fail_kind}] if fail_nth else []
    proj.cluster.update(add)
    proj.cluster.clear_log()
    args = ["cancel"] + (["--force"] if force else []) + list(patterns)
    code, out, err = proj.gwf(args, input=answer)
    log = [e for e in proj.cluster.log() if e["cmd"] in ("scancel", "qdel", "bkill", "cancel_task")]
    post = proj.observe()
    line, _, _ = proj.model("cancel", pre, mklist(hx(p) for p in patterns))
    prompted = (not patterns) and (not force)
    return {"same": semantic_state(pre) == semantic_state(post), "calls": [e["cmd"] for e in proj.cluster.log()], "kind": "cancel", "line": line, "patterns": list(patterns), "force": force, "answer": answer, "prompted": prompted,
            "code": code, "out": out[-600:], "err": err[-400:], "cancelled_ids": [e["argv"][-1] for e in log],
            "reported": sorted(set(re.findall(r"Target (\S+) could not be cancelled", out + err))), "pre_tracked": pre["tracked"],
            "faulted": [e["argv"][-1] for e in log if e.get("fault")], "jobs": post["jobs"], "pre_jobs": pre["jobs"],
            "other_same": (pre["files"] == post["files"] and pre["tracked"] == post["tracked"] and pre["hashes_raw"] == post["hashes_raw"])}


# ------------------------------------------------------------------ comparators (main process)

QUERY_CMDS = {"squeue", "sacct", "qstat", "bjobs", "sinfo", "get_task_states", "close", None}


def id2name(ids):
    return {str(i): n for n, i in ids.items()}


def compare(p, mline):
    """p: payload of one step; mline: the model's reply. Returns [(property, message)]"""
    m = parse_model(mline)
    bad = []
    kind = p["kind"]
    if "_err" in m:
        # the model rejects the workflow: the command must fail and change nothing
        if p["code"] == 0:
            bad.append(("C04", "command succeeded on a workflow the model rejects (%s)" % m["_err"]))
        for key in ("pure", "same"):
            if key in p and not p[key]:
                bad.append(("C04", "a command on an invalid workflow changed the project state (%s)" % kind))
                break
        if set(p.get("calls", [])) - QUERY_CMDS:
            bad.append(("C04", "a command on an invalid workflow issued scheduler commands %r" % sorted(set(p["calls"]) - QUERY_CMDS)))
        return bad
    if p["code"] != 0 and not (kind in ("clean", "cancel") and p.get("prompted") and p.get("answer") != "y\n") \
            and not (kind == "run" and p.get("rejected")):
        if any(x in (p.get("err") or "") for x in ("is not provided", "not provided by", "provided by targets", "depends on itself")):
            # the model accepts the workflow; validation (C04) does not
            bad.append(("C04", "a well-formed workflow is rejected by `gwf %s`: %s" % (kind, p["err"][-200:])))
        bad.append(("C05" if kind in ("status", "dry") else "C03" if kind == "info" else {"run": "C02", "touch": "C16", "touchstatus": "C16", "clean": "C15", "cancel": "C17"}[kind],
                    "command failed (exit %s): %s" % (p["code"], p["err"][-200:])))
        return bad
    if kind == "info":
        names = id2name(p["ids"])
        deps, dependents = {}, {}
        for e in (m.get("info", "").split(";") if m.get("info") else []):
            t, d, r = e.split(":")
            deps[names[t]] = sorted(names[x] for x in d.split("+") if x)
            dependents[names[t]] = sorted(names[x] for x in r.split("+") if x)
        sel = [n for n in deps if not p["patterns"] or any(fnmatch.fnmatchcase(n, pat) for pat in p["patterns"])]
        if p["fmt"] == "json":
            try:
                obj = json.loads(p["out"])
            except ValueError:
                return [("C03", "gwf info printed no JSON: %r" % p["out"][:200])]
            if sorted(obj) != sorted(sel):
                bad.append(("C03", "gwf info lists %r, selected %r" % (sorted(obj), sorted(sel))))
            for n in obj:
                if n in deps and (sorted(obj[n].get("dependencies", [])) != deps[n] or sorted(obj[n].get("dependents", [])) != dependents[n]):
                    bad.append(("C03", "gwf info %s: dependencies %r dependents %r; the relation induced by shared paths: %r / %r"
                                % (n, sorted(obj[n].get("dependencies", [])), sorted(obj[n].get("dependents", [])), deps[n], dependents[n])))
                    break
        else:
            got = parse_info_pretty(p["out"])
            for n in got:
                if n in dependents and sorted(got[n]["Dependents"]) != dependents[n]:
                    bad.append(("C03", "gwf info -f pretty %s: dependents %r, expected %r" % (n, sorted(got[n]["Dependents"]), dependents[n])))
                    break
        if not p["pure"]:
            bad.append(("C05", "gwf info changed the project state"))
        return bad
    if kind == "touchstatus":
        names = id2name(p["ids"])
        exp = {}
        for e in (m.get("rows", "").split(",") if m.get("rows") else []):
            i, st = e.split(":")
            exp[names[i]] = st
        got = parse_status_table(p["out"])
        if got != exp:
            diff = {n: (got.get(n), exp.get(n)) for n in set(got) | set(exp) if got.get(n) != exp.get(n)}
            bad.append(("C16", "status after touch differs (shown, model): %r (patterns %r)" % (diff, p["patterns"])))
        return bad
    if kind == "status":
        names = id2name(p["ids"])
        exp = {}
        for e in (m.get("rows", "").split(",") if m.get("rows") else []):
            i, s = e.split(":")
            exp[names[i]] = s
        if p["opts"]["fmt"] == "default":
            got = parse_status_table(p["out"])
            if got != exp:
                bad.append(("C05", "status table differs: shown %r expected %r (options %r)" % (got, exp, p["opts"])))
                # a row shown with another status although no job in the target's cone is live, failed or
                # cancelled: the FILE-based decision (C01) is what differs
                fb = {names[i] for i in m.get("fb", "").split(",") if i in names}
                wrong = sorted(n for n in got if n in exp and got[n] != exp[n] and n in fb)
                if wrong:
                    bad.append(("C01", "targets whose status is decided by files and recorded specs alone are shown %r, expected %r"
                                % ({n: got[n] for n in wrong}, {n: exp[n] for n in wrong})))
        else:
            counts = {}
            for line in p["out"].splitlines():
                parts = line.split()
                if len(parts) == 3 and parts[2].isdigit():
                    counts[parts[1]] = int(parts[2])
            expc = {s: 0 for s in ("shouldrun", "submitted", "running", "completed", "failed", "cancelled")}
            for s in exp.values():
                expc[s] += 1
            if counts != expc:
                bad.append(("C05", "status summary differs: shown %r expected %r (options %r)" % (counts, expc, p["opts"])))
        if not p["pure"]:
            bad.append(("C05", "gwf status changed the project state"))
        if set(p["calls"]) - QUERY_CMDS:
            bad.append(("C05", "gwf status issued scheduler commands %r" % sorted(set(p["calls"]) - QUERY_CMDS)))
    elif kind == "dry":
        exp = [common.unhx(x) for x in m.get("would", "").split(",") if x]
        if sorted(p["would"]) != sorted(exp):       # which targets, not in which order among independent ones
            bad.append(("C05", "dry-run announces %r, model plans %r (patterns %r)" % (p["would"], exp, p["patterns"])))
        if not p["pure"]:
            bad.append(("C05", "gwf run --dry-run changed the project state"))
        if set(p["calls"]) - QUERY_CMDS:
            bad.append(("C05", "gwf run --dry-run issued scheduler commands %r" % sorted(set(p["calls"]) - QUERY_CMDS)))
    elif kind == "run":
        exp_subs = [e.split(":")[0] for e in m.get("subs", "").split(";") if e]
        exp_names = [common.unhx(x) for x in exp_subs]
        got_names = [s["name"] for s in p["subs"]]
        # the property fixes WHICH targets are submitted and that prerequisites come first, not the order among
        # independent targets: compare as multisets (a refused submission truncates the run, so there the accepted
        # prefix is compared as it is)
        same_plan = (got_names == exp_names) if p.get("rejected") else (sorted(got_names) == sorted(exp_names))
        if not same_plan:
            bad.append(("C02", "run submitted %r, model plans %r (patterns %r)" % (got_names, exp_names, p["patterns"])))
            live = {j["id"] for j in p.get("pre_jobs", []) if j["st"] in ("pending", "running")}
            dup = sorted(n for n in got_names if n not in exp_names and p.get("pre_tracked", {}).get(n) in live)
            if dup:
                bad.append(("C09", "targets whose recorded job is still pending/running were submitted a second time: %r" % dup))
        # when the PLAN differs (C02's business) the tracked ids, the cluster's job list and the recorded
        # hashes necessarily differ too: that is a consequence, not a second defect, and is not attributed
        # to C07 / C18 (their own defects show up in steps whose plan agrees)
        pre_ids = {j["id"] for j in p.get("pre_jobs", [])}
        mjobs = unjobs(m.get("jobs", ""))
        ci, cm = new_ids(pre_ids, p["jobs"]), new_ids(pre_ids, mjobs)
        if same_plan and canon_kv(p["tracked"], ci) != canon_kv(unkv(m.get("tracked", "")), cm):
            bad.append(("C07", "tracked job ids after run %r, model %r" % (p["tracked"], unkv(m.get("tracked", "")))))
        is_local = any("deps" in sub for sub in p["subs"])
        if same_plan and canon_jobs(p["jobs"], ci) != canon_jobs(mjobs, cm):
            msg = "cluster jobs/prerequisites after run %r, model %r" % (p["jobs"], mjobs)
            # C02: "its submission names as prerequisites exactly its direct dependencies that are not complete";
            # C11 (local pool): a task whose prerequisite does not reach the pool starts without waiting for it
            bad += [("C07", msg), ("C02", msg)] + ([("C11", msg)] if is_local else [])
        if same_plan and p["hashes"] != unkv(m.get("hashes", "")):
            bad.append(("C18", "spec hashes after run %r, model %r" % (p["hashes"], unkv(m.get("hashes", "")))))
        if not p["files_same"]:
            bad.append(("C05", "gwf run modified workflow files"))
        # the prerequisite arguments as the scheduler receives them vs the model's rendering
        exp_args = []
        for e in (m.get("args", "").split(";") if m.get("args") else []):
            n, frag = e.split(":")
            exp_args.append((common.unhx(n), [common.unhx(a) for a in frag.split("+")] if frag else []))
        got_args = []
        for sub in p["subs"]:
            if "deps" in sub:
                got_args.append((sub["name"], [str(d) for d in (sub["deps"] or [])]))
            else:
                argv = [a for a in sub["argv"] if a not in ("--parsable", "-terse")]
                got_args.append((sub["name"], argv))
        all_i = {j["id"] for j in p["jobs"]} | pre_ids
        all_m = {j["id"] for j in mjobs} | pre_ids
        if same_plan and canon_args(got_args, ci, all_i) != canon_args(exp_args, cm, all_m):
            msg = "prerequisite arguments handed to the scheduler %r, model %r" % (got_args, exp_args)
            bad += [("C07", msg), ("C02", msg)] + ([("C11", msg)] if is_local else [])
    elif kind == "touch":
        mfiles = unfiles(m.get("files", ""))
        if set(p["post_files"]) != set(mfiles):
            bad.append(("C16", "files after touch %r, model %r" % (sorted(set(p["post_files"]) ^ set(mfiles)), "")))
        touched_m = {f for f, r in mfiles.items() if p["pre_ranks"].get(f) != r}
        touched_i = {f for f in p["post_files"] if p["post_files"][f] != p["pre_files"].get(f)}
        if touched_i != touched_m:
            bad.append(("C16", "touched files differ: implementation %r, model %r" % (sorted(touched_i), sorted(touched_m))))
        for f, h in p["pre_contents"].items():
            if p["post_contents"].get(f) != h:
                bad.append(("C16", "touch altered or removed the content of %s" % f))
        for f in set(p["post_contents"]) - set(p["pre_contents"]):
            if os.path.basename(f) not in ("spec-hashes.json",) and p["post_contents"][f] != hashlib.sha1(b"").hexdigest():
                bad.append(("C16", "touch created a non-empty file %s" % f))
        if p["hashes"] != unkv(m.get("hashes", "")):
            bad.append(("C18", "spec hashes after touch %r, model %r" % (p["hashes"], unkv(m.get("hashes", "")))))
            bad.append(("C16", "spec hashes after touch %r, model %r" % (p["hashes"], unkv(m.get("hashes", "")))))
        if not (p["tracked_same"] and p["jobs_same"]):
            bad.append(("C16", "touch changed tracked jobs or the cluster"))
    elif kind == "clean":
        declined = p["prompted"] and p.get("answer") != "y\n"
        if declined:
            if not p["same"]:
                bad.append(("C15", "clean changed something although the prompt was declined"))
        else:
            mfiles = unfiles(m.get("files", ""))
            gone_i = set(p["pre_files"]) - set(p["post_files"])
            gone_m = set(p["pre_files"]) - set(mfiles)
            if gone_i != gone_m:
                bad.append(("C15", "clean deleted %r, model deletes %r (patterns %r all=%s)" % (sorted(gone_i), sorted(gone_m), p["patterns"], p["all"])))
            new = {f for f in set(p["post_files"]) - set(p["pre_files"]) if not f.endswith("spec-hashes.json")}
            if new:
                bad.append(("C15", "clean created files %r" % sorted(new)))
            for f, h in p["post_contents"].items():
                if f in p["pre_contents"] and p["pre_contents"][f] != h and not f.endswith("spec-hashes.json"):
                    bad.append(("C15", "clean modified %s" % f))
            if p["hashes"] != unkv(m.get("hashes", "")):
                bad.append(("C15", "spec hashes after clean %r, model %r" % (p["hashes"], unkv(m.get("hashes", "")))))
                bad.append(("C18", "spec hashes after clean %r, model %r" % (p["hashes"], unkv(m.get("hashes", "")))))
    elif kind == "cancel":
        declined = p["prompted"] and p.get("answer") != "y\n"
        if declined:
            if p["cancelled_ids"] or p["jobs"] != p["pre_jobs"]:
                bad.append(("C17", "cancel acted although the prompt was declined"))
        else:
            exp_ids = []
            for e in (m.get("cmds", "").split(";") if m.get("cmds") else []):
                n, j = e.split(":")
                if j != "-":
                    exp_ids.append(common.unhx(j))
            if sorted(p["cancelled_ids"]) != sorted(exp_ids):
                bad.append(("C17", "cancel commands for jobs %r, model %r (patterns %r)" % (sorted(p["cancelled_ids"]), sorted(exp_ids), p["patterns"])))
            else:
                # "a target that cannot be cancelled — never submitted, scheduler error — is reported"
                never = [common.unhx(e.split(":")[0]) for e in (m.get("cmds", "").split(";") if m.get("cmds") else []) if e.split(":")[1] == "-"]
                by_id = {v: k for k, v in p.get("pre_tracked", {}).items()}
                failed = [by_id[i] for i in p["faulted"] if i in by_id]
                live = {j["id"] for j in p["pre_jobs"] if j["st"] in ("pending", "running")}
                finished = [by_id[i] for i in exp_ids if i in by_id and i not in live]     # the scheduler refuses: job finished or forgotten
                is_pool = any(c in ("cancel_task", "get_task_states") for c in p["calls"])
                if "reported" in p and not is_pool and sorted(set(never + failed + finished)) != p["reported"]:
                    bad.append(("C17", "targets reported as not cancellable %r; never submitted %r, already finished %r, cancel command failed for %r"
                                % (p["reported"], sorted(never), sorted(finished), sorted(failed))))
            mjobs = {j["id"]: j["st"] for j in unjobs(m.get("jobs", ""))}
            for j in p["jobs"]:
                exp_st = mjobs.get(j["id"])
                if j["id"] in p["faulted"]:
                    continue
                if exp_st != j["st"]:
                    bad.append(("C17", "job %s is %s after cancel, model %s" % (j["id"], j["st"], exp_st)))
        if not p["other_same"]:
            bad.append(("C17", "cancel changed files, tracked ids or hashes"))
    return bad
