#!/usr/bin/python3 -SE
"""fakecluster.py — one executable behind the names sbatch/squeue/sacct/scancel, qsub/qstat/qdel,
bsub/bjobs/bkill.  It keeps a simulated cluster in the JSON file $FAKE_CLUSTER_STATE, records
every call (argv, stdin, reply) in $FAKE_CLUSTER_STATE.log (one JSON object per line) and prints
what the real commands print.  Faults are injected from the state's "faults" list:
  {"cmd": "sbatch", "nth": 2, "kind": "exit1" | "stderr_error" | "garbage" | "kill_parent"}
The rules of the simulated schedulers (state codes, dependency semantics) follow the schedulers'
documentation; they are part of the trusted base.
"""
import fcntl
import json
import os
import re
import signal
import sys

STATE = os.environ.get("FAKE_CLUSTER_STATE")


def load():
    with open(STATE) as f:
        return json.load(f)


def save(st):
    tmp = STATE + ".tmp%d" % os.getpid()
    with open(tmp, "w") as f:
        json.dump(st, f)
    os.replace(tmp, STATE)


def log(entry):
    with open(STATE + ".log", "a") as f:
        f.write(json.dumps(entry) + "\n")


def main():
    cmd = os.path.basename(sys.argv[0])
    argv = sys.argv[1:]
    lock = open(STATE + ".lock", "w")
    fcntl.flock(lock, fcntl.LOCK_EX)
    st = load()
    stdin = ""
    if cmd in ("sbatch", "qsub", "bsub"):
        stdin = sys.stdin.read()
    st.setdefault("calls", {})
    st["calls"][cmd] = st["calls"].get(cmd, 0) + 1
    nth = st["calls"][cmd]
    fault = None
    for f in st.get("faults", []):
        if f["cmd"] == cmd and f["nth"] == nth:
            fault = f["kind"]
    entry = {"cmd": cmd, "argv": argv, "stdin": stdin, "nth": nth, "fault": fault}
    if fault == "kill_parent":
        entry["reply"] = "(killed parent before accepting)"
        log(entry)
        save(st)
        os.kill(os.getppid(), signal.SIGKILL)
        sys.exit(1)
    if fault == "exit1":
        entry["reply"] = "(exit 1)"
        log(entry)
        save(st)
        if cmd == "sbatch" and any(a.startswith("--dependency") for a in argv):
            # what sbatch prints when it refuses a job because of its dependency list
            sys.stderr.write("sbatch: error: Batch job submission failed: Job dependency problem\n")
        elif cmd == "sbatch":
            sys.stderr.write("sbatch: error: Batch job submission failed: Invalid account or account/partition combination specified\n")
        else:
            sys.stderr.write("%s: something went wrong\n" % cmd)
        sys.exit(1)
    if fault == "stderr_error":
        entry["reply"] = "(error: on stderr, exit 0)"
        log(entry)
        save(st)
        if cmd == "scancel":
            # `scancel --verbose` announces the job first; the error line comes second and the exit status is 0
            jid = argv[-1] if argv else "?"
            sys.stderr.write("scancel: Terminating job %s\nscancel: error: Kill job error on job id %s: Invalid job id specified\n" % (jid, jid))
        else:
            sys.stderr.write("%s: error: Batch job submission failed: Invalid something\n" % cmd)
        sys.exit(0)
    out, err, code = handle(cmd, argv, stdin, st, fault)
    entry["reply"] = out
    entry["stderr"] = err
    entry["exit"] = code
    log(entry)
    save(st)
    if fault == "kill_parent_after":
        os.kill(os.getppid(), signal.SIGKILL)
    sys.stdout.write(out)
    sys.stderr.write(err)
    sys.exit(code)


def new_job(st, kind, deps, name, script, argv):
    jid = str(st["next_id"])
    st["next_id"] += 1
    st["jobs"][jid] = {"id": jid, "state": "pending", "deps": deps, "kind": kind, "name": name, "script": script,
                       "argv": argv, "code": None, "acct": None, "order": len(st["jobs"])}
    return jid


# internal life-cycle state -> what each scheduler shows; jobs may carry an explicit "code"/"acct" override
SLURM_QUEUE = {"pending": "PD", "running": "R"}
SLURM_ACCT = {"pending": "PENDING", "running": "RUNNING", "completed": "COMPLETED", "failed": "FAILED", "cancelled": "CANCELLED by 1000"}
SGE_QUEUE = {"pending": "qw", "running": "r"}
LSF = {"pending": "PEND", "running": "RUN", "completed": "DONE", "failed": "EXIT", "cancelled": "EXIT"}


def handle(cmd, argv, stdin, st, fault):
    jobs = st["jobs"]
    if cmd == "sbatch":
        deps = []
        for a in argv:
            m = re.match(r"--dependency=afterok:(.*)$", a)
            if m:
                deps = m.group(1).split(":")
        m = re.search(r"#SBATCH --job-name=(\S+)", stdin)
        if fault == "garbage":      # unparsable reply, job NOT accepted
            return "Submitted batch job\n", "", 0
        jid = new_job(st, "afterok", deps, m.group(1) if m else "?", stdin, argv)
        return jid + (";cluster1" if st.get("slurm_cluster_suffix") else "") + "\n", "", 0
    if cmd == "squeue":
        lines = []
        for j in sorted(jobs.values(), key=lambda j: j["order"]):
            code = j.get("code") if j.get("code") is not None else SLURM_QUEUE.get(j["state"])
            if code:
                lines.append("%s;%s" % (j["id"], code))
        for f in st.get("foreign", []):
            lines.append("%s;%s" % (f["id"], f["code"]))
        return "".join(" %s\n" % l for l in lines), "", 0
    if cmd == "sacct":
        ids = []
        for i, a in enumerate(argv):
            if a == "--jobs":
                ids = argv[i + 1].split(",")
        lines = []
        for i in ids:
            j = jobs.get(i)
            if j is None:
                acct = st.get("stale_acct", {}).get(i)
                if acct:
                    lines.append("%s|%s" % (i, acct))
                continue
            acct = j.get("acct") if j.get("acct") is not None else SLURM_ACCT.get(j["state"])
            if acct and not j.get("no_acct"):
                lines.append("%s|%s" % (i, acct))
        return "".join(l + "\n" for l in lines), "", 0
    if cmd in ("scancel", "qdel", "bkill"):
        jid = argv[-1]
        j = jobs.get(jid)
        if j is None or j["state"] not in ("pending", "running"):
            if cmd == "scancel":
                return "", "scancel: Terminating job %s\nscancel: error: Kill job error on job id %s: Invalid job id specified\n" % (jid, jid), 0
            if cmd == "qdel":
                return "", "denied: job \"%s\" does not exist\n" % jid, 1
            return "", "Job <%s>: No matching job found\n" % jid, 255
        j["state"] = "cancelled"
        j["code"] = None
        if cmd == "scancel":
            return "", "scancel: Terminating job %s\n" % jid, 0
        if cmd == "qdel":
            return "user has registered the job %s for deletion\n" % jid, "", 0
        return "Job <%s> is being terminated\n" % jid, "", 0
    if cmd == "qsub":
        deps = []
        for i, a in enumerate(argv):
            if a == "-hold_jid":
                deps = argv[i + 1].split(",")
        m = re.search(r"#\$ -N (\S+)", stdin)
        if fault == "garbage":
            return "Your job has been submitted\n", "", 0
        jid = new_job(st, "hold", deps, m.group(1) if m else "?", stdin, argv)
        return jid + "\n", "", 0
    if cmd == "qstat":
        rows = []
        for j in sorted(jobs.values(), key=lambda j: j["order"]):
            code = j.get("code") if j.get("code") is not None else SGE_QUEUE.get(j["state"])
            if code:
                rows.append("<job_list state=\"x\"><JB_job_number>%s</JB_job_number><JB_name>%s</JB_name><state>%s</state></job_list>" % (j["id"], j["name"], code))
        for f in st.get("foreign", []):
            rows.append("<job_list state=\"x\"><JB_job_number>%s</JB_job_number><JB_name>other</JB_name><state>%s</state></job_list>" % (f["id"], f["code"]))
        return "<?xml version='1.0'?><job_info><queue_info>%s</queue_info><job_info></job_info></job_info>\n" % "".join(rows), "", 0
    if cmd == "bsub":
        deps = []
        for i, a in enumerate(argv):
            if a == "-w":
                deps = re.findall(r"done\(([^)]*)\)", argv[i + 1])
        m = re.search(r"#BSUB -J (\S+)", stdin)
        if fault == "garbage":
            return "Job submitted\n", "", 0
        jid = new_job(st, "done", deps, m.group(1) if m else "?", stdin, argv)
        return "Job <%s> is submitted to default queue <normal>.\n" % jid, "", 0
    if cmd == "bjobs":
        # bjobs -noheader -o stat ID…: one line per job LSF still knows, in argument order; "is not found" on stderr for the rest
        ids = [a for a in argv if a.isdigit()] or [argv[-1]]
        out, err = "", ""
        for jid in ids:
            j = jobs.get(jid)
            if j is None:
                err += "Job <%s> is not found\n" % jid
                continue
            code = j.get("code") if j.get("code") is not None else LSF.get(j["state"])
            out += (code or "") + "\n"
        return out, err, 0
    return "", "%s: unknown fake command\n" % cmd, 2


if __name__ == "__main__":
    main()
