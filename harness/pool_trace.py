"""pool_trace.py — run operation sequences on gwf's REAL local Scheduler under a virtual clock and
record the labelled event trace the Lean pool model (GwfModel/Pool.lean) must accept.

No source hooks: the Scheduler's semaphore and task-state table are plain attributes and are
replaced by instrumented subclasses; `asyncio.create_subprocess_shell` and `os.killpg` are replaced
in the harness process by fakes whose exits are driven by harness operations.

Operations (tuples):
  ("enq", deps, limit)        enqueue a task (limit in virtual seconds or None)
  ("cancel", tid)             Scheduler.cancel_task(tid)
  ("exit", tid, code)         the task's process exits with `code`
  ("tick", dt)                advance the virtual clock
  ("settle", k)               run k loop iterations only (k=None: to quiescence, recorded as Q)
  ("spawnfail", flag)         the next spawns fail (missing working directory) while flag is set
  ("breaklogs", flag)         log directory unwritable while flag is set
Every op except ("settle", k) is followed by a full settle unless `fine=True` is passed to run_ops, in
which case only explicit settle ops run the loop (cancel at every await point).
"""
import asyncio
import os
import selectors
import shutil
import signal
import tempfile


class NoBlockSelector(selectors.DefaultSelector):
    def select(self, timeout=None):
        return super().select(0)


class VLoop(asyncio.SelectorEventLoop):
    def __init__(self):
        super().__init__(NoBlockSelector())
        self._vtime = 0.0

    def time(self):
        return self._vtime

    def advance(self, dt):
        self._vtime += dt


class Recorder:
    def __init__(self):
        self.labels = []       # protocol tokens
        self.task2tid = {}
        self.procs = {}        # tid -> FakeProc
        self.pids = {}         # pid -> FakeProc
        self.spawn_fail = False
        self.max_alive = 0
        self.cores = 0
        self.logdir = None
        self.logs_broken = False
        self.log_checks = []
        self.orphans = []

    def cur(self):
        try:
            t = asyncio.current_task()
        except RuntimeError:
            return None
        return self.task2tid.get(t)

    def log(self, tok):
        self.labels.append(tok)

    def alive(self):
        return sum(1 for p in self.procs.values() if p.returncode is None)


def make_classes(rec):
    class ISem(asyncio.Semaphore):
        async def acquire(self):
            rec.log("q:%s" % rec.cur())
            r = await super().acquire()
            rec.log("a:%s" % rec.cur())
            return r

        def release(self):
            rec.log("r:%s" % rec.cur())
            super().release()

    class LogDict(dict):
        def __setitem__(self, k, v):
            rec.log("s:%s:%s" % (k, v.name.lower()))
            super().__setitem__(k, v)
            # "the stdout and stderr of a task that ran to its end are stored completely": checked at
            # the moment the final state is written (the logs are written before it)
            p = rec.procs.get(k)
            name = v.name.lower()
            if p is not None and p.returncode is not None and p.returncode >= 0 and rec.logdir and not rec.logs_broken \
                    and (name == "completed" or (name == "failed" and p.returncode != 0)):
                try:
                    with open(os.path.join(rec.logdir, "t%d.stdout" % k), "rb") as f:
                        so = f.read()
                    with open(os.path.join(rec.logdir, "t%d.stderr" % k), "rb") as f:
                        se = f.read()
                    rec.log_checks.append((k, so == p.stdout_data and se == p.stderr_data))
                except OSError:
                    rec.log_checks.append((k, False))

    class FakeProc:
        _next_pid = [100000]

        def __init__(self, tid, loop):
            self.tid = tid
            self.returncode = None
            self.pid = FakeProc._next_pid[0]
            FakeProc._next_pid[0] += 1
            self._waiters = []
            self._loop = loop
            # arbitrary bytes (a tool printing Latin-1 or binary data): the logs must hold them unchanged
            self.stdout_data = ("out-%s\n" % tid).encode() * (1 + tid % 3) + b"sm\xf8rrebr\xf8d \xff\xfe\x00\x80\n"
            self.stderr_data = ("err-%s\n" % tid).encode() + b"\xe9\xa0\n"
            rec.procs[tid] = self
            rec.pids[self.pid] = self

        async def _wait(self):
            if self.returncode is None:
                fut = self._loop.create_future()
                self._waiters.append(fut)
                await fut

        async def communicate(self):
            await self._wait()
            return (self.stdout_data, self.stderr_data)

        async def wait(self):
            await self._wait()
            return self.returncode

        def do_exit(self, code):
            if self.returncode is None:
                self.returncode = code
                rec.log("x:%s:%s" % (self.tid, code))
                for f in self._waiters:
                    if not f.done():
                        f.set_result(None)

        def send_signal(self, sig):
            if self.returncode is not None:
                raise ProcessLookupError()
            if int(sig) == int(signal.SIGTERM) and self.tid % 3 == 1:
                return          # this task's script traps SIGTERM: only SIGKILL ends it
            rec.log("k:%s" % self.tid)
            self.do_exit(-int(sig))

        def kill(self):
            self.send_signal(signal.SIGKILL)

        def terminate(self):
            self.send_signal(signal.SIGTERM)

    return ISem, LogDict, FakeProc


def settle_full(loop, limit=20000):
    for _ in range(limit):
        loop.call_soon(loop.stop)
        loop.run_forever()
        due = any((not h._cancelled) and h._when <= loop.time() for h in loop._scheduled)
        if not loop._ready and not due:
            return True
    return False


def in_loop(loop, fn):
    """run the synchronous function `fn` inside the running loop WITHOUT letting any other ready
    callback or due timer run (operations happen strictly between loop iterations)"""
    import collections
    import heapq
    saved_ready, saved_sched = loop._ready, loop._scheduled
    loop._ready = collections.deque()
    loop._scheduled = []
    box = {}

    def call():
        try:
            box["r"] = fn()
        except BaseException as exc:  # noqa
            box["e"] = exc

    try:
        loop.call_soon(call)
        loop.call_soon(loop.stop)
        loop.run_forever()
    finally:
        saved_ready.extend(loop._ready)
        for h in loop._scheduled:
            heapq.heappush(saved_sched, h)
        loop._ready, loop._scheduled = saved_ready, saved_sched
    if "e" in box:
        raise box["e"]
    return box.get("r")


def drive(coro, problems, what):
    try:
        coro.send(None)
        problems.append(what + " awaited")
    except StopIteration:
        pass


def settle_steps(loop, k):
    for _ in range(k):
        loop.call_soon(loop.stop)
        loop.run_forever()


def run_ops(max_cores, ops, fine=False, yield_in_spawn=False):
    """returns dict(labels=[tokens], states={tid: name}, logs_ok=bool, info=...)"""
    from gwf.backends import local
    from gwf.backends.local import Scheduler

    rec = Recorder()
    rec.cores = max_cores
    ISem, LogDict, FakeProc = make_classes(rec)
    wd = tempfile.mkdtemp(prefix="gwfverif-pool-")
    logdir = os.path.join(wd, ".gwf", "logs")
    os.makedirs(logdir)
    rec.logdir = logdir
    import logging
    logging.getLogger("gwf.backends.local").setLevel(logging.CRITICAL + 1)
    loop = VLoop()
    old_loop_policy_loop = None
    try:
        old_loop_policy_loop = asyncio.get_event_loop_policy().get_event_loop()
    except Exception:
        pass
    asyncio.set_event_loop(loop)
    real_shell = local.asyncio.create_subprocess_shell
    real_killpg = os.killpg

    async def fake_shell(script, stdout=None, stderr=None, cwd=None, **kwargs):
        # the scheduler may start the process from a helper task: the task id travels in the script text
        tid = int(script.rsplit("tid=", 1)[1]) if "tid=" in script else rec.cur()
        if rec.spawn_fail:
            if yield_in_spawn:
                await asyncio.sleep(0)
            rec.log("f:%s" % tid)
            raise FileNotFoundError(cwd)
        # like asyncio: the OS process exists BEFORE the call returns (pipes are connected afterwards)
        rec.log("p:%s" % tid)
        p = FakeProc(tid, loop)
        rec.max_alive = max(rec.max_alive, rec.alive())
        if yield_in_spawn:
            try:
                await asyncio.sleep(0)
            except asyncio.CancelledError:
                # asyncio's own clean-up of a cancelled start-up kills the shell's pid only: what the script
                # has spawned meanwhile keeps running (and keeps the pipes open)
                p.do_exit(-9)
                rec.orphans.append(tid)
                raise
        return p

    def fake_killpg(pid, sig):
        p = rec.pids.get(pid)
        if p is None:
            return real_killpg(pid, sig)
        if p.returncode is not None:
            raise ProcessLookupError()
        p.send_signal(sig)

    local.asyncio.create_subprocess_shell = fake_shell
    os.killpg = fake_killpg
    problems = []
    log_checks = []
    try:
        async def mk():
            s = Scheduler(wd, max_cores=max_cores)
            s.cores_ressource = ISem(max_cores)
            s.task_states = LogDict()
            return s

        s = loop.run_until_complete(mk())
        settle_full(loop)

        def q_label():
            rec.log("Q:" + ",".join(s.task_states[k].name.lower() for k in sorted(s.task_states)))

        def do_settle():
            ok = settle_full(loop)
            if not ok:
                problems.append("loop did not settle")
            q_label()

        for op in ops:
            kind = op[0]
            if kind == "enq":
                deps, limit = list(op[1]), op[2]
                rec.log("e:%s:%s" % (",".join(str(d) for d in deps), "-" if limit is None else limit))

                async def e():
                    tid = await s.enqueue_task("t%d" % len(s.tasks), "true # tid=%d" % len(s.tasks), wd, limit, deps)
                    rec.task2tid[s.tasks[tid]] = tid

                    def done_cb(t, tid=tid):
                        rec.log("d:%s:%s" % (tid, "1" if t.cancelled() else "0"))
                        if not t.cancelled() and t.exception() is not None:
                            problems.append("task %s raised %r" % (tid, t.exception()))
                    s.tasks[tid].add_done_callback(done_cb)
                    return tid
                # enqueue_task itself does not await anything: drive it without running other callbacks
                in_loop(loop, lambda: drive(e(), problems, "enqueue_task"))
            elif kind == "cancel":
                tid = op[1]
                if tid in s.tasks:
                    rec.log("c:%s" % tid)
                    in_loop(loop, lambda: drive(s.cancel_task(tid), problems, "cancel_task"))
                else:
                    continue
            elif kind == "exit":
                p = rec.procs.get(op[1])
                if p is None or p.returncode is not None:
                    continue
                p.do_exit(op[2])
            elif kind == "tick":
                rec.log("t:%s" % op[1])
                loop.advance(op[1])
            elif kind == "settle":
                if op[1] is None:
                    do_settle()
                else:
                    settle_steps(loop, op[1])
                continue
            elif kind == "spawnfail":
                rec.spawn_fail = bool(op[1])
                continue
            elif kind == "breaklogs":
                rec.log("b:%d" % (1 if op[1] else 0))
                rec.logs_broken = bool(op[1])
                if op[1]:
                    if os.path.isdir(logdir):
                        shutil.rmtree(logdir)
                else:
                    os.makedirs(logdir, exist_ok=True)
            if rec.alive() > rec.max_alive:
                rec.max_alive = rec.alive()
            if not fine:
                do_settle()
        if fine:
            do_settle()
        # drain: let everything still running finish so the final Q is a fully settled pool
        for _ in range(200):
            alive = [p for p in rec.procs.values() if p.returncode is None]
            if alive:
                alive[0].do_exit(0)
                do_settle()
                continue
            pending = [t for t in s.tasks.values() if not t.done()]
            if not pending:
                break
            rec.log("t:1")
            loop.advance(1)
            do_settle()
        states = {k: v.name.lower() for k, v in s.task_states.items()}
        if rec.orphans:
            problems.append("child-process-survives-cancel-or-timeout (start-up of task %s was cancelled: only the shell was killed)" % rec.orphans[0])
        log_checks = rec.log_checks
        sem_value = s.cores_ressource._value
        return {"labels": rec.labels, "states": states, "max_alive": rec.max_alive, "problems": problems,
                "log_checks": log_checks, "sem_value": sem_value, "n_tasks": len(s.tasks)}
    finally:
        local.asyncio.create_subprocess_shell = real_shell
        os.killpg = real_killpg
        try:
            for t in asyncio.all_tasks(loop):
                t.cancel()
            settle_steps(loop, 5)
        except Exception:
            pass
        loop.close()
        asyncio.set_event_loop(None)
        shutil.rmtree(wd, ignore_errors=True)
