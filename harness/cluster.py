"""cluster.py — a simulated cluster (fake scheduler executables on PATH sharing a JSON state file)
and helpers to run the REAL gwf CLI against it, in-process (click CliRunner) or as a subprocess."""
import json
import logging
import os
import shutil
import subprocess
import sys

import common

FAKE = os.path.join(common.HARNESS, "fakes", "fakecluster.py")
NAMES = ["sbatch", "squeue", "sacct", "scancel", "sinfo", "qsub", "qstat", "qdel", "bsub", "bjobs", "bkill"]


class FakeCluster:
    def __init__(self, root, first_id=1000):
        self.root = root
        self.bin = os.path.join(root, "bin")
        os.makedirs(self.bin, exist_ok=True)
        for n in NAMES:
            p = os.path.join(self.bin, n)
            if not os.path.exists(p):
                os.symlink(FAKE, p)
        self.state_path = os.path.join(root, "cluster.json")
        if not os.path.exists(self.state_path):
            self.write({"next_id": first_id, "jobs": {}, "foreign": [], "faults": [], "calls": {}})

    # --- state
    def read(self):
        with open(self.state_path) as f:
            return json.load(f)

    def write(self, st):
        with open(self.state_path, "w") as f:
            json.dump(st, f)

    def update(self, fn):
        st = self.read()
        fn(st)
        self.write(st)

    def log(self):
        p = self.state_path + ".log"
        if not os.path.exists(p):
            return []
        with open(p) as f:
            return [json.loads(l) for l in f if l.strip()]

    def clear_log(self):
        p = self.state_path + ".log"
        if os.path.exists(p):
            os.remove(p)

    def env(self):
        e = {"PATH": self.bin + os.pathsep + "/usr/bin:/bin", "FAKE_CLUSTER_STATE": self.state_path,
             "HOME": self.root, "LC_ALL": "C.UTF-8", "NO_COLOR": "1"}
        return e


def reset_process_state():
    root = logging.getLogger()
    for h in list(root.handlers):
        root.removeHandler(h)
    root.setLevel(logging.WARNING)


def run_gwf(args, cwd, cluster=None, input=None, in_process=True, extra_env=None, timeout=120):
    """run `gwf <args>` with cwd; returns (exit_code, stdout, stderr)"""
    env = dict(cluster.env()) if cluster is not None else {"PATH": "/usr/bin:/bin", "HOME": cwd, "LC_ALL": "C.UTF-8", "NO_COLOR": "1"}
    if extra_env:
        env.update(extra_env)
    if not in_process:
        e = dict(env)
        e["PYTHONPATH"] = os.path.join(common.REPO, "src")
        e["PYTHONDONTWRITEBYTECODE"] = "1"
        r = subprocess.run([common.PY, "-c", "import sys; from gwf.cli import main; sys.argv[0]='gwf'; main()"] + list(args),
                           cwd=cwd, env=e, input=input, capture_output=True, text=True, timeout=timeout)
        return r.returncode, r.stdout, r.stderr
    from click.testing import CliRunner
    old_env = dict(os.environ)
    old_cwd = os.getcwd()
    old_path = list(sys.path)
    old_mods = set(sys.modules)
    try:
        os.environ.clear()
        os.environ.update(env)
        os.chdir(cwd)
        reset_process_state()
        import types
        import gwf.cli
        import gwf.backends.local as _local
        # the backends compute their priority (which executables exist) when first imported: recompute it
        # under THIS invocation's PATH, as a fresh gwf process would
        for _name in ("slurm", "sge", "lsf"):
            _mod = sys.modules.get("gwf.backends." + _name)
            if _mod is not None:
                _mod.setup = (_mod.create_backend, _mod.priority())
        # never really wait for a worker pool that is not there (Client.connect retries with 2**n s sleeps)
        if not getattr(_local.time, "_verif_shim", False):
            _local.time = types.SimpleNamespace(sleep=lambda s: None, _verif_shim=True)
        try:
            runner = CliRunner(mix_stderr=False)
        except TypeError:
            runner = CliRunner()
        res = runner.invoke(gwf.cli.main, list(args), input=input, catch_exceptions=True)
        code = res.exit_code
        out = res.stdout
        try:
            err = res.stderr
        except Exception:
            err = ""
        if res.exception is not None and not isinstance(res.exception, SystemExit):
            err += "\nEXC %s: %s" % (type(res.exception).__name__, res.exception)
            code = code or 70
        return code, out, err
    finally:
        os.environ.clear()
        os.environ.update(old_env)
        os.chdir(old_cwd)
        sys.path[:] = old_path
        # forget only modules loaded from the project directory (the workflow file and its helpers);
        # never un-import library / C-extension modules (re-initialising pyexpat crashes the interpreter)
        for m in set(sys.modules) - old_mods:
            f = getattr(sys.modules.get(m), "__file__", None) or ""
            if f.startswith(os.path.realpath(cwd) + os.sep) or f.startswith(cwd + os.sep):
                sys.modules.pop(m, None)
        reset_process_state()


def write_workflow(projdir, targets, defaults=None, extra=""):
    """targets: list of dicts name, inputs, outputs, protect, spec, options (paths relative to projdir)"""
    os.makedirs(projdir, exist_ok=True)
    lines = ["from gwf import Workflow, AnonymousTarget", "gwf = Workflow(defaults=%r)" % (defaults or {}), extra]
    for t in targets:
        opts = "".join(", %s=%r" % kv for kv in (t.get("options") or {}).items())
        lines.append("gwf.target(%r, inputs=%r, outputs=%r, protect=%r%s) << %r" % (
            t["name"], t["inputs"], t["outputs"], list(t.get("protect") or []), opts, t.get("spec", "")))
    with open(os.path.join(projdir, "workflow.py"), "w") as f:
        f.write("\n".join(lines) + "\n")


def read_json(path):
    try:
        with open(path) as f:
            return json.load(f)
    except FileNotFoundError:
        return None


def snapshot_tree(projdir, skip=(".gwf",)):
    """{relative path: (size, mtime_ns)} of every regular file below projdir except `skip` dirs"""
    out = {}
    for root, dirs, files in os.walk(projdir):
        rel = os.path.relpath(root, projdir)
        dirs[:] = [d for d in dirs if os.path.normpath(os.path.join(rel, d)) not in skip and d != "__pycache__"]
        for fn in files:
            p = os.path.join(root, fn)
            st = os.stat(p)
            out[os.path.normpath(os.path.join(rel, fn))] = (st.st_size, st.st_mtime_ns)
    return out
