"""main.py — entry point of every check: ./check Cxx [--tier quick|thorough] [--replay f]"""
import argparse
import importlib
import os
import sys
import traceback

sys.path.insert(0, os.path.dirname(os.path.abspath(__file__)))
import common  # noqa


def watchdog(seconds, prop):
    """a check that runs too long is a broken check (exit 2), never a verdict"""
    import faulthandler
    import signal
    import threading

    def fire():
        sys.stderr.write("CHECK-BROKEN %s: watchdog after %d s; stacks follow\n" % (prop, seconds))
        faulthandler.dump_traceback(all_threads=True)
        print("CHECK-BROKEN %s: timed out after %d s" % (prop, seconds))
        sys.stdout.flush()
        os._exit(2)
    t = threading.Timer(seconds, fire)
    t.daemon = True
    t.start()
    try:
        faulthandler.register(signal.SIGUSR1, all_threads=True)
    except Exception:
        pass


def main():
    ap = argparse.ArgumentParser()
    ap.add_argument("prop")
    ap.add_argument("--tier", default=os.environ.get("VERIF_TIER") or "quick")
    ap.add_argument("--replay")
    ap.add_argument("--setup", action="store_true")
    args = ap.parse_args()
    try:
        seed = int(os.environ.get("VERIF_SEED", "0") or 0)
    except ValueError:
        seed = 0
    if args.prop == "setup":
        return setup()
    tier = args.tier if args.tier in ("quick", "thorough") else "quick"
    watchdog(int(os.environ.get("VERIF_WATCHDOG", "900" if tier == "quick" else "7200")), args.prop)
    mod = importlib.import_module("props." + args.prop)
    chk = common.Check(args.prop, args.tier if args.tier in ("quick", "thorough") else "quick", seed)
    try:
        chk.proof = common.prepare(args.prop, chk.tier)
        if args.replay:
            import json
            with open(args.replay) as f:
                data = json.load(f)
            return mod.replay(chk, data)
        if chk.proof.model_ok:
            mod.run(chk)
        return chk.finish()
    except common.Broken as exc:
        if chk.violations:
            # a violation with a replay was already established before a later part of the check broke: report it
            chk.notes.append("a later part of the check broke: %s" % str(exc)[:300])
            return chk.finish()
        print("CHECK-BROKEN %s: %s" % (args.prop, exc))
        return 2
    except Exception:  # noqa
        traceback.print_exc()
        if chk.violations:
            chk.notes.append("a later part of the check raised an exception")
            return chk.finish()
        print("CHECK-BROKEN %s: harness exception" % args.prop)
        return 2


def setup():
    """MANIFEST.setup_cmd: regenerate tables, build every Lean target once"""
    r = common.sh([common.PY, os.path.join(common.HARNESS, "extract.py")], env=common.impl_env())
    print(r.stdout)
    r = common.sh(["lake", "build"], cwd=common.LEAN, timeout=3600)
    print(r.stdout[-3000:])
    return 0 if r.returncode == 0 else 2


if __name__ == "__main__":
    sys.exit(main())
