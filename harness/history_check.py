"""history_check.py — run seeded command histories on real temporary projects (worker processes),
send the model queries to the Lean driver in one batch, compare, attribute discrepancies to
properties.  Used by C05, C06, C15, C16, C17, C18 (and the CLI parts of C02, C03, C04)."""
import os
import random
import shutil
import traceback

import cluster
import common
import history as H

STATUSES = ["shouldrun", "submitted", "running", "completed", "failed", "cancelled"]


def rand_patterns(rng, names, allow_nomatch=True):
    r = rng.random()
    if r < 0.35:
        return [rng.choice(names)]
    if r < 0.55:
        return rng.sample(names, min(len(names), rng.randint(1, 3)))
    if r < 0.7:
        return [rng.choice(names)[0] + "*"]
    if r < 0.8:
        return ["*"]
    if r < 0.9 and allow_nomatch:
        return ["NoSuchTarget*"] if rng.random() < 0.5 else [rng.choice(names).swapcase() + "zz"]
    return [rng.choice(names)[:1] + "?*", rng.choice(names)]


def focus_c05(proj, rng, steps):
    names = [t["name"] for t in proj.targets]
    steps.append(H.step_status(proj))
    for _ in range(3):
        o = {"statuses": rng.sample(STATUSES, rng.choice([0, 0, 1, 2, 6])), "endpoints": rng.random() < 0.4,
             "patterns": rand_patterns(rng, names) if rng.random() < 0.5 else [], "fmt": rng.choice(["default", "default", "summary"])}
        steps.append(H.step_status(proj, o))
    if rng.random() < 0.5:
        steps.append(H.step_dry(proj))
        steps.append(H.step_run(proj))
        steps[-1]["agree_with"] = (len(steps) - 6, len(steps) - 2)   # (plain status index, dry index)
    else:
        pats = rand_patterns(rng, names)
        steps.append(H.step_dry(proj, pats))
        steps.append(H.step_run(proj, pats))
        steps[-1]["agree_with"] = (None, len(steps) - 2)
    steps.append(H.step_status(proj))
    if rng.random() < 0.5:
        # patterns are given but select nothing: the requested cone is empty (not "all endpoints")
        nomatch = [rng.choice(["NoSuchTarget", "zzz*", "?"])] + ([rng.choice(["Nope_[0-9]", "__none__"])] if rng.random() < 0.4 else [])
        steps.append(H.step_dry(proj, nomatch))
        steps.append(H.step_run(proj, nomatch))
    if rng.random() < 0.5:
        steps.append(H.step_info(proj, [rng.choice(names)] if rng.random() < 0.3 else [], rng.choice(["json", "json", "pretty"])))


def focus_c03(proj, rng, steps):
    """the dependency relation as shown to the user, next to what the scheduler acts on"""
    names = [t["name"] for t in proj.targets]
    steps.append(H.step_info(proj, [], "json"))
    steps.append(H.step_info(proj, [], "pretty"))
    steps.append(H.step_info(proj, rng.sample(names, min(len(names), 2)), "json"))
    steps.append(H.step_status(proj))
    steps.append(H.step_dry(proj))


def focus_invalid(proj, rng, steps):
    """plant a defect, then every command must fail with the graph's error and change nothing"""
    names = [t["name"] for t in proj.targets]
    kind = rng.choice(["cycle", "self", "multi", "missing"])
    ts = proj.targets
    import gen
    if kind == "self" or (kind == "cycle" and len(ts) < 2):
        t = rng.choice(ts)
        outs = gen.flatten_shape(t["outputs"]) or ["selfout"]
        t["outputs"] = outs
        t["inputs"] = gen.flatten_shape(t["inputs"]) + [outs[0]]
    elif kind == "cycle":
        a, b = rng.sample(ts, 2)
        oa = gen.flatten_shape(a["outputs"]) or ["cyc_a"]
        ob = gen.flatten_shape(b["outputs"]) or ["cyc_b"]
        a["outputs"], b["outputs"] = oa, ob
        a["inputs"] = gen.flatten_shape(a["inputs"]) + [ob[0]]
        b["inputs"] = gen.flatten_shape(b["inputs"]) + [oa[0]]
    elif kind == "multi":
        a = rng.choice(ts)
        b = rng.choice(ts)
        oa = gen.flatten_shape(a["outputs"]) or ["dup"]
        a["outputs"] = oa
        b["outputs"] = gen.flatten_shape(b["outputs"]) + ["./" + oa[0]]
    else:
        t = rng.choice(ts)
        t["inputs"] = gen.flatten_shape(t["inputs"]) + ["no/such/source"]
    proj.write()
    # logs left by earlier runs, some of a target that is no longer part of the workflow
    for n in names[:2] + ["RemovedTarget"]:
        for ext in (".stdout", ".stderr"):
            proj.put_file(os.path.join(".gwf", "logs", n + ext), content="log of %s\n" % n)
    steps.append(H.step_status(proj))
    steps.append(H.step_info(proj))
    steps.append(H.step_dry(proj))
    steps.append(H.step_run(proj, rand_patterns(rng, names) if rng.random() < 0.5 else []))
    steps.append(H.step_touch(proj))
    steps.append(H.step_clean(proj, all_=rng.random() < 0.5))
    steps.append(H.step_cancel(proj))


def respell_protect(proj, rng):
    """protect entries spelled differently from the outputs they protect (relative, ./, d/../, absolute, absolute unnormalised)"""
    import gen
    for t in proj.targets:
        outs = gen.flatten_shape(t["outputs"])
        prot = []
        for o in outs:
            if rng.random() < 0.35:
                base = os.path.normpath(o)
                c = rng.randint(0, 4)
                prot.append([base, "./" + base, "q/../" + base, os.path.join(proj.dir, base),
                             os.path.join(proj.dir, "z", "..", base)][c])
        t["protect"] = prot
    proj.write()


def focus_c15(proj, rng, steps):
    names = [t["name"] for t in proj.targets]
    respell_protect(proj, rng)
    proj.put_file("unrelated.txt")
    proj.put_file(".gwf/logs/%s.stdout" % names[0])
    if rng.random() < 0.35:
        # a declared output that exists as a DIRECTORY (a tool that writes a folder): it cannot be unlinked, and
        # that must not keep clean from deleting the outputs that come after it
        import gen
        outs = [os.path.normpath(o) for t in proj.targets for o in gen.flatten_shape(t["outputs"])]
        if outs:
            o = os.path.join(proj.dir, rng.choice(outs))
            if os.path.isfile(o):
                os.remove(o)
            if not os.path.exists(o):
                proj.put_file(os.path.join(os.path.relpath(o, proj.dir), "part-0"))
    for _ in range(rng.randint(1, 3)):
        pats = rand_patterns(rng, names) if rng.random() < 0.5 else []
        force = rng.random() < 0.6
        steps.append(H.step_clean(proj, pats, all_=rng.random() < 0.5, force=force,
                                  answer=None if force else rng.choice(["y\n", "n\n", ""])))
    steps.append(H.step_status(proj))


def focus_c16(proj, rng, steps):
    names = [t["name"] for t in proj.targets]
    proj.put_file("unrelated.txt")
    if rng.random() < 0.3 and os.path.exists(os.path.join(proj.dir, "src0")):
        proj.put_file("src0", stamp=H.BASE_T + 10_000_000)     # a source dated in the future
    if rng.random() < 0.5:
        steps.append(H.step_touch(proj, rand_patterns(rng, names) if rng.random() < 0.5 else []))
        steps.append(H.step_status(proj))
    else:
        steps.append(H.step_touch_then_status(proj, rand_patterns(rng, names) if rng.random() < 0.4 else []))
    if rng.random() < 0.4:
        steps.append(H.step_touch_then_status(proj))


def focus_c17(proj, rng, steps):
    names = [t["name"] for t in proj.targets]
    r = rng.random()
    if r < 0.5:
        steps.append(H.step_cancel(proj, rand_patterns(rng, names), fail_nth=rng.choice([None, None, 1, 2]), fail_kind=rng.choice(["exit1", "stderr_error"])))
    elif r < 0.75:
        steps.append(H.step_cancel(proj, [], force=True, fail_nth=rng.choice([None, 1, 2, 3]), fail_kind=rng.choice(["exit1", "stderr_error"])))
    else:
        steps.append(H.step_cancel(proj, [], force=False, answer=rng.choice(["y\n", "n\n", ""])))
    steps.append(H.step_status(proj))
    steps.append(H.step_run(proj))
    steps.append(H.step_status(proj))


def edit_spec(proj, rng):
    t = rng.choice(proj.targets)
    t["spec"] = t["spec"] + "# edit %d\n" % rng.randint(0, 999)
    proj.write()


def focus_c18(proj, rng, steps):
    names = [t["name"] for t in proj.targets]
    for _ in range(rng.randint(5, 12)):
        r = rng.random()
        pats = rand_patterns(rng, [t["name"] for t in proj.targets], allow_nomatch=False) if rng.random() < 0.4 else []
        if r < 0.22:
            steps.append(H.step_run(proj, pats, reject_nth=rng.choice([None, None, None, 1, 2])))
        elif r < 0.32:
            steps.append(H.step_dry(proj, pats))
        elif r < 0.42:
            steps.append(H.step_status(proj))
        elif r < 0.54:
            steps.append(H.step_touch(proj, pats))
        elif r < 0.66:
            steps.append(H.step_clean(proj, pats, all_=rng.random() < 0.5, force=True))
        elif r < 0.82:
            edit_spec(proj, rng)
        elif r < 0.92:
            proj.set_flag("use_spec_hashes", not proj.hashing, rng)
        elif len(proj.targets) > 1:
            # remove or rename a target: its record stays in the hash file and must not disturb the others
            t = rng.choice(proj.targets)
            if rng.random() < 0.5:
                proj.targets.remove(t)
                import gen
                outs = set(os.path.normpath(o) for o in gen.flatten_shape(t["outputs"]))
                for u in proj.targets:
                    u["inputs"] = [i for i in gen.flatten_shape(u["inputs"]) if os.path.normpath(i) not in outs]
            else:
                t["name"] = t["name"] + "_r"
            proj.write()
    steps.append(H.step_status(proj))


def drain(proj, rng, ok=True, ties=True):
    """the cluster executes every pending/running job in a seeded legal order (biased towards running late
    submissions first); a successful job
    (re)creates its target's declared outputs with a fresh time stamp"""
    import gen
    by_name = {t["name"]: t for t in proj.targets}
    for _ in range(200):
        st = proj.cluster.read()
        live = [j for j in st["jobs"].values() if j["state"] in ("pending", "running")]
        if not live:
            return
        done_ok = {j["id"] for j in st["jobs"].values() if j["state"] == "completed"}
        gone = {j["id"] for j in st["jobs"].values() if j["state"] not in ("pending", "running")}
        runnable = [j for j in live if all((d in done_ok) or (d not in st["jobs"]) or (j["kind"] == "hold" and d in gone) for d in j["deps"])]
        if not runnable:
            # dependencies failed/cancelled: the scheduler never starts these (afterok/done): cancel them
            for j in live:
                st["jobs"][j["id"]]["state"] = "cancelled"
            proj.cluster.write(st)
            return
        # adversarial but legal: mostly start the LATEST submitted runnable job first, so a job whose
        # prerequisites did not reach the scheduler really runs before the producers of its inputs
        j = max(runnable, key=lambda x: x["order"]) if rng.random() < 0.6 else rng.choice(runnable)
        st["jobs"][j["id"]]["state"] = "completed" if ok else "failed"
        proj.cluster.write(st)
        if ok and j["name"] in by_name:
            # sometimes the job preserves time stamps (cp -p, a coarse clock): its outputs get exactly the stamp
            # of its newest input — a tie, which make semantics treats as up to date
            stamp = None
            ins = [os.path.join(proj.dir, os.path.normpath(i)) for i in gen.flatten_shape(by_name[j["name"]]["inputs"])]
            ins = [i for i in ins if os.path.exists(i)]
            if ties and ins and rng.random() < 0.35:
                stamp = max(int(os.stat(i).st_mtime) for i in ins)
            for o in gen.flatten_shape(by_name[j["name"]]["outputs"]):
                proj.put_file(os.path.normpath(o), stamp=stamp)


def focus_c06(proj, rng, steps):
    import gen
    # "from any project state in which no job is pending or running"
    st = proj.cluster.read()
    for j in st["jobs"].values():
        if j["state"] in ("pending", "running"):
            j["state"] = rng.choice(["failed", "cancelled", "completed"])
    proj.cluster.write(st)
    if proj.backend != "local" and rng.random() < 0.5:
        # a scheduler that has forgotten one tracked job while a later tracked job failed: each target must still be
        # judged by ITS OWN job (one failed job is read wrongly if answers are paired with ids by position)
        tr = cluster.read_json(proj.tracked_path()) or {}
        st = proj.cluster.read()
        names = sorted(tr)            # gwf queries in the order of the tracked file
        if len(names) < 2:
            for t in proj.targets:
                if t["name"] not in tr:
                    jid = str(st["next_id"]); st["next_id"] += 1
                    tr[t["name"]] = jid
                    st["jobs"][jid] = {"id": jid, "state": "completed", "deps": [], "kind": {"slurm": "afterok", "sge": "hold", "lsf": "done"}[proj.backend],
                                       "name": t["name"], "script": "", "argv": [], "code": None, "acct": None, "order": len(st["jobs"])}
            names = list(tr)
        if len(names) >= 2:
            order = list(tr)          # file order = insertion order
            k = rng.randrange(len(order) - 1)
            st["jobs"].pop(tr[order[k]], None)                           # forgotten by the scheduler
            later = rng.choice(order[k + 1:])
            if tr[later] in st["jobs"]:
                st["jobs"][tr[later]]["state"] = "failed"
            proj.cluster.write(st)
            import json as _json
            with open(proj.tracked_path(), "w") as f:
                _json.dump(tr, f)
    pats = rand_patterns(rng, [t["name"] for t in proj.targets], allow_nomatch=False) if rng.random() < 0.3 else []
    steps.append(H.step_run(proj, pats))
    drain(proj, rng)
    steps.append(H.step_status(proj))
    steps[-1]["converged_after"] = len(steps) - 2
    steps.append(H.step_run(proj, pats))
    steps[-1]["noop_after"] = True
    drain(proj, rng)
    for _ in range(rng.randint(1, 2)):
        srcs = [s for s in ("src0", "src1") if os.path.exists(os.path.join(proj.dir, s))]
        outs = [os.path.normpath(o) for t in proj.targets for o in gen.flatten_shape(t["outputs"])
                if os.path.exists(os.path.join(proj.dir, os.path.normpath(o)))]
        if srcs and (rng.random() < 0.5 or not outs):
            proj.put_file(rng.choice(srcs))                       # modify one source file
        elif outs:
            os.remove(os.path.join(proj.dir, rng.choice(outs)))  # delete one output
        steps.append(H.step_dry(proj))
        steps.append(H.step_run(proj))
        drain(proj, rng)
        steps.append(H.step_status(proj))


def focus_c01(proj, rng, steps):
    """the file- and spec-based decision across invocations: run, drain (sometimes with tied stamps), then edits of a
    spec, modified sources, deleted outputs, REJECTED submissions (which must not count as having run), each followed
    by status; no job is left live, so every row is decided by files and recorded specs alone"""
    import gen
    st = proj.cluster.read()
    for j in st["jobs"].values():
        if j["state"] in ("pending", "running"):
            j["state"] = rng.choice(["completed", "completed", "failed"])
    proj.cluster.write(st)
    r0 = rng.random()
    if r0 < 0.25:
        # hashing switched OFF the way a user does it: a recorded-spec mismatch (or no record at all) must not make
        # an up-to-date target stale
        proj.set_flag("use_spec_hashes", False, rng, via_cli=True)
    elif r0 < 0.8 and not proj.hashing:
        proj.set_flag("use_spec_hashes", True, rng)
    steps.append(H.step_status(proj))
    steps.append(H.step_run(proj))
    drain(proj, rng)
    steps.append(H.step_status(proj))
    for _ in range(rng.randint(1, 3)):
        what = rng.choice(["edit", "edit", "source", "delete"])
        srcs = [s for s in ("src0", "src1") if os.path.exists(os.path.join(proj.dir, s))]
        outs = [os.path.normpath(o) for t in proj.targets for o in gen.flatten_shape(t["outputs"])
                if os.path.exists(os.path.join(proj.dir, os.path.normpath(o)))]
        if what == "edit":
            edit_spec(proj, rng)
        elif what == "source" and srcs:
            proj.put_file(rng.choice(srcs))
        elif outs:
            os.remove(os.path.join(proj.dir, rng.choice(outs)))
        steps.append(H.step_status(proj))
        r = rng.random()
        if r < 0.4:
            steps.append(H.step_run(proj, reject_nth=1))     # the scheduler refuses the first submission: nothing ran
            steps.append(H.step_status(proj))
            steps[-1]["unchanged_since"] = len(steps) - 3     # status before the refused run
        elif r < 0.75:
            steps.append(H.step_run(proj, reject_nth=2))     # first submission accepted, second refused (gwf stops there)
            drain(proj, rng, ties=False)
            steps.append(H.step_status(proj))
            steps[-1]["accepted_completed"] = len(steps) - 2
        steps.append(H.step_run(proj))
        drain(proj, rng)
        steps.append(H.step_status(proj))


def progress(proj, rng):
    """the cluster makes some legal progress: a few pending jobs start / finish (ok or not)"""
    st = proj.cluster.read()
    for j in sorted(st["jobs"].values(), key=lambda j: j["order"]):
        if j["state"] == "pending" and rng.random() < 0.5:
            deps_ok = all(st["jobs"].get(d, {"state": "completed"})["state"] == "completed" for d in j["deps"])
            if deps_ok:
                j["state"] = rng.choice(["running", "completed", "failed"])
        elif j["state"] == "running" and rng.random() < 0.5:
            j["state"] = rng.choice(["completed", "failed"])
    proj.cluster.write(st)


def focus_c07(proj, rng, steps):
    """several invocations: partial runs, cluster progress in between, prerequisites from earlier invocations"""
    names = [t["name"] for t in proj.targets]
    if rng.random() < 0.3:
        steps.append(H.step_run(proj, [rng.choice(["NoSuchTarget", "zzz*"])]))        # selects nothing: submits nothing
    if not (cluster.read_json(proj.tracked_path()) or {}):
        # nothing tracked yet (on a fresh local pool the first job gets id 0): submit a producer alone, leave its job
        # pending although its outputs are there already, then submit the rest — its consumers must wait for THAT job
        import gen
        outs_of = {t["name"]: {os.path.normpath(o) for o in gen.flatten_shape(t["outputs"])} for t in proj.targets}
        ins_of = {t["name"]: {os.path.normpath(i) for i in gen.flatten_shape(t["inputs"])} for t in proj.targets}
        producers = [a for a in names if outs_of[a] and any(outs_of[a] & ins_of[b] for b in names if b != a)
                     and not any(outs_of[c] & ins_of[a] for c in names if c != a)]
        if producers:
            a = rng.choice(producers)
            steps.append(H.step_run(proj, [a]))
            for o in outs_of[a]:
                proj.put_file(o)
            steps.append(H.step_run(proj))
            steps.append(H.step_status(proj))
    for _ in range(rng.randint(2, 4)):
        pats = rand_patterns(rng, names, allow_nomatch=False) if rng.random() < 0.6 else []
        steps.append(H.step_run(proj, pats, reject_nth=rng.choice([None, None, None, 2, 3]) if proj.backend != "local" else None))
        progress(proj, rng)
        if rng.random() < 0.3:
            steps.append(H.step_status(proj))


FOCI = {"C07": focus_c07, "C05": focus_c05, "invalid": focus_invalid, "C15": focus_c15, "C16": focus_c16, "C17": focus_c17,
        "C18": focus_c18, "C06": focus_c06, "C03": focus_c03, "C01": focus_c01}


HISTORY_LIMIT = 120


class HistoryTimeout(BaseException):
    pass


def run_history(job):
    seed, focus, tier = job
    backend = "slurm"
    if ":" in focus:
        focus, backend = focus.split(":")
    rng = random.Random("%s-%s-%s" % (focus, backend, seed))
    root = common.scratch_dir("gwfverif-hist-")
    steps = []
    import signal

    def on_alarm(signum, frame):
        raise HistoryTimeout("a gwf command of this history did not return within %d s" % HISTORY_LIMIT)
    old_handler = signal.signal(signal.SIGALRM, on_alarm)
    signal.alarm(HISTORY_LIMIT)
    try:
        import multiprocessing
        import resource
        soft, hard = resource.getrlimit(resource.RLIMIT_AS)
        if multiprocessing.current_process().name != "MainProcess" and (soft == resource.RLIM_INFINITY or soft > (8 << 30)):
            resource.setrlimit(resource.RLIMIT_AS, (8 << 30, hard))     # a command that loops while allocating must not take the machine down
    except (ImportError, ValueError, OSError):
        pass
    try:
        desc = H.gen_cli_project(rng, nmax=5 if tier == "quick" else 9)
        proj = H.materialise_project(root, desc, rng, backend=backend)
        # a local pool is usually started fresh (ids from 0, nothing tracked): half of the local histories start so
        fresh = backend == "local" and rng.random() < 0.5
        H.seed_cluster_history(proj, rng, p_tracked=0.0 if fresh else 0.5)
        FOCI[focus](proj, rng, steps)
        info = {"targets": proj.targets, "hashing": proj.hashing}
        return {"seed": seed, "focus": focus + ":" + backend, "steps": steps, "info": info, "error": None}
    except (HistoryTimeout, MemoryError, RecursionError) as exc:
        # the REAL command hung or blew up (the harness itself is straight-line code): a finding, not a broken check
        return {"seed": seed, "focus": focus + ":" + backend, "steps": steps, "info": None, "error": None,
                "hung": "%s: %s (after %d completed steps)" % (type(exc).__name__, exc, len(steps))}
    except Exception:  # noqa
        return {"seed": seed, "focus": focus + ":" + backend, "steps": steps, "info": None, "error": traceback.format_exc()[-1500:]}
    finally:
        signal.alarm(0)
        signal.signal(signal.SIGALRM, old_handler)
        try:
            if backend == "local":
                proj.cluster.close()
        except Exception:  # noqa
            pass
        shutil.rmtree(root, ignore_errors=True)


def agree_check(steps, idx):
    """C05: status rows in {shouldrun, failed, cancelled} == dry-run announcement == targets run submits"""
    bad = []
    p = steps[idx]
    si, di = p["agree_with"]
    dry = steps[di]
    if dry["code"] != 0 or p["code"] != 0:
        return bad
    ran = [s["name"] for s in p["subs"]]
    if sorted(dry["would"]) != sorted(ran):
        bad.append(("C05", "dry-run announced %r but run submitted %r (patterns %r)" % (dry["would"], ran, p["patterns"])))
    if si is not None and steps[si]["code"] == 0:
        rows = H.parse_status_table(steps[si]["out"])
        need = sorted(n for n, s in rows.items() if s in ("shouldrun", "failed", "cancelled"))
        if need != sorted(dry["would"]):
            bad.append(("C05", "status shows %r as shouldrun/failed/cancelled but dry-run announces %r" % (need, sorted(dry["would"]))))
        inflight = [n for n, s in rows.items() if s in ("submitted", "running", "completed")]
        if set(inflight) & set(ran):
            bad.append(("C05", "targets shown submitted/running/completed were submitted: %r" % sorted(set(inflight) & set(ran))))
    return bad


def c06_check(steps, idx, targets):
    """after a run whose jobs all succeeded: every target that declares outputs is completed, and the
    following run submits only targets without outputs"""
    import gen
    bad = []
    p = steps[idx]
    has_out = {t["name"]: bool(gen.flatten_shape(t["outputs"])) for t in targets}
    if "converged_after" in p and p["code"] == 0 and not steps[p["converged_after"]]["patterns"]:
        rows = H.parse_status_table(p["out"])
        wrong = sorted(n for n, s in rows.items() if has_out.get(n) and s != "completed")
        if wrong:
            bad.append(("C06", "after a fully successful run these targets with outputs are not completed: %r (%r)" % (wrong, rows)))
    if p.get("noop_after") and p["code"] == 0 and not p["patterns"]:
        again = sorted(s["name"] for s in p["subs"] if has_out.get(s["name"]))
        if again:
            bad.append(("C06", "re-run after convergence submitted targets that declare outputs: %r" % again))
    return bad


def unchanged_check(steps, idx):
    """a run in which the scheduler accepted nothing leaves every status as it was (nothing ran, nothing was recorded)"""
    s = steps[idx]
    before, run = steps[s["unchanged_since"]], steps[idx - 1]
    if run["kind"] != "run" or run.get("subs") or before["code"] != 0 or s["code"] != 0:
        return []
    a, b = H.parse_status_table(before["out"]), H.parse_status_table(s["out"])
    if a != b:
        diff = {n: (a.get(n), b.get(n)) for n in set(a) | set(b) if a.get(n) != b.get(n)}
        msg = "a run whose only submission was refused by the scheduler changed what status reports (before, after): %r" % diff
        return [("C01", msg), ("C18", msg), ("C05", msg), ("C02", msg)]
    return []


def accepted_completed_check(steps, idx, targets):
    """a target whose submission the scheduler accepted, whose job then ran successfully and re-created its outputs,
    is reported completed by the next status — whatever happened to LATER submissions of that run"""
    import gen
    s, run = steps[idx], steps[steps[idx]["accepted_completed"]]
    if s["code"] != 0 or run["kind"] != "run":
        return []
    has_out = {t["name"]: bool(gen.flatten_shape(t["outputs"])) for t in targets}
    rows = H.parse_status_table(s["out"])
    wrong = sorted(x["name"] for x in run["subs"] if has_out.get(x["name"]) and rows.get(x["name"]) != "completed")
    if wrong:
        msg = "accepted by the scheduler, ran successfully, outputs re-created — yet not reported completed: %r (%r)" % (wrong, rows)
        return [("C01", msg), ("C18", msg), ("C06", msg)]
    return []


def run_prop(chk, prop, foci, n_hist, rule, assumptions, nontrivial):
    chk.rule = rule
    chk.assumptions = assumptions
    jobs = []
    for fn, data in common.load_corpus(prop):
        if "focus" in data.get("input", {}):      # other corpus entries of this property belong to its other engines
            jobs.append((data["input"]["seed"], data["input"]["focus"], chk.tier))
    for i in range(n_hist):
        jobs.append((chk.seed * 1000003 + i, foci[i % len(foci)], chk.tier))
    results = common.pmap(run_history, jobs, chunk=2)
    lines = []
    for r in results:
        for s in r["steps"]:
            lines.append(s["line"])
    outs = common.run_driver_sharded(lines, shards=12)
    k = 0
    for r in results:
        if r["error"]:
            raise common.Broken("history %r crashed in the harness:\n%s" % ((r["seed"], r["focus"]), r["error"]))
        if r.get("hung"):
            k += len(r["steps"])
            chk.count("history")
            chk.case((r["seed"], r["focus"]), True)
            chk.violation({"kind": "history", "step": "hung", "what": r["hung"][:40]},
                          {"kind": "history", "input": {"seed": r["seed"], "focus": r["focus"]}, "what": "a gwf command did not terminate or exhausted memory/stack: " + r["hung"],
                           "completed_steps": [s["kind"] for s in r["steps"]]})
            continue
        disc = []
        for idx, s in enumerate(r["steps"]):
            mline = outs[k]
            k += 1
            if mline == "bad-op":
                raise common.Broken("driver could not parse: " + s["line"][:300])
            for (p, msg) in H.compare(s, mline):
                disc.append((p, idx, s["kind"], msg, mline[:400]))
            if "agree_with" in s:
                for (p, msg) in agree_check(r["steps"], idx):
                    disc.append((p, idx, "agree", msg, ""))
            if "converged_after" in s or s.get("noop_after"):
                for (p, msg) in c06_check(r["steps"], idx, r["info"]["targets"]):
                    disc.append((p, idx, "converge", msg, ""))
            if "unchanged_since" in s:
                for (p, msg) in unchanged_check(r["steps"], idx):
                    disc.append((p, idx, "refused-run", msg, ""))
            if "accepted_completed" in s:
                for (p, msg) in accepted_completed_check(r["steps"], idx, r["info"]["targets"]):
                    disc.append((p, idx, "accepted-then-refused", msg, ""))
        chk.count("history")
        chk.count("steps", len(r["steps"]))
        kinds = [s["kind"] for s in r["steps"]]
        chk.case((r["seed"], r["focus"]), nontrivial(r),
                 sample={"seed": r["seed"], "focus": r["focus"], "targets": r["info"]["targets"][:3], "steps": kinds} if r["seed"] % 37 == 0 else None)
        mine = [d for d in disc if d[0] == prop]
        other = [d for d in disc if d[0] != prop]
        if mine:
            d = mine[0]
            chk.violation({"kind": "history", "step": d[2], "what": d[3][:60]},
                          {"kind": "history", "input": {"seed": r["seed"], "focus": r["focus"]}, "project": r["info"],
                           "failing_step": d[1], "step_kind": d[2], "what": d[3], "model": d[4],
                           "steps": [{k2: v for k2, v in s.items() if k2 not in ("line",)} for s in r["steps"]][:d[1] + 1][-3:]})
        if other:
            chk.count("discrepancies-owned-by-other-properties", len(other))


def replay_prop(chk, prop, data, rule):
    chk.rule = rule
    inp = data["input"]
    r = run_history((inp["seed"], inp["focus"], chk.tier))
    if r.get("hung"):
        print("hung:", r["hung"])
        chk.violation({"kind": "history", "step": "hung"}, {"kind": "history", "input": inp, "what": r["hung"]})
        return chk.finish()
    lines = [s["line"] for s in r["steps"]]
    outs = common.run_driver(lines)
    for idx, (s, mline) in enumerate(zip(r["steps"], outs)):
        for (p, msg) in H.compare(s, mline):
            print("step %d %s: [%s] %s" % (idx, s["kind"], p, msg))
            if p == prop:
                chk.violation({"kind": "history"}, {"kind": "history", "input": inp, "what": msg})
        if "agree_with" in s:
            for (p, msg) in agree_check(r["steps"], idx):
                print("step %d agree: [%s] %s" % (idx, p, msg))
                if p == prop:
                    chk.violation({"kind": "history"}, {"kind": "history", "input": inp, "what": msg})
        extra = []
        if "converged_after" in s or s.get("noop_after"):
            extra += c06_check(r["steps"], idx, r["info"]["targets"])
        if "unchanged_since" in s:
            extra += unchanged_check(r["steps"], idx)
        if "accepted_completed" in s:
            extra += accepted_completed_check(r["steps"], idx, r["info"]["targets"])
        for (p, msg) in extra:
            print("step %d: [%s] %s" % (idx, p, msg))
            if p == prop:
                chk.violation({"kind": "history"}, {"kind": "history", "input": inp, "what": msg})
    return chk.finish()
