"""common.py — shared machinery of the checks: extraction, lake build, axiom audit,
driver I/O, verdict, replay files, known findings, evidence.

Exit codes of a check: 0 held, 1 violation (with a VIOLATION line), 2 the check itself
is broken (toolchain failure, time-out, degenerate generator).
"""
import fcntl
import hashlib
import json
import os
import random
import re
import shutil
import subprocess
import sys
import tempfile
import time

VERIF = os.path.dirname(os.path.dirname(os.path.abspath(__file__)))
LEAN = os.path.join(VERIF, "lean")
HARNESS = os.path.join(VERIF, "harness")
REPO = os.environ.get("GWF_REPO", "/repo")
PY = "/venv/bin/python"
ALLOWED_AXIOMS = {"propext", "Classical.choice", "Quot.sound"}
FORBIDDEN = re.compile(r"\bsorry\b|\badmit\b|^\s*axiom\s|native_decide|bv_decide|implemented_by|\bunsafe\s|maxHeartbeats\s+0")

TRUSTED_BASE = [
    "Lean 4.33.0 kernel (thorough tier: re-checked by leanchecker)",
    "axioms allowed: propext, Classical.choice, Quot.sound (audited per theorem on every run)",
    "harness/extract.py: reflection of gwf's constant tables into GwfModel/Generated.lean",
    "the correspondence harness (generators, adapters, canonicalisation) under /verif/harness",
    "CPython semantics of dict/set/sorted/max/min/json/re/os.path (modelled, differentially checked where a Lean model exists)",
]


class Broken(Exception):
    """the check itself cannot run (exit 2)"""


def impl_env():
    env = dict(os.environ)
    env["PYTHONPATH"] = os.path.join(REPO, "src") + os.pathsep + HARNESS
    env["GWF_REPO"] = REPO
    env.pop("PYTHONSTARTUP", None)
    return env


def sh(cmd, cwd=None, timeout=None, env=None, input=None):
    return subprocess.run(cmd, cwd=cwd, timeout=timeout, env=env, input=input,
                          stdout=subprocess.PIPE, stderr=subprocess.STDOUT, text=True)


class BuildLock:
    def __enter__(self):
        os.makedirs(os.path.join(LEAN, ".lake"), exist_ok=True)
        self.f = open(os.path.join(LEAN, ".lake", "verif.lock"), "w")
        fcntl.flock(self.f, fcntl.LOCK_EX)
        return self

    def __exit__(self, *a):
        fcntl.flock(self.f, fcntl.LOCK_UN)
        self.f.close()


GEN = os.path.join(LEAN, "GwfModel", "Generated.lean")
GEN_REF = os.path.join(LEAN, "GwfModel", "Generated.ref.lean.txt")


def read(p):
    try:
        with open(p) as f:
            return f.read()
    except FileNotFoundError:
        return None


def strip_lean_comments(text):
    text = re.sub(r"/-.*?-/", "", text, flags=re.S)
    text = re.sub(r"--.*", "", text)
    return text


def scan_forbidden():
    hits = []
    for root, dirs, files in os.walk(LEAN):
        dirs[:] = [d for d in dirs if d not in (".lake",)]
        for fn in files:
            if fn.endswith(".lean"):
                p = os.path.join(root, fn)
                for i, line in enumerate(strip_lean_comments(read(p)).splitlines(), 1):
                    if FORBIDDEN.search(line):
                        hits.append("%s:%d:%s" % (os.path.relpath(p, LEAN), i, line.strip()))
    return hits


def theorem_names(prop):
    """(namespace-qualified) theorem names declared in GwfProps/<prop>.lean"""
    p = os.path.join(LEAN, "GwfProps", prop + ".lean")
    text = strip_lean_comments(read(p) or "")
    names = []
    ns = []
    for line in text.splitlines():
        m = re.match(r"\s*namespace\s+(\S+)", line)
        if m:
            ns.append(m.group(1))
            continue
        m = re.match(r"\s*end\s+(\S+)", line)
        if m and ns and ns[-1] == m.group(1):
            ns.pop()
            continue
        m = re.match(r"\s*(?:@\[[^\]]*\]\s*)?(?:private\s+|protected\s+)?theorem\s+([^\s:({\[]+)", line)
        if m:
            names.append(".".join(ns + [m.group(1)]))
    return names


class ProofStatus:
    def __init__(self):
        self.ok = False               # proofs of this property built and axioms clean
        self.model_ok = False         # GwfModel + Driver usable
        self.generated_changed = False
        self.used_ref_model = False
        self.failed = []              # human-readable failures (theorem / file names)
        self.theorems = {}            # name -> axioms list
        self.build_log = ""
        self.cmds = []


def prepare(prop, tier="quick", need_proofs=True):
    """extract → lake build → audit.  Returns ProofStatus; raises Broken when the failure
    cannot be attributed to a change of /repo."""
    st = ProofStatus()
    with BuildLock():
        r = sh([PY, os.path.join(HARNESS, "extract.py")], env=impl_env(), timeout=120)
        if r.returncode != 0:
            # extraction crashed outright (e.g. gwf no longer imports): keep the reference model
            st.failed.append("extract.py failed: " + r.stdout[-400:])
            shutil.copyfile(GEN_REF, GEN)
            st.used_ref_model = True
        gen, ref = read(GEN), read(GEN_REF)
        st.generated_changed = (gen != ref) or st.used_ref_model
        cmd = ["lake", "build", "GwfModel"]
        st.cmds.append(" ".join(cmd))
        r = sh(cmd, cwd=LEAN, timeout=1800)
        if r.returncode != 0:
            st.build_log += r.stdout
            if not st.generated_changed:
                raise Broken("lake build GwfModel failed with unchanged Generated.lean:\n" + r.stdout[-3000:])
            st.failed.append("GwfModel does not build against the regenerated tables")
            shutil.copyfile(GEN_REF, GEN)
            st.used_ref_model = True
            r = sh(cmd, cwd=LEAN, timeout=1800)
            if r.returncode != 0:
                raise Broken("lake build GwfModel failed even with reference tables:\n" + r.stdout[-3000:])
        st.model_ok = True
        if not need_proofs:
            return st
        mod = "GwfProps." + prop
        cmd = ["lake", "build", mod]
        st.cmds.append(" ".join(cmd))
        r = sh(cmd, cwd=LEAN, timeout=3600)
        st.build_log += r.stdout
        if r.returncode != 0:
            errs = re.findall(r"error: ([^\n]*)", r.stdout)
            if not (st.generated_changed):
                raise Broken("lake build %s failed with unchanged Generated.lean:\n%s" % (mod, r.stdout[-3000:]))
            st.failed.extend(["proof obligation no longer checks: " + e for e in errs[:12]])
            return st
        # audit
        names = theorem_names(prop)
        if not names:
            raise Broken("no theorems found in GwfProps/%s.lean" % prop)
        os.makedirs(os.path.join(LEAN, ".lake", "audit"), exist_ok=True)
        ap = os.path.join(LEAN, ".lake", "audit", "Audit_%s.lean" % prop)
        with open(ap, "w") as f:
            f.write("import %s\n" % mod + "".join("#print axioms %s\n" % n for n in names))
        cmd = ["lake", "env", "lean", ap]
        st.cmds.append("lake env lean .lake/audit/Audit_%s.lean  (#print axioms for %d theorems)" % (prop, len(names)))
        r = sh(cmd, cwd=LEAN, timeout=600)
        if r.returncode != 0:
            raise Broken("axiom audit failed:\n" + r.stdout[-2000:])
        out = r.stdout.replace("\n ", " ")
        for n in names:
            m = re.search(r"'%s' depends on axioms: \[([^\]]*)\]" % re.escape(n), out)
            if m:
                st.theorems[n] = [a.strip() for a in m.group(1).split(",") if a.strip()]
            elif re.search(r"'%s' does not depend on any axioms" % re.escape(n), out):
                st.theorems[n] = []
            else:
                raise Broken("audit output lacks theorem %s:\n%s" % (n, r.stdout[-1500:]))
        dirty = {n: a for n, a in st.theorems.items() if not set(a) <= ALLOWED_AXIOMS}
        if dirty:
            raise Broken("theorems with disallowed axioms: %r" % dirty)
        hits = scan_forbidden()
        if hits:
            raise Broken("forbidden constructs in lean/: %r" % hits[:5])
        if tier == "thorough":
            cmd = ["lake", "env", "leanchecker", mod]
            st.cmds.append(" ".join(cmd))
            r = sh(cmd, cwd=LEAN, timeout=3000)
            if r.returncode != 0:
                raise Broken("leanchecker rejected %s:\n%s" % (mod, r.stdout[-1500:]))
        st.ok = True
    return st


# ---------------------------------------------------------------- driver

def run_driver(lines, timeout=1800):
    """batch: feed all lines to the Lean driver, return the output lines"""
    if not lines:
        return []
    data = "\n".join(lines) + "\n"
    r = subprocess.run(["lake", "env", "lean", "--run", "Driver.lean"], cwd=LEAN, input=data,
                       stdout=subprocess.PIPE, stderr=subprocess.PIPE, text=True, timeout=timeout)
    if r.returncode != 0:
        raise Broken("driver failed: " + r.stderr[-2000:])
    out = r.stdout.split("\n")
    if out and out[-1] == "":
        out.pop()
    if len(out) != len(lines):
        raise Broken("driver returned %d lines for %d ops; stderr: %s" % (len(out), len(lines), r.stderr[-500:]))
    return out


def run_driver_sharded(lines, shards=8, timeout=1800):
    """split a big batch over several driver processes (stateless ops only)"""
    if len(lines) < 4000 or shards <= 1:
        return run_driver(lines, timeout)
    import concurrent.futures as cf
    n = (len(lines) + shards - 1) // shards
    chunks = [lines[i:i + n] for i in range(0, len(lines), n)]
    with cf.ThreadPoolExecutor(len(chunks)) as ex:
        res = list(ex.map(lambda c: run_driver(c, timeout), chunks))
    return [x for c in res for x in c]


class LiveDriver:
    """interactive driver process (one request line → one reply line)"""

    def __init__(self):
        self.p = subprocess.Popen(["lake", "env", "lean", "--run", "Driver.lean"], cwd=LEAN,
                                  stdin=subprocess.PIPE, stdout=subprocess.PIPE, text=True, bufsize=1)

    def ask(self, line):
        self.p.stdin.write(line + "\n")
        self.p.stdin.flush()
        out = self.p.stdout.readline()
        if not out:
            raise Broken("driver died on: " + line[:200])
        return out.rstrip("\n")

    def close(self):
        try:
            self.p.stdin.close()
            self.p.wait(timeout=10)
        except Exception:
            self.p.kill()


# ---------------------------------------------------------------- encoding helpers

def hx(s):
    if isinstance(s, bytes):
        return "h" + s.hex()
    return "h" + s.encode("utf-8", "surrogatepass").hex()


def unhx(tok):
    return bytes.fromhex(tok[1:]).decode("utf-8", "replace")


def mklist(items, sep=","):
    return "L" + sep.join(items)


def unlist(tok, sep=","):
    body = tok[1:]
    return body.split(sep) if body else []


# ---------------------------------------------------------------- known findings

def load_known(prop):
    """known-findings.txt lines: `finding: property=Cxx id=<slug> match=<json> : text`"""
    out = []
    p = os.path.join(VERIF, "known-findings.txt")
    for line in (read(p) or "").splitlines():
        line = line.strip()
        m = re.match(r"finding:\s+property=(\S+)\s+id=(\S+)\s+match=(\{.*?\})\s+:\s+(.*)$", line)
        if m and m.group(1) == prop:
            out.append({"id": m.group(2), "match": json.loads(m.group(3)), "text": m.group(4)})
    return out


def matches_known(known, case_sig):
    """case_sig: flat dict describing a failing case; a finding matches when all its keys agree"""
    for k in known:
        if all(case_sig.get(a) == b for a, b in k["match"].items()):
            return k
    return None


# ---------------------------------------------------------------- check context

class Check:
    def __init__(self, prop, tier, seed):
        self.prop = prop
        self.tier = tier
        self.seed = seed
        self.rng = random.Random("%s-%s" % (prop, seed))
        self.t0 = time.time()
        self.evaluations = 0
        self.distinct = set()
        self.samples = []
        self.counters = {}
        self.violations = []       # (sig, replay dict)
        self.known_hits = []
        self.notes = []
        self.assumptions = []
        self.rule = ""
        self.proof = None
        self.exhaustive = None
        self.traces = None
        self.known = load_known(prop)

    # --- bookkeeping
    def count(self, key, n=1):
        self.counters[key] = self.counters.get(key, 0) + n

    def case(self, canon, nontrivial, sample=None):
        """record one explored case; canon = canonical (hashable/str) form"""
        self.evaluations += 1
        if nontrivial:
            h = hashlib.sha1(repr(canon).encode()).digest()[:10]
            self.distinct.add(h)
        if sample is not None and len(self.samples) < 6 and (nontrivial or len(self.samples) < 2):
            self.samples.append(sample)

    def violation(self, sig, replay):
        """sig: flat dict identifying the failing case (for known-findings matching)"""
        k = matches_known(self.known, sig)
        if k:
            if k["id"] not in [x["id"] for x in self.known_hits]:
                self.known_hits.append(k)
            return False
        self.violations.append((sig, replay))
        return True

    # --- finishing
    def write_replay(self, replay, suffix=""):
        os.makedirs(os.path.join(VERIF, "replays"), exist_ok=True)
        body = json.dumps(replay, sort_keys=True, indent=1, default=str)
        name = "%s-%s%s.json" % (self.prop, hashlib.sha1(body.encode()).hexdigest()[:10], suffix)
        path = os.path.join("replays", name)
        with open(os.path.join(VERIF, path), "w") as f:
            f.write(body)
        return path

    def write_evidence(self, nviol):
        cov = {
            "evaluations": self.evaluations,
            "distinct_nontrivial": len(self.distinct),
            "rule": self.rule,
            "samples": self.samples[:6] or ["(no case explored)"],
            "counters": self.counters,
        }
        if self.proof is not None:
            thms = self.proof.theorems
            cov["obligations"] = max(len(thms), len(theorem_names(self.prop)))
            cov["discharged"] = len(thms) if self.proof.ok else 0
            cov["checker_cmd"] = " && ".join(self.proof.cmds) or "lake build"
            cov["trusted_base"] = TRUSTED_BASE + ["axioms used: " + ", ".join(sorted({a for v in thms.values() for a in v}) or ["none"])]
            cov["theorems"] = thms
            cov["generated_tables_differ_from_reference"] = self.proof.generated_changed
        if self.exhaustive is not None:
            cov["exhaustive"] = self.exhaustive
        if self.traces is not None:
            cov["traces_validated_against_impl"] = self.traces
        if self.notes:
            cov["notes"] = self.notes
        ev = {
            "property_id": self.prop, "tier": self.tier, "seed": self.seed, "level": "proof",
            "coverage": cov, "assumptions": self.assumptions,
            "wall_s": round(time.time() - self.t0, 2), "violations": nviol,
        }
        os.makedirs(os.path.join(VERIF, "evidence"), exist_ok=True)
        with open(os.path.join(VERIF, "evidence", self.prop + ".json"), "w") as f:
            json.dump(ev, f, indent=1, sort_keys=True, default=str)

    def finish(self):
        """verdict per DESIGN §4.1; returns exit code"""
        for k in self.known_hits:
            print("KNOWN-FINDING: property=%s %s" % (self.prop, k["text"]))
        nviol = 0
        code = 0
        if self.violations:
            sig, replay = self.violations[0]
            replay = dict(replay)
            replay.setdefault("property", self.prop)
            replay.setdefault("seed", self.seed)
            replay.setdefault("tier", self.tier)
            replay["other_failing_cases"] = len(self.violations) - 1
            if self.proof is not None and self.proof.failed:
                replay["proof_failures"] = self.proof.failed
            path = self.write_replay(replay)
            print("VIOLATION property=%s replay=%s" % (self.prop, path))
            nviol = len(self.violations)
            code = 1
        elif self.proof is not None and not self.proof.ok:
            replay = {
                "property": self.prop, "kind": "proof-or-correspondence-broken",
                "no_longer_checks": self.proof.failed,
                "generated_changed": self.proof.generated_changed,
                "searched": {"evaluations": self.evaluations, "distinct_nontrivial": len(self.distinct)},
                "build_log_tail": self.proof.build_log[-3000:],
            }
            path = self.write_replay(replay, "-noinput")
            print("VIOLATION property=%s replay=%s no-failing-input-found" % (self.prop, path))
            nviol = 1
            code = 1
        self.write_evidence(nviol)
        dt = time.time() - self.t0
        print("%s %s tier=%s seed=%s evaluations=%d distinct_nontrivial=%d wall=%.1fs" % (
            self.prop, "HELD" if code == 0 else "VIOLATED", self.tier, self.seed, self.evaluations, len(self.distinct), dt))
        return code


def mismatch_replay(kind, inp, impl, model, extra=None):
    d = {"kind": kind, "input": inp, "implementation": impl, "model": model}
    if extra:
        d.update(extra)
    return d


def scratch_dir(prefix="gwfverif-"):
    base = os.environ.get("GWF_VERIF_SCRATCH") or tempfile.gettempdir()
    return tempfile.mkdtemp(prefix=prefix, dir=base)


# ---------------------------------------------------------------- parallel helpers

def pmap(func, items, procs=None, chunk=None):
    """map `func` over items in forked worker processes (func must be a module-level function)"""
    import concurrent.futures as cf
    procs = procs or min(16, os.cpu_count() or 4)
    items = list(items)
    if len(items) < 64 or procs <= 1:
        return [func(x) for x in items]
    chunk = chunk or max(1, len(items) // (procs * 4))
    with cf.ProcessPoolExecutor(procs) as ex:
        return list(ex.map(func, items, chunksize=chunk))


def load_corpus(prop):
    d = os.path.join(VERIF, "corpus", prop)
    out = []
    if os.path.isdir(d):
        for fn in sorted(os.listdir(d)):
            if fn.endswith(".json"):
                with open(os.path.join(d, fn)) as f:
                    out.append((fn, json.load(f)))
    return out
