"""gen.py — seeded structured generators shared by the correspondences.

A *project description* (`proj`) is a plain dict:
  cwd      : process cwd used for abspath (absolute, normalised)
  targets  : list in DEFINITION order of dicts
               name, wd, inputs (shape), outputs (shape), protect (list of str),
               spec (str), bstat (one of u s r c f x), specflag (0 unchanged/1 changed)
  fs       : {normalised absolute path: int mtime}   (absent = missing)
  endpoints: None (= graph endpoints) or list of names
Shapes are what is handed to gwf: str | list | dict, arbitrarily nested.
"""
import posixpath

BSTATS = "usrcfx"


def name_pool(rng, n):
    """n distinct valid target names whose sort order is unrelated to creation order"""
    heads = ["A", "B", "a", "b", "Z", "z", "_", "T", "t", "M"]
    out = set()
    while len(out) < n:
        s = rng.choice(heads) + "".join(rng.choice("abXY01_.") for _ in range(rng.randint(0, 3)))
        out.add(s)
    out = list(out)
    rng.shuffle(out)
    return out


def shape_of(rng, paths, depth=0):
    """wrap a list of path strings into a random container shape that flattens to it"""
    paths = list(paths)
    kind = rng.randint(0, 5)
    if len(paths) == 1 and kind == 0:
        return paths[0]
    if kind <= 2 or depth >= 2:
        return paths
    if kind == 3:
        # dict of lists / strings
        d = {}
        i = 0
        k = 0
        while i < len(paths):
            take = rng.randint(1, 2)
            chunk = paths[i:i + take]
            d["k%d" % k] = chunk[0] if (len(chunk) == 1 and rng.random() < 0.5) else chunk
            i += take
            k += 1
        if rng.random() < 0.3:
            d["empty"] = []
        return d
    if kind == 4:
        # nested lists
        out = []
        i = 0
        while i < len(paths):
            take = rng.randint(1, 3)
            out.append(shape_of(rng, paths[i:i + take], depth + 1) if rng.random() < 0.6 else paths[i])
            if not isinstance(out[-1], (list, dict)):
                take = 1
            i += take
        if rng.random() < 0.3:
            out.append([])
        return out
    # tuple-ish: list with empty dict
    return [paths, {}] if rng.random() < 0.5 else [paths]


def flatten_shape(s):
    """reference flatten used ONLY to build generator bookkeeping (never as an oracle)"""
    if isinstance(s, str) or hasattr(s, "__fspath__"):
        return [s]
    if isinstance(s, dict):
        return [x for v in s.values() for x in flatten_shape(v)]
    return [x for v in s for x in flatten_shape(v)]


def spell(rng, wd, abspath, allow_abs=True):
    """a spelling of the normalised absolute path `abspath` as seen from working dir `wd`"""
    rel = posixpath.relpath(abspath, wd)
    choice = rng.randint(0, 7)
    if choice <= 2:
        return rel
    if choice == 3:
        return "./" + rel
    if choice == 4:
        return "d/../" + rel
    if choice == 5 and allow_abs:
        return abspath
    if choice == 6 and allow_abs:
        head, tail = posixpath.split(abspath)
        return (head.rstrip("/") + "/./" + tail) if rng.random() < 0.5 else (head.rstrip("/") + "/q/../" + tail)
    if choice == 7:
        return rel.replace("/", "//", 1) if "/" in rel else rel + ("/" if rng.random() < 0.2 else "")
    return rel


def gen_dag_project(rng, nmax=8, spellings=False, shapes=True, defects=None, multi_wd=False,
                    ts_range=3, p_missing=0.25, bstat_weights=(10, 2, 2, 2, 2, 2), specflags=False):
    """random (mostly valid) workflow; `defects` ⊆ {"cycle","self","multi","missing"} plants errors"""
    n = rng.randint(1, nmax)
    names = name_pool(rng, n)
    root = "/w"
    wds = [root] + (["/w/sub", "/v"] if multi_wd else [])
    cwd = rng.choice(["/w", "/", "/c/d"]) if spellings else "/w"
    nsrc = rng.randint(0, 3)
    sources = ["/w/src%d" % i for i in range(nsrc)]
    topo = list(range(n))
    outs = {}
    ins = {}
    counter = 0
    for t in topo:
        k = rng.choice([0, 1, 1, 1, 2, 2, 3])
        outs[t] = []
        for _ in range(k):
            d = rng.choice(["/w", "/w", "/w/sub", "/v"]) if multi_wd else "/w"
            outs[t].append("%s/o%d" % (d, counter))
            counter += 1
        pool = [p for u in topo[:t] for p in outs[u]] + sources
        ins[t] = []
        if pool:
            for _ in range(rng.choice([0, 1, 1, 2, 3])):
                p = rng.choice(pool)
                if p not in ins[t] or rng.random() < 0.1:
                    ins[t].append(p)
    defects = defects or set()
    planted = []
    if "self" in defects and n >= 1:
        t = rng.randrange(n)
        if not outs[t]:
            outs[t].append("/w/o%d" % counter); counter += 1
        ins[t].append(rng.choice(outs[t])); planted.append("self")
    if "cycle" in defects and n >= 2:
        k = rng.randint(2, min(n, 5))
        cyc = rng.sample(range(n), k)
        for a, b in zip(cyc, cyc[1:] + cyc[:1]):
            if not outs[b]:
                outs[b].append("/w/o%d" % counter); counter += 1
            ins[a].append(rng.choice(outs[b]))
        planted.append("cycle%d" % k)
    if "multi" in defects and n >= 1:
        cands = [t for t in range(n) if outs[t]]
        if cands:
            a = rng.choice(cands)
            b = rng.randrange(n)
            outs[b].append(rng.choice(outs[a])); planted.append("multi")
    fs = {}
    for p in sources:
        fs[p] = rng.randint(0, ts_range)
    if "missing" in defects:
        t = rng.randrange(n)
        ins[t].append("/w/nosuch%d" % counter); planted.append("missing")
    for t in range(n):
        for p in outs[t]:
            if rng.random() >= p_missing:
                fs[p] = rng.randint(0, ts_range)
    order = list(range(n))
    rng.shuffle(order)
    targets = []
    for t in order:
        wd = rng.choice(wds)
        def sp(p, wd=wd):
            return spell(rng, wd, p) if spellings else (posixpath.relpath(p, wd) if rng.random() < 0.7 else p)
        i_sp = [sp(p) for p in ins[t]]
        o_sp = [sp(p) for p in outs[t]]
        prot = [sp(p) for p in outs[t] if rng.random() < 0.2]
        targets.append({
            "name": names[t], "wd": wd,
            "inputs": shape_of(rng, i_sp) if shapes else i_sp,
            "outputs": shape_of(rng, o_sp) if shapes else o_sp,
            "protect": prot,
            "spec": "echo %s v%d\n" % (names[t], rng.randint(0, 2)),
            "bstat": rng.choices(BSTATS, weights=bstat_weights)[0],
            "specflag": (1 if (specflags and rng.random() < 0.25) else 0),
        })
    eps = None
    if rng.random() < 0.5:
        eps = rng.sample(names, rng.randint(1, n))
    return {"cwd": cwd, "targets": targets, "fs": fs, "endpoints": eps, "planted": planted,
            "hashing": bool(specflags), "ctseed": (rng.randint(0, 1 << 30) if rng.random() < 0.5 else None)}


def rand_path_string(rng):
    alpha = ["a", "b", "..", ".", "", "x.y", "d", "ä", " ", "a b"]
    n = rng.randint(0, 6)
    s = "/".join(rng.choice(alpha) for _ in range(n))
    pre = rng.choice(["", "/", "//", "///", "./", "../"])
    suf = rng.choice(["", "/", "//", "/.", "/.."])
    return pre + s + suf
