"""impl_core.py — adapters that run the REAL gwf core (Target, Graph.from_targets,
should_run, schedule) on a project description and print canonical lines, plus the
encoder of the same description for the Lean driver.  No gwf logic is re-implemented
here; expected values always come from the Lean model.
"""
import json
import os
import tempfile

from common import hx, mklist

from gwf import Target
from gwf.backends.base import BackendStatus
from gwf.core import (CircularDependencyError, FileProvidedByMultipleTargetsError, FileSpecHashes, Graph,
                      NoopSpecHashes, UnresolvedInputError, hash_spec)
from gwf import scheduling

BMAP = {"u": BackendStatus.UNKNOWN, "s": BackendStatus.SUBMITTED, "r": BackendStatus.RUNNING,
        "c": BackendStatus.COMPLETED, "f": BackendStatus.FAILED, "x": BackendStatus.CANCELLED}


class MemFS:
    """in-memory object with CachedFilesystem's interface (integer mtimes)"""

    def __init__(self, table):
        self.table = table
        self.lookups = []

    def exists(self, path):
        self.lookups.append(path)
        return path in self.table

    def changed_at(self, path):
        self.lookups.append(path)
        if path not in self.table:
            raise FileNotFoundError(path)
        return self.table[path]


class chdir:
    def __init__(self, d):
        self.d = d

    def __enter__(self):
        self.old = os.getcwd()
        os.chdir(self.d)

    def __exit__(self, *a):
        os.chdir(self.old)


def enc_shape(s):
    if isinstance(s, str) or hasattr(s, "__fspath__"):
        return "leaf " + hx(os.fspath(s))
    if isinstance(s, dict):
        return "dict %d" % len(s) + "".join(" k%d %s" % (i, enc_shape(v)) for i, v in enumerate(s.values()))
    s = list(s)
    return "list %d" % len(s) + "".join(" " + enc_shape(v) for v in s)


def name_ids(proj):
    names = sorted(t["name"] for t in proj["targets"])
    return {n: i for i, n in enumerate(names)}


def enc_proj(proj):
    ids = name_ids(proj)
    parts = ["C", hx(proj["cwd"])]
    for t in proj["targets"]:
        parts += ["T", str(ids[t["name"]]), hx(t["wd"]), t["bstat"], str(t["specflag"]),
                  "I", enc_shape(t["inputs"]), "O", enc_shape(t["outputs"]), "P", enc_shape(list(t["protect"]))]
    parts += ["F", mklist("%s=%d" % (hx(p), ts) for p, ts in sorted(proj["fs"].items()))]
    eps = proj.get("endpoints")
    parts += ["E", "*" if eps is None else mklist(str(i) for i in sorted(ids[n] for n in eps))]
    return " ".join(parts)


class PL:
    """a minimal os.PathLike that returns its string unchanged (pathlib would normalise spellings)"""

    def __init__(self, s):
        self.s = s

    def __fspath__(self):
        return self.s

    def __repr__(self):
        return "PL(%r)" % self.s


def materialise(shape, rng):
    """same declared paths, other Python container types: tuple / list, dict / OrderedDict /
    MappingProxyType / UserDict / ChainMap, str / PathLike leaves"""
    import collections
    import types
    if isinstance(shape, str):
        return PL(shape) if rng.random() < 0.3 else shape
    if isinstance(shape, dict):
        d = {k: materialise(v, rng) for k, v in shape.items()}
        k = rng.randint(0, 4)
        if k == 0:
            return collections.OrderedDict(d)
        if k == 1:
            return types.MappingProxyType(d)
        if k == 2:
            return collections.UserDict(d)
        if k == 3:
            return collections.ChainMap(d)
        return d
    items = [materialise(v, rng) for v in shape]
    return tuple(items) if rng.random() < 0.4 else items


def make_targets(proj):
    import random
    out = []
    rng = random.Random(proj["ctseed"]) if proj.get("ctseed") is not None else None
    for t in proj["targets"]:
        ins, outs = t["inputs"], t["outputs"]
        if rng is not None:
            ins, outs = materialise(ins, rng), materialise(outs, rng)
        out.append(Target(name=t["name"], inputs=ins, outputs=outs, options={},
                          working_dir=t["wd"], protect=set(t["protect"]), spec=t["spec"]))
    return out


def err_kind(exc):
    if isinstance(exc, FileProvidedByMultipleTargetsError):
        return "multi"
    if isinstance(exc, UnresolvedInputError):
        return "unresolved"
    if isinstance(exc, CircularDependencyError):
        return "cycle"
    return "other:" + type(exc).__name__


def show_nats(xs):
    return ",".join(str(x) for x in xs)


def impl_graph(proj):
    """real Graph.from_targets → canonical line (same format as the driver's wf.graph)"""
    ids = name_ids(proj)
    # the real code calls os.path.abspath, which consults the process cwd: emulate proj.cwd by
    # patching os.getcwd for the duration (the directory need not exist)
    real_getcwd = os.getcwd
    os.getcwd = lambda: proj["cwd"]
    try:
        try:
            targets = make_targets(proj)
            g = Graph.from_targets({t.name: t for t in targets}, MemFS(proj["fs"]))
        except Exception as exc:  # noqa
            k = err_kind(exc)
            return "err " + k, None, None
        deps = sorted((ids[t.name], sorted(ids[d.name] for d in g.dependencies.get(t, ()))) for t in g.targets.values())
        dpts = sorted((ids[t.name], sorted(ids[d.name] for d in g.dependents.get(t, ()))) for t in g.targets.values())
        eps = sorted(ids[t.name] for t in g.endpoints())
        prov = sorted("%s:%d" % (hx(p), ids[t.name]) for p, t in g.provides.items())
        unres = sorted(hx(p) for p in g.unresolved)
        line = "ok deps=%s dependents=%s endpoints=%s provides=%s unresolved=%s" % (
            ";".join("%d:%s" % (k, show_nats(v)) for k, v in deps),
            ";".join("%d:%s" % (k, show_nats(v)) for k, v in dpts),
            show_nats(eps), ",".join(prov), ",".join(unres))
        return line, g, targets
    finally:
        os.getcwd = real_getcwd


class TableHashes:
    """spec-hash store backed by the REAL FileSpecHashes on a temp file prepared from specflags"""

    @staticmethod
    def make(proj, tmpdir):
        if not proj.get("hashing"):
            return NoopSpecHashes()
        path = os.path.join(tmpdir, "spec-hashes.json")
        data = {}
        for i, t in enumerate(proj["targets"]):
            rec = t.get("hashrec") or ("same" if t["specflag"] == 0 else ("other" if i % 2 == 0 else "none"))
            if rec == "same":
                data[t["name"]] = hash_spec(t["spec"])
            elif rec == "other":
                data[t["name"]] = hash_spec(t["spec"] + "# edited")
            # "none": never recorded
        with open(path, "w") as f:
            json.dump(data, f)
        return FileSpecHashes(path)


def impl_plan(proj, tmpdir=None):
    """real schedule() with recording submit_func and table-driven status_func"""
    ids = name_ids(proj)
    line, g, targets = impl_graph(proj)
    if g is None:
        return line
    own = tmpdir is None
    if own:
        tmpdir = tempfile.mkdtemp(prefix="gwfverif-")
    try:
        real_getcwd = os.getcwd
        os.getcwd = lambda: proj["cwd"]
        try:
            hashes = TableHashes.make(proj, tmpdir)
            bst = {t["name"]: BMAP[t["bstat"]] for t in proj["targets"]}
            log = []

            def submit(target, dependencies):
                log.append((ids[target.name], [ids[d.name] for d in dependencies]))

            eps = proj.get("endpoints")
            endpoints = g.endpoints() if eps is None else {g.targets[n] for n in eps}
            try:
                cache = scheduling.schedule(endpoints, g, MemFS(proj["fs"]), hashes,
                                            status_func=lambda t: bst[t.name], submit_func=submit)
            except FileNotFoundError:
                return "raise"
            except RecursionError:
                return "recursion"
        finally:
            os.getcwd = real_getcwd
        status = sorted((ids[t.name], s.name.lower()) for t, s in cache.items())
        return "ok status=%s log=%s" % (",".join("%d:%s" % p for p in status),
                                        ";".join("%d:%s" % (t, show_nats(d)) for t, d in log))
    finally:
        if own:
            import shutil
            shutil.rmtree(tmpdir, ignore_errors=True)
